package sim

import (
	"encoding/json"
	"fmt"
	"math/rand"
	"os"
	"regexp"
	"runtime"
	"runtime/debug"
	"sort"
	"strconv"
	"strings"
	"syscall"
	"testing"
	"testing/synctest"
	"time"
)

// NativeMode (VERIF_MODE=native) turns the scheduler into a pass-through; used
// only by the race audit, which is monitoring of real schedules (DESIGN C19c).
var NativeMode = os.Getenv("VERIF_MODE") == "native"

// Engine describes one simulated world.
type Engine struct {
	Name string
	// Body executes one run inside the bubble, on the run's main goroutine.
	Body func(r *Run)
	// Rule states how runs are generated and what makes one non-trivial.
	Rule func(prop string) string
	// Real / Stub list which components ran real code and which ran a stub.
	Real, Stub  []string
	Assumptions []string
	// NoBubble runs Body outside synctest (engines that need the real clock
	// never set this; it exists for the race audit).
	NoBubble bool
}

type runResult struct {
	viol      *Violation
	tape      []uint32
	marks     []int
	trace     []string
	traceHash uint64
	schedHash uint64
	states    map[uint64]struct{}
	faults    map[string]int
	probes    map[string]int
	known     map[string]int
	ops       int
	nontriv   bool
	simDur    time.Duration
	panicMsg  string
	teardown  string
}

func (r *Run) notePanic(p any) {
	st := string(debug.Stack())
	r.mu.Lock()
	if r.viol == nil {
		sig := panicSite(st)
		r.viol = &Violation{Property: r.Prop, Oracle: "panic", Sig: sig,
			Msg: fmt.Sprintf("panic: %v\n%s", p, trimStack(st))}
	}
	r.mu.Unlock()
}

func trimStack(st string) string {
	if len(st) > 6000 {
		return st[:6000]
	}
	return st
}

// panicSite returns the first gomatrixserverlib (non-harness) frame of a stack.
func panicSite(st string) string {
	for _, ln := range strings.Split(st, "\n") {
		ln = strings.TrimSpace(ln)
		if strings.HasPrefix(ln, "github.com/matrix-org/gomatrixserverlib") && !strings.Contains(ln, "verifrt") {
			if i := strings.LastIndex(ln, "("); i > 0 {
				ln = ln[:i]
			}
			return ln
		}
	}
	return "harness"
}

func execute(t *testing.T, e *Engine, seed uint64, prop, tier string, tape *Tape, known []KnownFinding, keepTrace bool) *runResult {
	r := newRun(seed, prop, tier, tape, known, keepTrace)
	res := &runResult{}
	Progress.Add(1)
	body := func() {
		r.start = time.Now()
		defer func() {
			if p := recover(); p != nil {
				if _, ok := p.(abortRun); !ok {
					r.notePanic(p)
				}
			}
			if r.Sched != nil {
				r.Sched.Drain()
				r.Sched.wg.Wait()
			}
			for i := len(r.cleanup) - 1; i >= 0; i-- {
				func() {
					defer func() { recover() }()
					r.cleanup[i]()
				}()
			}
			r.SimDur = time.Since(r.start)
			r.bodyDone = true
		}()
		// deterministic global math/rand for util.RandomString (event ids)
		rand.Seed(int64(seed))
		e.Body(r)
	}
	func() {
		defer func() {
			if p := recover(); p != nil {
				msg := fmt.Sprint(p)
				if r.bodyDone {
					// goroutines left blocked after the body returned
					res.teardown = msg
					return
				}
				// all goroutines durably blocked with no timer: deadlock
				r.mu.Lock()
				if r.viol == nil {
					r.viol = &Violation{Property: prop, Oracle: "deadlock", Sig: "bubble", Msg: msg}
				}
				r.mu.Unlock()
			}
		}()
		if e.NoBubble || NativeMode {
			body()
		} else {
			synctest.Test(t, func(*testing.T) { body() })
		}
	}()
	res.viol = r.viol
	res.marks = tape.Marks
	res.tape = tape.Rec
	res.trace = r.trace
	res.traceHash = r.traceHash
	res.schedHash = r.schedHash
	res.states = r.stateSet
	res.faults = r.Faults
	res.probes = r.Probes
	res.known = r.KnownHits
	res.ops = r.Ops
	res.nontriv = r.Nontriv
	res.simDur = r.SimDur
	return res
}

// ReplayFile is the on-disk form of a violation.
type ReplayFile struct {
	Property string   `json:"property"`
	Engine   string   `json:"engine"`
	Seed     uint64   `json:"seed"`
	Tier     string   `json:"tier"`
	Oracle   string   `json:"oracle"`
	Sig      string   `json:"sig"`
	Message  string   `json:"message"`
	Tape     []uint32 `json:"tape"`
	OrigLen  int      `json:"original_tape_len"`
	Shrinks  int      `json:"shrink_executions"`
	Trace    []string `json:"trace"`
	Tree     string   `json:"repo_tree"`
}

// WorkerOut is what one worker process reports to the driver.
type WorkerOut struct {
	Engine        string         `json:"engine"`
	Property      string         `json:"property"`
	Runs          int            `json:"runs"`
	SeedFirst     uint64         `json:"seed_first"`
	SeedLast      uint64         `json:"seed_last"`
	Ops           int            `json:"ops"`
	SimSeconds    float64        `json:"sim_seconds"`
	WallSeconds   float64        `json:"wall_seconds"`
	Faults        map[string]int `json:"faults"`
	Probes        map[string]int `json:"probes"`
	Known         map[string]int `json:"known"`
	TraceHashes   []string       `json:"trace_hashes"`
	NontrivH      []string       `json:"nontrivial_hashes"`
	SchedHashes   []string       `json:"sched_hashes"`
	StateHashes   []string       `json:"state_hashes"`
	Samples       [][]string     `json:"samples"`
	Violations    []string       `json:"violations"` // replay file paths
	ViolClasses   []string       `json:"violation_classes"`
	Teardown      int            `json:"teardown_leaks"`
	Rule          string         `json:"rule"`
	Real          []string       `json:"real"`
	Stub          []string       `json:"stub"`
	Assumptions   []string       `json:"assumptions"`
	Hang          string         `json:"hang,omitempty"`
	HangSeed      uint64         `json:"hang_seed,omitempty"`
	Replayed      *Violation     `json:"replayed,omitempty"`
	TraceDigest   string         `json:"trace_digest,omitempty"`
	Sampled       bool           `json:"sampled"`
	DistinctLocal [4]int         `json:"distinct_local"`
}

func envInt(k string, d int64) int64 {
	if v := os.Getenv(k); v != "" {
		if n, err := strconv.ParseInt(v, 10, 64); err == nil {
			return n
		}
	}
	return d
}

func loadKnown(path string) []KnownFinding {
	if path == "" {
		return nil
	}
	b, err := os.ReadFile(path)
	if err != nil {
		return nil
	}
	var f struct {
		Findings []KnownFinding `json:"findings"`
	}
	if err := json.Unmarshal(b, &f); err != nil {
		fmt.Fprintln(os.Stderr, "KNOWN_FINDINGS.json unreadable:", err)
		os.Exit(2)
	}
	for i := range f.Findings {
		f.Findings[i].re = regexp.MustCompile(f.Findings[i].SigRe)
	}
	return f.Findings
}

func hx(h uint64) string { return strconv.FormatUint(h, 16) }

var curSeed uint64

// Main is the body of every engine's TestEngine. Environment:
//
//	VERIF_PROPERTY   property in focus
//	VERIF_SEED_START first seed; VERIF_SEED_STRIDE step; VERIF_MAX_RUNS cap
//	VERIF_BUDGET_S   wall budget for the seed loop
//	VERIF_OUT        path of the worker's JSON report
//	VERIF_REPLAY     replay file: run that tape only
//	VERIF_REPLAY_DIR where replay files are written
//	VERIF_KNOWN      KNOWN_FINDINGS.json
//	VERIF_TIER       quick | thorough
//	VERIF_DIGEST=1   determinism self-test: report a digest of all event logs
func Main(t *testing.T, e *Engine) {
	prop := os.Getenv("VERIF_PROPERTY")
	tier := os.Getenv("VERIF_TIER")
	if tier == "" {
		tier = "quick"
	}
	known := loadKnown(os.Getenv("VERIF_KNOWN"))
	outPath := os.Getenv("VERIF_OUT")
	out := &WorkerOut{Engine: e.Name, Property: prop, Faults: map[string]int{}, Probes: map[string]int{},
		Known: map[string]int{}, Real: e.Real, Stub: e.Stub, Assumptions: e.Assumptions}
	if e.Rule != nil {
		out.Rule = e.Rule(prop)
	}
	write := func() {
		if outPath == "" {
			return
		}
		b, _ := json.Marshal(out)
		os.WriteFile(outPath, b, 0o644)
	}
	startWatchdog(out, write)
	var curF *os.File
	if outPath != "" {
		curF, _ = os.Create(outPath + ".cur")
	}
	noteSeed := func(seed uint64) {
		curSeed = seed
		if curF != nil {
			curF.WriteAt([]byte(fmt.Sprintf("%020d", seed)), 0)
		}
	}

	if rp := os.Getenv("VERIF_REPLAY"); rp != "" {
		b, err := os.ReadFile(rp)
		if err != nil {
			t.Fatalf("replay file: %v", err)
		}
		var rf ReplayFile
		if err := json.Unmarshal(b, &rf); err != nil {
			t.Fatalf("replay file: %v", err)
		}
		noteSeed(rf.Seed)
		var tape *Tape
		if rf.Tape == nil {
			tape = NewTape(rf.Seed)
		} else {
			tape = ReplayTape(rf.Tape)
		}
		res := execute(t, e, rf.Seed, rf.Property, rf.Tier, tape, nil, true)
		for _, l := range res.trace {
			fmt.Println("  |", l)
		}
		out.Runs = 1
		out.Replayed = res.viol
		out.Property = rf.Property
		write()
		return
	}

	start := time.Now()
	seed := uint64(envInt("VERIF_SEED_START", 1))
	stride := uint64(envInt("VERIF_SEED_STRIDE", 1))
	maxRuns := int(envInt("VERIF_MAX_RUNS", 1<<40))
	budget := time.Duration(envInt("VERIF_BUDGET_S", 10)) * time.Second
	digestMode := os.Getenv("VERIF_DIGEST") == "1"
	maxViol := int(envInt("VERIF_MAX_VIOLATIONS", 3))
	traces := map[uint64]struct{}{}
	nontriv := map[uint64]struct{}{}
	scheds := map[uint64]struct{}{}
	states := map[uint64]struct{}{}
	classes := map[string]bool{}
	var digest uint64 = 14695981039346656037
	out.SeedFirst = seed
	for out.Runs < maxRuns && time.Since(start) < budget {
		noteSeed(seed)
		keep := out.Runs < 3 && stride > 0 && (seed-out.SeedFirst)/stride < 3
		res := execute(t, e, seed, prop, tier, NewTape(seed), known, keep)
		out.Runs++
		out.SeedLast = seed
		out.Ops += res.ops
		out.SimSeconds += res.simDur.Seconds()
		for k, v := range res.faults {
			out.Faults[k] += v
		}
		for k, v := range res.probes {
			out.Probes[k] += v
		}
		for k, v := range res.known {
			out.Known[k] += v
		}
		if res.teardown != "" {
			out.Teardown++
		}
		traces[res.traceHash] = struct{}{}
		if res.nontriv {
			nontriv[res.traceHash] = struct{}{}
		}
		scheds[res.schedHash] = struct{}{}
		for h := range res.states {
			states[h] = struct{}{}
		}
		if digestMode {
			digest = mix(digest, hx(res.traceHash))
		}
		if keep && len(res.trace) > 0 {
			smp := res.trace
			if len(smp) > 40 {
				smp = append(append([]string{}, smp[:38]...), fmt.Sprintf("... (%d more lines)", len(res.trace)-38))
			}
			out.Samples = append(out.Samples, append([]string{fmt.Sprintf("seed %d", seed)}, smp...))
		}
		if res.viol != nil && digestMode {
			// determinism self-test: the violation is part of the digest, no shrinking
			digest = mix(digest, res.viol.Class()+"|"+res.viol.Sig)
		} else if res.viol != nil && !classes[res.viol.Class()+"|"+res.viol.Sig] {
			classes[res.viol.Class()+"|"+res.viol.Sig] = true
			path := reportViolation(t, e, seed, prop, tier, res, known)
			out.Violations = append(out.Violations, path)
			out.ViolClasses = append(out.ViolClasses, res.viol.Class()+" "+res.viol.Sig)
			write()
			if len(out.Violations) >= maxViol {
				break
			}
		}
		seed += stride
		if out.Runs%64 == 0 {
			runtime.GC()
		}
	}
	out.WallSeconds = time.Since(start).Seconds()
	// Above hashCap distinct hashes a worker reports only the 1/64 sample
	// (h&63==0); the driver then counts the union over that sample, which is a
	// lower bound of the true distinct count.
	const hashCap = 400000
	out.Sampled = len(traces) > hashCap
	emit := func(m map[uint64]struct{}) []string {
		var l []string
		for h := range m {
			if !out.Sampled || h&63 == 0 {
				l = append(l, hx(h))
			}
		}
		return l
	}
	out.DistinctLocal = [4]int{len(traces), len(nontriv), len(scheds), len(states)}
	out.TraceHashes = emit(traces)
	out.NontrivH = emit(nontriv)
	out.SchedHashes = emit(scheds)
	out.StateHashes = emit(states)
	sort.Strings(out.TraceHashes)
	sort.Strings(out.NontrivH)
	sort.Strings(out.SchedHashes)
	sort.Strings(out.StateHashes)
	if digestMode {
		out.TraceDigest = hx(digest)
	}
	write()
}

// reportViolation shrinks the failing tape and writes the replay file.
func reportViolation(t *testing.T, e *Engine, seed uint64, prop, tier string, res *runResult, known []KnownFinding) string {
	class := res.viol.Class()
	best := append([]uint32{}, res.tape...)
	bestRes := res
	execs := 0
	deadline := time.Now().Add(time.Duration(envInt("VERIF_SHRINK_S", 40)) * time.Second)
	maxExec := int(envInt("VERIF_SHRINK_EXECS", 1500))
	try := func(cand []uint32) bool {
		if execs >= maxExec || time.Now().After(deadline) {
			return false
		}
		if res.viol.Oracle == "deadlock" && execs >= 20 {
			return false // each deadlocked bubble leaks its goroutines
		}
		execs++
		r2 := execute(t, e, seed, prop, tier, ReplayTape(cand), known, true)
		if r2.viol != nil && r2.viol.Class() == class {
			best = append([]uint32{}, r2.tape...) // normalised: what was actually consumed
			bestRes = r2
			return true
		}
		return false
	}
	// first: replay as recorded (also gives us a kept trace)
	if !try(best) {
		// not reproducible from its own tape: report unshrunk, flagged
		bestRes = res
		bestRes.trace = append(bestRes.trace, "WARNING: violation did not reproduce from its recorded tape")
	} else {
		improved := true
		segTried, segOK := 0, 0
		for improved {
			improved = false
			// delete whole operations (segments between engine marks), last first
			for i := len(bestRes.marks) - 1; i >= 0 && i < len(bestRes.marks); i-- {
				lo := bestRes.marks[i]
				hi := len(best)
				if i+1 < len(bestRes.marks) {
					hi = bestRes.marks[i+1]
				}
				if lo >= hi || hi > len(best) {
					continue
				}
				cand := append(append([]uint32{}, best[:lo]...), best[hi:]...)
				segTried++
				if try(cand) {
					improved = true
					segOK++
				}
			}
			if os.Getenv("VERIF_SHRINK_DEBUG") != "" {
				fmt.Fprintf(os.Stderr, "shrink: segments tried %d ok %d, len now %d, marks %d, execs %d\n", segTried, segOK, len(best), len(bestRes.marks), execs)
			}
			// drop tail
			for n := len(best) / 2; n >= 1; n /= 2 {
				for len(best) > n && try(best[:len(best)-n]) {
					improved = true
				}
			}
			// delete chunks
			for _, sz := range []int{16, 8, 4, 2, 1} {
				for i := 0; i+sz <= len(best); {
					cand := append(append([]uint32{}, best[:i]...), best[i+sz:]...)
					if try(cand) {
						improved = true
					} else {
						i += sz
					}
				}
			}
			// zero, then halve / decrement values
			for i := 0; i < len(best); i++ {
				if best[i] == 0 {
					continue
				}
				cand := append([]uint32{}, best...)
				cand[i] = 0
				if try(cand) {
					improved = true
					continue
				}
				cand = append([]uint32{}, best...)
				cand[i] = best[i] / 2
				if cand[i] != best[i] && try(cand) {
					improved = true
					continue
				}
				cand = append([]uint32{}, best...)
				cand[i] = best[i] - 1
				if try(cand) {
					improved = true
				}
			}
			if execs >= maxExec || time.Now().After(deadline) {
				break
			}
		}
	}
	// strip trailing zeros (an exhausted tape yields 0 anyway)
	for len(best) > 0 && best[len(best)-1] == 0 {
		best = best[:len(best)-1]
	}
	rf := ReplayFile{Property: bestRes.viol.Property, Engine: e.Name, Seed: seed, Tier: tier,
		Oracle: bestRes.viol.Oracle, Sig: bestRes.viol.Sig, Message: bestRes.viol.Msg,
		Tape: best, OrigLen: len(res.tape), Shrinks: execs, Trace: bestRes.trace, Tree: os.Getenv("VERIF_TREE")}
	if rf.Tape == nil {
		rf.Tape = []uint32{}
	}
	dir := os.Getenv("VERIF_REPLAY_DIR")
	if dir == "" {
		dir = "."
	}
	os.MkdirAll(dir, 0o755)
	path := fmt.Sprintf("%s/%s-%s-%d.json", dir, rf.Property, strings.ReplaceAll(rf.Oracle, "/", "_"), seed)
	b, _ := json.MarshalIndent(rf, "", " ")
	os.WriteFile(path, b, 0o644)
	return path
}

// startWatchdog watches (in real time, outside any bubble) for a run that
// neither parks nor finishes: a spin. It dumps all goroutine stacks, records
// the seed and exits 3; the driver decides whether library code was spinning.
func startWatchdog(out *WorkerOut, write func()) {
	limit := time.Duration(envInt("VERIF_WATCHDOG_S", 90)) * time.Second
	go func() {
		last := Progress.Load()
		lastChange := time.Now()
		cpuAtChange := processCPU()
		for {
			time.Sleep(500 * time.Millisecond)
			cur := Progress.Load()
			if cur != last {
				last, lastChange, cpuAtChange = cur, time.Now(), processCPU()
				continue
			}
			if time.Since(lastChange) > limit {
				// A spin burns processor time. A process that has hardly run
				// since its last progress was held up from outside (a write to
				// a stalled disk, a frozen machine): that is not a finding and
				// not the harness's fault either; wait on, up to four limits.
				if processCPU()-cpuAtChange < limit/10 && time.Since(lastChange) < 4*limit {
					continue
				}
				buf := make([]byte, 1<<20)
				n := runtime.Stack(buf, true)
				out.Hang = string(buf[:n])
				out.HangSeed = curSeed
				write()
				fmt.Fprintf(os.Stderr, "WATCHDOG: no progress for %v at seed %d\n", limit, curSeed)
				os.Exit(3)
			}
		}
	}()
}

// processCPU is the processor time (user + system) this process has used.
func processCPU() time.Duration {
	var ru syscall.Rusage
	if syscall.Getrusage(syscall.RUSAGE_SELF, &ru) != nil {
		return 0
	}
	return time.Duration(ru.Utime.Nano() + ru.Stime.Nano())
}
