package sim

import (
	"fmt"
	"hash/fnv"
	"regexp"
	"sort"
	"sync"
	"time"
)

// Violation is one oracle failure. Class = Property + Oracle is what the
// shrinker preserves; Sig is a finer signature matched against
// KNOWN_FINDINGS.json.
type Violation struct {
	Property string `json:"property"`
	Oracle   string `json:"oracle"`
	Sig      string `json:"sig"`
	Msg      string `json:"message"`
}

func (v *Violation) Class() string { return v.Property + "/" + v.Oracle }

type abortRun struct{}

// KnownFinding is one entry of /verif/KNOWN_FINDINGS.json ("findings" list).
type KnownFinding struct {
	Property string `json:"property"`
	Oracle   string `json:"oracle"`
	SigRe    string `json:"sig_regex"`
	What     string `json:"what"`
	re       *regexp.Regexp
}

// Run is the state of one simulated execution.
type Run struct {
	Seed uint64
	Prop string // property whose oracles are in focus
	T    *Tape
	Tier string

	mu        sync.Mutex
	trace     []string
	traceHash uint64
	schedHash uint64
	stateSet  map[uint64]struct{}
	Faults    map[string]int
	Probes    map[string]int
	Ops       int
	Nontriv   bool
	viol      *Violation
	known     []KnownFinding
	KnownHits map[string]int
	start     time.Time
	SimDur    time.Duration
	keepTrace bool
	Sched     *Sched
	cleanup   []func()
	bodyDone  bool
}

const maxTrace = 4000

func newRun(seed uint64, prop, tier string, tape *Tape, known []KnownFinding, keepTrace bool) *Run {
	return &Run{Seed: seed, Prop: prop, Tier: tier, T: tape, known: known,
		Faults: map[string]int{}, Probes: map[string]int{}, KnownHits: map[string]int{},
		stateSet: map[uint64]struct{}{}, keepTrace: keepTrace,
		traceHash: 14695981039346656037, schedHash: 14695981039346656037}
}

func mix(h uint64, s string) uint64 {
	for i := 0; i < len(s); i++ {
		h ^= uint64(s[i])
		h *= 1099511628211
	}
	h ^= 0xff
	h *= 1099511628211
	return h
}

// Logf appends a line to the run's event log. It never draws from the tape
// and never reads a real clock.
func (r *Run) Logf(format string, a ...any) {
	s := fmt.Sprintf(format, a...)
	r.mu.Lock()
	r.traceHash = mix(r.traceHash, s)
	if r.keepTrace && len(r.trace) < maxTrace {
		r.trace = append(r.trace, s)
	}
	r.mu.Unlock()
}

// Now returns simulated time elapsed since the start of the run.
func (r *Run) Now() time.Duration { return time.Since(r.start) }

func (r *Run) Fault(kind string) {
	r.mu.Lock()
	r.Faults[kind]++
	r.mu.Unlock()
}

func (r *Run) Probe(name string) {
	r.mu.Lock()
	r.Probes[name]++
	r.mu.Unlock()
}

func (r *Run) Op() {
	r.mu.Lock()
	r.Ops++
	r.mu.Unlock()
}

// State records an abstract state reached (for the distinct-states measure).
func (r *Run) State(s string) {
	h := fnv.New64a()
	h.Write([]byte(s))
	r.mu.Lock()
	r.stateSet[h.Sum64()] = struct{}{}
	r.mu.Unlock()
}

func (r *Run) noteSched(task, yield string) {
	r.mu.Lock()
	r.schedHash = mix(mix(r.schedHash, task), yield)
	r.mu.Unlock()
}

// NoteSched lets an engine whose schedule is decided by its own seeded event
// loop (rather than by Sched) contribute its decisions to the
// distinct-schedules measure.
func (r *Run) NoteSched(actor, decision string) { r.noteSched(actor, decision) }

// Defer registers a teardown function run (in reverse order) when the run's
// body ends, still inside the bubble.
func (r *Run) Defer(f func()) { r.cleanup = append(r.cleanup, f) }

// Failed reports whether a (non-known) violation has been recorded.
func (r *Run) Failed() bool {
	r.mu.Lock()
	defer r.mu.Unlock()
	return r.viol != nil
}

// Violate records an oracle failure for property prop. If it matches a known
// finding it is counted and the run continues; otherwise the first violation
// is kept and the calling goroutine's run body is aborted (panic recovered by
// the runner / task wrapper).
func (r *Run) Violate(prop, oracle, sig, format string, a ...any) {
	msg := fmt.Sprintf(format, a...)
	if prop != r.Prop && r.Prop != "" {
		// a check reports only its own property; the other property's check
		// runs the same engine with that property in focus
		r.Probe("other_property_oracle_tripped_" + prop + "/" + oracle)
		return
	}
	r.mu.Lock()
	for i := range r.known {
		k := &r.known[i]
		if k.Property == prop && k.Oracle == oracle && k.re.MatchString(sig) {
			r.KnownHits[prop+" "+k.What]++
			r.mu.Unlock()
			r.Logf("KNOWN-FINDING %s/%s %s: %s", prop, oracle, sig, msg)
			return
		}
	}
	if r.viol == nil {
		r.viol = &Violation{Property: prop, Oracle: oracle, Sig: sig, Msg: msg}
	}
	r.mu.Unlock()
	r.Logf("VIOLATION %s/%s %s: %s", prop, oracle, sig, msg)
	panic(abortRun{})
}

// Check is shorthand: Violate unless ok.
func (r *Run) Check(ok bool, prop, oracle, sig, format string, a ...any) {
	if !ok {
		r.Violate(prop, oracle, sig, format, a...)
	}
}

// Focus reports whether property p is served by this run (engines that serve
// several properties evaluate all sound oracles regardless, but weight the
// workload by the focus).
func (r *Run) Focus(p string) bool { return r.Prop == p }

func sortedKeys(m map[string]int) []string {
	ks := make([]string, 0, len(m))
	for k := range m {
		ks = append(ks, k)
	}
	sort.Strings(ks)
	return ks
}
