// Package sim is the deterministic-simulation core shared by every engine:
// one choice tape seeded from VERIF_SEED decides every choice of a run
// (workload, schedule, faults, map-order salt), runs execute inside a
// testing/synctest bubble (fake clock), and a token-passing scheduler decides
// which parked task proceeds.
package sim

// Tape is the single source of choices of one simulated run. In generation
// mode values come from a splitmix64 stream seeded by the run seed and are
// recorded (already reduced mod n). In replay mode values are read back from a
// recorded tape; a value out of range is reduced mod n and an exhausted tape
// yields 0, which is what makes shrinking possible.
type Tape struct {
	state  uint64
	replay bool
	in     []uint32
	pos    int
	Rec    []uint32
	// Marks are positions in Rec at which an engine-level operation starts
	// (Mark()); the shrinker tries to delete whole operations first.
	Marks []int
}

// Mark notes that an operation (a step of the workload) starts here.
func (t *Tape) Mark() { t.Marks = append(t.Marks, len(t.Rec)) }

func NewTape(seed uint64) *Tape {
	// scramble the seed first: with a plain affine start the stream of seed
	// s+k would be the stream of seed s shifted by k draws
	z := seed + 0x9E3779B97F4A7C15
	z = (z ^ (z >> 30)) * 0xBF58476D1CE4E5B9
	z = (z ^ (z >> 27)) * 0x94D049BB133111EB
	return &Tape{state: z ^ (z >> 31)}
}

func ReplayTape(vals []uint32) *Tape {
	return &Tape{replay: true, in: vals}
}

func (t *Tape) next64() uint64 {
	t.state += 0x9E3779B97F4A7C15
	z := t.state
	z = (z ^ (z >> 30)) * 0xBF58476D1CE4E5B9
	z = (z ^ (z >> 27)) * 0x94D049BB133111EB
	return z ^ (z >> 31)
}

// Intn returns a value in [0,n). n<=1 draws nothing and returns 0.
func (t *Tape) Intn(n int) int {
	if n <= 1 {
		return 0
	}
	var v uint32
	if t.replay {
		if t.pos < len(t.in) {
			v = t.in[t.pos] % uint32(n)
		}
		t.pos++
	} else {
		v = uint32(t.next64()>>33) % uint32(n)
	}
	t.Rec = append(t.Rec, v)
	return int(v)
}

// Range returns a value in [lo,hi].
func (t *Tape) Range(lo, hi int) int {
	if hi <= lo {
		return lo
	}
	return lo + t.Intn(hi-lo+1)
}

// Chance is true with probability permille/1000. 0 is "false" so that a
// zeroed tape takes the no-fault path.
func (t *Tape) Chance(permille int) bool {
	if permille <= 0 {
		return false
	}
	if permille >= 1000 {
		return true
	}
	return t.Intn(1000) >= 1000-permille
}

func (t *Tape) Bool() bool { return t.Intn(2) == 1 }

// Uint64 draws a 64-bit value (used for key seeds and salts).
func (t *Tape) Uint64() uint64 {
	return uint64(t.Intn(1<<31))<<31 | uint64(t.Intn(1<<31))
}

// Bytes draws n bytes.
func (t *Tape) Bytes(n int) []byte {
	b := make([]byte, n)
	for i := 0; i < n; i += 2 {
		v := t.Intn(1 << 16)
		b[i] = byte(v)
		if i+1 < n {
			b[i+1] = byte(v >> 8)
		}
	}
	return b
}

// Pick returns an index weighted by w.
func (t *Tape) Weighted(w []int) int {
	tot := 0
	for _, x := range w {
		tot += x
	}
	if tot <= 0 {
		return 0
	}
	v := t.Intn(tot)
	for i, x := range w {
		if v < x {
			return i
		}
		v -= x
	}
	return len(w) - 1
}

// Perm returns a permutation of 0..n-1 (identity on a zeroed tape).
func (t *Tape) Perm(n int) []int {
	p := make([]int, n)
	for i := range p {
		p[i] = i
	}
	for i := 0; i < n-1; i++ {
		j := i + t.Intn(n-i)
		p[i], p[j] = p[j], p[i]
	}
	return p
}

func Pick[T any](t *Tape, xs []T) T {
	return xs[t.Intn(len(xs))]
}

func Shuffle[T any](t *Tape, xs []T) []T {
	out := make([]T, len(xs))
	for i, j := range t.Perm(len(xs)) {
		out[i] = xs[j]
	}
	return out
}
