package sim

import (
	"context"
	"runtime"
	"sort"
	"sync"
	"sync/atomic"
	"testing/synctest"
	"time"
)

// Sched is the token-passing scheduler. Tasks (goroutines started with Go, and
// library-spawned goroutines that enter a sim stub) park at yield points; the
// run's main goroutine waits for the bubble to be quiescent, sorts the parked
// tasks by label, lets the tape choose one and releases it. Exactly one task
// runs between two decisions.
type Sched struct {
	r        *Run
	mu       sync.Mutex
	parked   []*waiter
	live     int
	sleepers int
	wake     chan struct{}
	draining bool
	Native   bool // pass-through (race audit): no parking, real scheduling
	Steps    int
	MaxSteps int
	// AfterStep, if set, runs on the main goroutine each time the bubble is
	// quiescent (every task parked or blocked): the place for invariants.
	AfterStep func()
	wg        sync.WaitGroup
	// goroutine id -> task name, for yield points that carry no context
	// (lock boundaries)
	byGoID map[uint64]string
	// Urgent names tasks (timer callbacks) that may be interleaved with other
	// runnable tasks but must run before simulated time advances.
	Urgent map[string]bool
}

func goID() uint64 {
	var buf [64]byte
	n := runtime.Stack(buf[:], false)
	var id uint64
	for _, c := range buf[len("goroutine "):n] {
		if c < '0' || c > '9' {
			break
		}
		id = id*10 + uint64(c-'0')
	}
	return id
}

// CurrentTask returns the name of the task started with Go that is running
// on the calling goroutine, or "" for any other goroutine.
func (s *Sched) CurrentTask() string {
	g := goID()
	s.mu.Lock()
	defer s.mu.Unlock()
	return s.byGoID[g]
}

type waiter struct {
	key string
	tk  string
	lb  string
	ch  chan struct{}
}

// Progress is bumped at every scheduler decision and run start; the watchdog
// (outside the bubble, real time) watches it.
var Progress atomic.Int64

// NewSched must be called inside the bubble.
func NewSched(r *Run) *Sched {
	s := &Sched{r: r, wake: make(chan struct{}, 1), MaxSteps: 5000, Native: NativeMode}
	r.Sched = s
	return s
}

type taskKey struct{}

// WithTask tags a context with the name of the calling task so stubs reached
// from library-spawned goroutines can label their yield deterministically.
func WithTask(ctx context.Context, name string) context.Context {
	return context.WithValue(ctx, taskKey{}, name)
}

func TaskName(ctx context.Context) string {
	if ctx == nil {
		return "?"
	}
	if v, ok := ctx.Value(taskKey{}).(string); ok {
		return v
	}
	return "?"
}

func (s *Sched) signal() {
	select {
	case s.wake <- struct{}{}:
	default:
	}
}

// Go starts a task. It parks at "start" before running fn.
func (s *Sched) Go(name string, fn func()) {
	s.mu.Lock()
	s.live++
	s.mu.Unlock()
	s.wg.Add(1)
	go func() {
		g := goID()
		s.mu.Lock()
		if s.byGoID == nil {
			s.byGoID = map[uint64]string{}
		}
		s.byGoID[g] = name
		s.mu.Unlock()
		defer s.wg.Done()
		defer func() {
			if p := recover(); p != nil {
				if _, ok := p.(abortRun); !ok {
					s.r.notePanic(p)
				}
				s.Drain()
			}
			s.mu.Lock()
			s.live--
			s.mu.Unlock()
			s.signal()
		}()
		s.Yield(name, "start")
		fn()
	}()
}

// Yield parks the calling goroutine until the scheduler picks it. task+label
// must identify the yield uniquely among concurrently parked goroutines.
func (s *Sched) Yield(task, label string) {
	if s == nil || s.Native {
		return
	}
	s.mu.Lock()
	if s.draining {
		s.mu.Unlock()
		return
	}
	w := &waiter{key: task + "\x00" + label, tk: task, lb: label, ch: make(chan struct{})}
	s.parked = append(s.parked, w)
	s.mu.Unlock()
	s.signal()
	<-w.ch
}

// Sleep blocks the calling task for d of simulated time (or until ctx is
// done) and then re-enters the scheduler, so that goroutines woken at the same
// fake instant are serialised again. While at least one task sleeps, "let
// simulated time pass" is one of the scheduler's choices.
func (s *Sched) Sleep(ctx context.Context, task, label string, d time.Duration) error {
	if d <= 0 {
		return nil
	}
	if s == nil || s.Native {
		time.Sleep(d)
		return nil
	}
	s.mu.Lock()
	s.sleepers++
	s.mu.Unlock()
	tm := time.NewTimer(d)
	var err error
	var done <-chan struct{}
	if ctx != nil {
		done = ctx.Done()
	}
	select {
	case <-tm.C:
	case <-done:
		err = ctx.Err()
		tm.Stop()
	}
	s.mu.Lock()
	s.sleepers--
	s.mu.Unlock()
	if err != nil {
		s.Yield(task, label+"/ctxdone")
	} else {
		s.Yield(task, label+"/woke")
	}
	return err
}

// Drain releases every parked goroutine and turns further yields into no-ops
// (used after a violation, at the step cap and at the end of a run).
func (s *Sched) Drain() {
	s.mu.Lock()
	s.draining = true
	ps := s.parked
	s.parked = nil
	s.mu.Unlock()
	for _, w := range ps {
		close(w.ch)
	}
}

// RunAll drives the tasks until all started tasks have finished. Must be
// called from the run's main goroutine.
func (s *Sched) RunAll() {
	if s.Native {
		s.wg.Wait()
		return
	}
	for {
		synctest.Wait()
		Progress.Add(1)
		if s.AfterStep != nil && !s.r.Failed() {
			s.AfterStep()
		}
		s.mu.Lock()
		if s.live == 0 && len(s.parked) == 0 {
			s.mu.Unlock()
			break
		}
		if s.draining {
			s.mu.Unlock()
			s.wg.Wait()
			break
		}
		if len(s.parked) == 0 {
			// Everything is blocked on timers or library channels: block too
			// so the fake clock can advance (a bubble with no timer left is a
			// deadlock and synctest panics, which the runner reports).
			s.mu.Unlock()
			<-s.wake
			continue
		}
		sort.Slice(s.parked, func(i, j int) bool { return s.parked[i].key < s.parked[j].key })
		for i := 1; i < len(s.parked); i++ {
			if s.parked[i].key == s.parked[i-1].key {
				s.r.Probe("sched_duplicate_label")
			}
		}
		s.Steps++
		if s.Steps > s.MaxSteps {
			s.mu.Unlock()
			s.r.Probe("step_cap")
			s.Drain()
			s.wg.Wait()
			break
		}
		opts := len(s.parked)
		urgent := false
		for _, w := range s.parked {
			if s.Urgent[w.tk] {
				urgent = true
			}
		}
		// simulated time does not pass while a timer callback waits to run
		if s.sleepers > 0 && !urgent {
			opts++
		}
		i := s.r.T.Intn(opts)
		if i == len(s.parked) {
			// let simulated time pass until a sleeper (or a library timer
			// whose firing makes somebody park) wakes up
			s.mu.Unlock()
			s.r.noteSched("clock", "advance")
			s.r.Logf("sched clock advance (of %d)", opts)
			select {
			case <-s.wake:
			default:
			}
			<-s.wake
			continue
		}
		w := s.parked[i]
		s.parked = append(s.parked[:i], s.parked[i+1:]...)
		n := len(s.parked) + 1
		s.mu.Unlock()
		if n > 1 {
			s.r.Probe("sched_choice_points")
		}
		s.r.noteSched(w.tk, w.lb)
		s.r.Logf("sched %s @%s (of %d)", w.tk, w.lb, n)
		close(w.ch)
	}
}

// Parked returns the number of currently parked goroutines (invariants).
func (s *Sched) Parked() int {
	s.mu.Lock()
	defer s.mu.Unlock()
	return len(s.parked)
}
