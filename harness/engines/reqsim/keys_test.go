package reqsim

import (
	"context"
	"crypto/ed25519"
	"encoding/json"
	"errors"
	"time"

	gmsl "github.com/matrix-org/gomatrixserverlib"
	"github.com/matrix-org/gomatrixserverlib/spec"

	"verifharness/world"
)

type pair = gmsl.PublicKeyLookupRequest
type entry = gmsl.PublicKeyLookupResult

// published maps what server s would answer on /_matrix/key/v2/server at
// instant now to key-ring entries: current keys carry valid_until_ts, old
// keys carry expired_ts.
func published(s *world.Server, now time.Time) map[pair]entry {
	out := map[pair]entry{}
	resp := s.KeyResponse(now)
	for _, k := range s.Keys {
		if vk, ok := resp.VerifyKeys[k.ID]; ok {
			out[pair{ServerName: s.Name, KeyID: k.ID}] = entry{VerifyKey: vk, ExpiredTS: gmsl.PublicKeyNotExpired, ValidUntilTS: resp.ValidUntilTS}
		} else if ok2, has := resp.OldVerifyKeys[k.ID]; has {
			out[pair{ServerName: s.Name, KeyID: k.ID}] = entry{VerifyKey: ok2.VerifyKey, ExpiredTS: ok2.ExpiredTS, ValidUntilTS: gmsl.PublicKeyNotValid}
		}
	}
	return out
}

var errDB = errors.New("sim: key database unavailable")
var errFetch = errors.New("sim: key server unreachable")

// memDB is D's key cache.
type memDB struct {
	m        map[pair]entry
	fetchErr bool
	storeErr bool
	fetches  int
	stores   int
}

func (d *memDB) FetcherName() string { return "memDB" }

func (d *memDB) FetchKeys(ctx context.Context, reqs map[pair]spec.Timestamp) (map[pair]entry, error) {
	d.fetches++
	if d.fetchErr {
		return nil, errDB
	}
	out := map[pair]entry{}
	for p := range reqs {
		if e, ok := d.m[p]; ok {
			out[p] = e
		}
	}
	return out, nil
}

func (d *memDB) StoreKeys(ctx context.Context, res map[pair]entry) error {
	d.stores++
	if d.storeErr {
		return errDB
	}
	for p, e := range res {
		d.m[p] = e
	}
	return nil
}

const (
	fetchUp    = 0
	fetchError = 1
	fetchEmpty = 2
)

// ledgerFetcher is the only KeyFetcher of D's key ring: it answers with what
// the named servers publish at the current simulated instant.
type ledgerFetcher struct {
	L     *world.Ledger
	mode  int
	calls int
}

func (f *ledgerFetcher) FetcherName() string { return "ledgerFetcher" }

func (f *ledgerFetcher) FetchKeys(ctx context.Context, reqs map[pair]spec.Timestamp) (map[pair]entry, error) {
	f.calls++
	switch f.mode {
	case fetchError:
		return nil, errFetch
	case fetchEmpty:
		return map[pair]entry{}, nil
	}
	out := map[pair]entry{}
	now := time.Now()
	for p := range reqs {
		s := f.L.Servers[p.ServerName]
		if s == nil {
			continue
		}
		if _, done := out[p]; done {
			continue
		}
		for q, e := range published(s, now) {
			out[q] = e
		}
	}
	return out, nil
}

const sevenDays = 7 * 24 * time.Hour

// strictLimit is the lesser of valid_until_ts and seven days after the
// verifier's clock (the strict validity rule).
func strictLimit(e entry, clock time.Time) spec.Timestamp {
	lim := e.ValidUntilTS
	if cap := spec.AsTimestamp(clock.Add(sevenDays)); cap < lim {
		lim = cap
	}
	return lim
}

// possiblyValid: an entry under which a signature at ts could be accepted.
func possiblyValid(e entry, ts spec.Timestamp, clock time.Time) bool {
	if e.ExpiredTS != gmsl.PublicKeyNotExpired {
		return ts < e.ExpiredTS
	}
	return ts <= strictLimit(e, clock)
}

// clearlyValid: an unexpired entry whose validity extends strictly beyond ts.
func clearlyValid(e entry, ts spec.Timestamp, clock time.Time) bool {
	return e.ExpiredTS == gmsl.PublicKeyNotExpired && ts < strictLimit(e, clock)
}

// truthValid: per the ledger the key existed and was not yet expired at t.
func truthValid(k *world.Key, t time.Time) bool {
	if k == nil || k.From.After(t) {
		return false
	}
	return k.Current() || t.Before(k.ExpiredAt)
}

// truthExpired: per the ledger the key is unknown or was expired at t.
func truthExpired(k *world.Key, t time.Time) bool {
	return k == nil || (!k.Current() && !t.Before(k.ExpiredAt))
}

// ---- the library's own fetchers over a simulated key client -------------------------

// ringClient is the KeyClient behind the real DirectKeyFetcher /
// PerspectiveKeyFetcher some runs give D's key ring instead of ledgerFetcher.
// It answers with what the servers publish now; as a notary it may first hand
// out the response it had cached from before the server's last rotation and
// then the current one (a notary serves what it has), each countersigned.
type ringClient struct {
	f      *ledgerFetcher // mode and call counter are shared with the stub fetcher
	notary *world.Server
	stale  bool
	probe  func(string)
}

func (c *ringClient) GetServerKeys(ctx context.Context, name spec.ServerName) (gmsl.ServerKeys, error) {
	c.f.calls++
	s := c.f.L.Servers[name]
	if c.f.mode == fetchError || s == nil {
		return gmsl.ServerKeys{}, errFetch
	}
	if c.f.mode == fetchEmpty {
		return gmsl.ServerKeys{}, errors.New("sim: key server answered 404")
	}
	return s.KeyResponse(time.Now()), nil
}

func countersign(n *world.Server, sk gmsl.ServerKeys) gmsl.ServerKeys {
	k := n.Current()
	raw, err := gmsl.SignJSON(string(n.Name), k.ID, k.Priv, sk.Raw)
	if err != nil {
		panic(err)
	}
	var out gmsl.ServerKeys
	if err := json.Unmarshal(raw, &out); err != nil {
		panic(err)
	}
	return out
}

func (c *ringClient) LookupServerKeys(ctx context.Context, via spec.ServerName, reqs map[pair]spec.Timestamp) ([]gmsl.ServerKeys, error) {
	c.f.calls++
	switch c.f.mode {
	case fetchError:
		return nil, errFetch
	case fetchEmpty:
		return nil, nil
	}
	now := time.Now()
	seen := map[spec.ServerName]bool{}
	var out []gmsl.ServerKeys
	for p := range reqs {
		s := c.f.L.Servers[p.ServerName]
		if s == nil || seen[p.ServerName] {
			continue
		}
		seen[p.ServerName] = true
		if c.stale {
			// the last rotation, if any: the notary still has the response
			// from just before it
			var last time.Time
			for _, k := range s.Keys {
				if !k.Current() && k.ExpiredAt.After(last) && !k.ExpiredAt.After(now) {
					last = k.ExpiredAt
				}
			}
			if !last.IsZero() {
				out = append(out, countersign(c.notary, s.KeyResponse(last.Add(-time.Second))))
				c.probe("notary_serves_pre_rotation_response_first")
			}
		}
		out = append(out, countersign(c.notary, s.KeyResponse(now)))
	}
	return out, nil
}

// realFetcher builds one of the library's fetchers over ringClient.
func realFetcher(f *ledgerFetcher, notary *world.Server, perspective, stale bool, probe func(string)) gmsl.KeyFetcher {
	c := &ringClient{f: f, notary: notary, stale: stale, probe: probe}
	if perspective {
		k := notary.Current()
		return &gmsl.PerspectiveKeyFetcher{PerspectiveServerName: notary.Name, PerspectiveServerKeys: map[gmsl.KeyID]ed25519.PublicKey{k.ID: k.Pub}, Client: c}
	}
	return &gmsl.DirectKeyFetcher{Client: c, IsLocalServerName: func(spec.ServerName) bool { return false }}
}
