// reqsim: one signed federation request between two simulated parties, with
// transit tampering and receipt-time key validity. Property C13.
//
// Origin O builds a request with the real NewFederationRequest / SetContent /
// Sign / HTTPRequest path (directly, through the real federation client's
// DoRequestAndParseResponse, or through one of the client's API methods) and
// hands it to a simulated transport (fclient.WithTransport). The transport
// holds the request for a tape-chosen latency of simulated time during which
// O may rotate its key, applies tape-chosen transit transformations and
// delivers the *http.Request (as the client's own object, or re-parsed from
// its HTTP/1.1 serialisation) to destination D, which runs the real
// VerifyHTTPRequest over a real KeyRing (in-memory KeyDatabase, one KeyFetcher
// answering from the ledger) or over the ledger verifier.
package reqsim

import (
	"bytes"
	"context"
	"encoding/json"
	"errors"
	"fmt"
	"io"
	"net/http"
	"strings"
	"testing"
	"time"

	"github.com/matrix-org/gomatrix"
	gmsl "github.com/matrix-org/gomatrixserverlib"
	"github.com/matrix-org/gomatrixserverlib/fclient"
	"github.com/matrix-org/gomatrixserverlib/spec"
	"github.com/matrix-org/gomatrixserverlib/verifrt"
	"github.com/sirupsen/logrus"

	"verifharness/sim"
	"verifharness/world"
)

const P = "C13"

// signedEntry is O's ledger entry for the request: what O signed.
type signedEntry struct {
	method         string
	uri            string
	origin, dest   string
	hasBody        bool
	body           []byte
	keyIDs         []gmsl.KeyID
	at             time.Duration
	uriFromCapture bool
}

const (
	sendDirect = 0 // FederationRequest.HTTPRequest() handed to the transport
	sendClient = 1 // the same request through federationClient.DoRequestAndParseResponse
	sendAPI    = 2 // a federationClient API method builds, signs and sends

	vRing   = 0
	vLedger = 1

	sfNone          = 0
	sfForeignDest   = 1
	sfInvalidOrigin = 2
	sfExpiredKey    = 3
	sfNonUTF8Body   = 4 // O signs and sends a JSON body that is not UTF-8
	sfOverlongName  = 5 // O's DNS name has 256 characters (grammar: 1*255); recorded, not judged
	sfOddKeyID      = 6 // O's key IDs are outside the key-ID grammar (quote, backslash, comma, ...): the sender may refuse, the receiver may refuse; recorded, not judged, but whatever is accepted must be what was signed
)

var oddKeyIDs = []string{"ed25519:a\"b", "ed25519:a\\b", "ed25519:k,1", "ed25519:k 1", "ed25519:k=1", "ed25519:\tk", "ed25519:\u00e9", "ed25519:a\",origin=\"third.example\",key=\"ed25519:k1", "ed25519:\x7f", "ed25519:"}

var senderNames = []string{"direct", "client", "client_api"}

type delivery struct {
	n         int
	marks     []mark
	code      int
	fr        *fclient.FederationRequest
	httpLayer bool
	keyAccept bool
	keyRefuse bool
	keyNote   string
}

type sce struct {
	r *sim.Run
	t *sim.Tape

	senderMode int
	wire       bool
	callback   bool
	vmode      int
	realFet    gmsl.KeyFetcher // the library's own Direct / Perspective fetcher instead of the stub
	senderMark *mark

	L       *world.Ledger
	O, X    *world.Server
	dNames  []string
	foreign string
	third   string
	nextKey func() gmsl.KeyID

	db  *memDB
	fet *ledgerFetcher
	ver *world.Verifier

	skew       time.Duration // D's `now` argument minus D's clock
	signed     signedEntry
	cbCalls    int
	deliveries []*delivery
	envEvents  []string
}

func (s *sce) owns(n spec.ServerName) bool {
	for _, d := range s.dNames {
		if d == string(n) {
			return true
		}
	}
	return false
}

func (s *sce) verifier() gmsl.JSONVerifier {
	if s.vmode == vLedger {
		return s.ver
	}
	if s.realFet != nil {
		return &gmsl.KeyRing{KeyFetchers: []gmsl.KeyFetcher{s.realFet}, KeyDatabase: s.db}
	}
	return &gmsl.KeyRing{KeyFetchers: []gmsl.KeyFetcher{s.fet}, KeyDatabase: s.db}
}

var dayMS = 24 * time.Hour

var historyGaps = []time.Duration{time.Hour, 10 * dayMS, time.Second, 400 * dayMS}
var validFors = []time.Duration{24 * time.Hour, time.Hour, 7 * dayMS, 30 * dayMS, time.Second, -time.Hour, 365 * dayMS, time.Minute}
var gaps = []time.Duration{0, time.Second, 30 * time.Minute, 2 * time.Hour, 25 * time.Hour, 59 * time.Minute}
var latencies = []time.Duration{0, time.Millisecond, 20 * time.Millisecond, 500 * time.Millisecond, 3 * time.Second, time.Minute,
	time.Hour, dayMS - time.Second, dayMS, dayMS + time.Second, 6 * dayMS, 7 * dayMS, 7*dayMS + time.Second, 8 * dayMS, 31 * dayMS,
	time.Hour - time.Second, time.Hour + time.Second, 59 * time.Second, 61 * time.Second}

func body(r *sim.Run) {
	t := r.T
	s := &sce{r: r, t: t}

	// ---- swarm configuration (0 = simplest) --------------------------------
	s.senderMode = t.Weighted([]int{4, 4, 2})
	s.wire = t.Bool()
	s.callback = t.Bool()
	s.vmode = t.Weighted([]int{7, 3})
	senderFault := t.Weighted([]int{48, 3, 3, 3, 3, 1, 2})
	if senderFault == sfNonUTF8Body && s.senderMode == sendAPI {
		s.senderMode = sendClient
	}
	verifrt.SetSalt(uint64(t.Intn(4)))

	idx := pickDistinct(t, len(validNames), 6)
	oName := validNames[idx[0]]
	if senderFault == sfInvalidOrigin {
		oName = sim.Pick(t, invalidNames)
	}
	if senderFault == sfOverlongName {
		oName = strings.Repeat("a", 252) + ".org"
	}
	nD := 1
	if s.callback {
		nD = t.Range(1, 3)
	}
	for i := 0; i < nD; i++ {
		s.dNames = append(s.dNames, validNames[idx[1+i]])
	}
	s.foreign = validNames[idx[4]]
	s.third = validNames[idx[5]]

	// ---- O's key history ---------------------------------------------------
	base := t.Intn(len(keyIDPool))
	s.nextKey = func() gmsl.KeyID {
		id := gmsl.KeyID(keyIDPool[base%len(keyIDPool)])
		if senderFault == sfOddKeyID {
			id = gmsl.KeyID(oddKeyIDs[base%len(oddKeyIDs)])
		}
		base++
		return id
	}
	s.L = world.NewLedger()
	s.O = world.NewServer(t, oName, time.Now())
	s.O.Keys[0].ID = s.nextKey()
	var oldKey *world.Key
	if senderFault == sfExpiredKey || t.Chance(200) {
		oldKey = s.O.Keys[0]
		time.Sleep(sim.Pick(t, historyGaps))
		s.O.Rotate(t, time.Now()).ID = s.nextKey()
		s.envEvents = append(s.envEvents, "history_rotation")
	}
	if t.Chance(350) {
		s.O.AddKey(t, time.Now()).ID = s.nextKey()
	}
	s.O.ValidFor = sim.Pick(t, validFors)
	s.L.Add(s.O)

	var current []*world.Key
	for _, k := range s.O.Keys {
		if k.Current() {
			current = append(current, k)
		}
	}
	var signers []*world.Key
	switch {
	case senderFault == sfExpiredKey:
		signers = []*world.Key{oldKey}
	case len(current) >= 2 && s.senderMode != sendAPI && t.Chance(300):
		signers = current
	case oldKey != nil && s.senderMode != sendAPI && t.Chance(350):
		// signed with a retired key and a current one (two X-Matrix headers,
		// in either order): one valid signature is enough
		signers = []*world.Key{oldKey, sim.Pick(t, current)}
		if t.Bool() {
			signers[0], signers[1] = signers[1], signers[0]
		}
		r.Probe("signed_with_retired_and_current_key")
	default:
		signers = []*world.Key{sim.Pick(t, current)}
	}
	// the third party publishes keys under the same ids (other key material)
	s.X = world.NewServer(t, s.third, time.Now())
	s.X.Keys[0].ID = signers[0].ID
	if len(signers) > 1 {
		s.X.AddKey(t, time.Now()).ID = signers[1].ID
	}
	s.L.Add(s.X)

	// ---- D's verifier -------------------------------------------------------
	s.db = &memDB{m: map[pair]entry{}}
	s.fet = &ledgerFetcher{L: s.L}
	s.ver = &world.Verifier{L: s.L}
	vdesc := "ledger"
	if s.vmode == vRing {
		if t.Chance(40) {
			// O's key response carries no valid_until_ts: its current keys
			// have no validity period, so nothing they signed may be accepted
			s.O.OmitValidUntil = true
			r.Fault("key_without_validity_period")
		}
		seeded := t.Weighted([]int{5, 4}) == 1
		if seeded {
			for p, e := range published(s.O, time.Now()) {
				s.db.m[p] = e
			}
		}
		s.fet.mode = t.Weighted([]int{8, 1, 1})
		if t.Chance(350) {
			// D's key ring fetches with the library's own fetchers: directly
			// from O, or through a notary that may still serve the response
			// it cached before O's last rotation, followed by the current one
			notary := world.NewCompactServer(t, "notary.example", time.Now())
			persp := t.Bool()
			s.realFet = realFetcher(s.fet, notary, persp, persp && t.Bool(), r.Probe)
			r.Probe(map[bool]string{true: "keyring_perspective_fetcher", false: "keyring_direct_fetcher"}[persp])
		}
		s.db.fetchErr = t.Chance(15)
		s.db.storeErr = t.Chance(15)
		vdesc = fmt.Sprintf("ring(db_seeded=%v fetcher=%d dbFetchErr=%v dbStoreErr=%v)", seeded, s.fet.mode, s.db.fetchErr, s.db.storeErr)
	} else if t.Chance(30) {
		s.ver.Fail = errors.New("sim: verifier unavailable")
		vdesc = "ledger(failing)"
	}
	s.skew = []time.Duration{0, 8 * dayMS, 6 * dayMS, -time.Hour}[t.Weighted([]int{14, 1, 1, 1})]
	if s.skew != 0 {
		vdesc += fmt.Sprintf(" now_argument_skew=%v", s.skew)
	}
	time.Sleep(sim.Pick(t, gaps))

	// ---- the request ---------------------------------------------------------
	sg := &s.signed
	sg.origin = oName
	sg.dest = sim.Pick(t, s.dNames)
	switch senderFault {
	case sfForeignDest:
		sg.dest = s.foreign
		s.senderMark = &mark{class: fault, kind: "foreign_destination_signed", oracle: "refuse_foreign_destination", codes: []int{400}}
	case sfInvalidOrigin:
		s.senderMark = &mark{class: fault, kind: "invalid_origin_signed", oracle: "refuse_invalid_origin", codes: []int{400}}
	case sfExpiredKey:
		// no unconditional mark: whether this must be refused follows from the
		// key model at the receipt time D states (keyExpectation)
		s.envEvents = append(s.envEvents, "signed_with_expired_key")
		r.Fault("signed_with_expired_key")
	case sfOverlongName:
		s.senderMark = &mark{class: neutral, kind: "origin_dns_name_over_255"}
	case sfOddKeyID:
		s.senderMark = &mark{class: neutral, kind: "key_id_outside_grammar"}
	case sfNonUTF8Body:
		s.senderMark = &mark{class: fault, kind: "non_utf8_body_signed", oracle: "refuse_body_format", codes: []int{400}}
	}
	for _, k := range signers {
		sg.keyIDs = append(sg.keyIDs, k.ID)
	}
	sg.at = r.Now()
	keyDesc := make([]string, 0, len(s.O.Keys))
	for _, k := range s.O.Keys {
		keyDesc = append(keyDesc, fmt.Sprintf("%s(current=%v)", k.ID, k.Current()))
	}
	r.Logf("t=%v world: O=%q keys=%v validFor=%v D=%q callback=%v foreign=%q third=%q verifier=%s sender=%s wire=%v",
		r.Now(), oName, keyDesc, s.O.ValidFor, s.dNames, s.callback, s.foreign, s.third, vdesc, senderNames[s.senderMode], s.wire)

	if len(signers) > 1 {
		r.Probe("double_signed_request")
	}
	if sg.dest != s.dNames[0] && senderFault != sfForeignDest {
		r.Probe("signed_for_secondary_local_name")
	}
	r.Probe([]string{"delivery_object", "delivery_wire"}[map[bool]int{false: 0, true: 1}[s.wire]])
	r.Probe([]string{"verifier_keyring", "verifier_ledger"}[s.vmode])
	r.Probe("sender_" + senderNames[s.senderMode])
	ctx := context.Background()
	if s.senderMode == sendAPI {
		s.sendViaAPI(ctx, signers[0])
	} else {
		methodArg := sim.Pick(t, methodPool)
		sg.method = methodArg
		if t.Chance(150) {
			methodArg = strings.ToLower(methodArg) // NewFederationRequest upper-cases
			r.Probe("lowercase_method_argument")
		}
		sg.uri = genURI(t)
		wantBody := 850
		if sg.method == "GET" || sg.method == "DELETE" {
			wantBody = 120
		}
		if t.Chance(wantBody) {
			sg.hasBody = true
			sg.body = genBody(t)
		}
		if senderFault == sfNonUTF8Body {
			sg.hasBody = true
			sg.body = []byte(sim.Pick(t, []string{"{\"a\":\"\xff\"}", "{\"a\":\"caf\xe9\"}", "[\"\xc0\xaf\"]", "{\"k\xfe\":1}", "\"\xed\xa0\x80\""}))
		}
		originArg := spec.ServerName(oName)
		if t.Chance(200) {
			originArg = "" // Sign fills it in
			r.Probe("origin_left_to_Sign")
		}
		fr := fclient.NewFederationRequest(methodArg, originArg, spec.ServerName(sg.dest), sg.uri)
		var err error
		if sg.hasBody {
			err = fr.SetContent(json.RawMessage(sg.body))
		}
		for _, k := range signers {
			if err == nil {
				err = fr.Sign(spec.ServerName(oName), k.ID, k.Priv)
			}
		}
		var req *http.Request
		if err == nil {
			req, err = fr.HTTPRequest()
		}
		r.Logf("t=%v O signs %s %s origin=%q destination=%q keys=%v body=%q -> err=%v", r.Now(), sg.method, sg.uri, sg.origin, sg.dest, sg.keyIDs, string(sg.body), err)
		if err != nil {
			// Every generated input is inside the property's domain (valid
			// method token, a URI that survives net/url, JSON content, names
			// safe in a quoted-string), except a deliberately invalid origin.
			if senderFault == sfInvalidOrigin {
				r.Probe("sender_refused_invalid_origin")
				return
			}
			if senderFault == sfNonUTF8Body {
				r.Probe("sender_refused_non_utf8_body")
				return
			}
			if senderFault == sfOddKeyID {
				r.Probe("sender_refused_key_id_outside_grammar")
				return
			}
			if sg.hasBody && keyNeedsEscape(sg.body) {
				r.Violate(P, "sign_send", "sign_error:object_key_needs_escape", "O cannot sign a request whose JSON content has a member name needing an escape: content %s: %v", string(sg.body), err)
				return
			}
			r.Violate(P, "complete", "sender_error", "O could not build/sign %s %s: %v", sg.method, sg.uri, err)
			return
		}
		if sg.hasBody && senderFault != sfNonUTF8Body && !strictSameJSON(sg.body, fr.Content()) {
			tag := "content_rewritten"
			if keyNeedsEscape(sg.body) {
				tag += ":object_key_needs_escape"
			}
			r.Violate(P, "sign_send", tag, "Sign changed the request content: SetContent got %s, the signed request carries %s", string(sg.body), string(fr.Content()))
			return
		}
		r.Op()
		if s.senderMode == sendDirect {
			resp, rerr := s.RoundTrip(req)
			if rerr == nil {
				resp.Body.Close()
			}
		} else {
			opts := []fclient.ClientOption{fclient.WithTransport(s), fclient.WithTimeout(0)}
			if t.Bool() {
				opts = append(opts, fclient.WithUserAgent("reqsim/1.0"))
			}
			fc := fclient.NewFederationClient(nil, opts...)
			var res json.RawMessage
			cerr := fc.DoRequestAndParseResponse(ctx, req, &res)
			s.checkClientError(cerr)
		}
	}

	for _, d := range s.deliveries {
		s.judge(d)
	}
	if len(s.deliveries) == 0 {
		r.Probe("nothing_delivered")
	}
}

// sendViaAPI lets one of the federation client's API methods build, sign and
// send the request. The ledger records method, origin, destination and content
// from the call's arguments; the request URI is taken from what the client
// handed to its transport (checked against the documented path prefix).
func (s *sce) sendViaAPI(ctx context.Context, k *world.Key) {
	r, t, sg := s.r, s.t, &s.signed
	origin, dest := spec.ServerName(sg.origin), spec.ServerName(sg.dest)
	ids := []*fclient.SigningIdentity{{ServerName: origin, KeyID: k.ID, PrivateKey: k.Priv}}
	opts := []fclient.ClientOption{fclient.WithTransport(s), fclient.WithTimeout(0)}
	if t.Bool() {
		opts = append(opts, fclient.WithUserAgent("reqsim/1.0"))
	}
	fc := fclient.NewFederationClient(ids, opts...)
	sg.uriFromCapture = true
	var err error
	api := t.Intn(5)
	r.Op()
	switch api {
	case 0:
		ts := spec.AsTimestamp(time.Now())
		pdus := []json.RawMessage{}
		if t.Bool() {
			pdus = append(pdus, json.RawMessage(`{"type":"m.room.message","content":{"body":"hi"}}`))
		}
		sg.method, sg.hasBody = "PUT", true
		pj, _ := json.Marshal(pdus)
		oj, _ := json.Marshal(sg.origin)
		sg.body = []byte(fmt.Sprintf(`{"origin":%s,"origin_server_ts":%d,"pdus":%s}`, oj, int64(ts), pj))
		sg.uri = "/_matrix/federation/v1/send/"
		r.Logf("t=%v O calls SendTransaction origin=%q destination=%q", r.Now(), sg.origin, sg.dest)
		_, err = fc.SendTransaction(ctx, gmsl.Transaction{TransactionID: gmsl.TransactionID(fmt.Sprintf("txn%d", t.Intn(1000))), Origin: origin, Destination: dest, OriginServerTS: ts, PDUs: pdus})
	case 1:
		sg.method, sg.uri = "GET", "/_matrix/federation/v1/query/profile?"
		r.Logf("t=%v O calls LookupProfile origin=%q destination=%q", r.Now(), sg.origin, sg.dest)
		_, err = fc.LookupProfile(ctx, origin, dest, "@alice:"+sg.origin, sim.Pick(t, []string{"", "displayname", "avatar_url"}))
	case 2:
		sg.method, sg.uri = "GET", "/_matrix/federation/v1/event/"
		r.Logf("t=%v O calls GetEvent origin=%q destination=%q", r.Now(), sg.origin, sg.dest)
		_, err = fc.GetEvent(ctx, origin, dest, sim.Pick(t, []string{"$abc/def:" + sg.origin, "$Wm9vbQ", "$a+b?c"}))
	case 3:
		sg.method, sg.hasBody, sg.uri = "POST", true, "/_matrix/federation/v1/user/keys/claim"
		sg.body = []byte(`{"one_time_keys":{"@bob:dest.example":{"DEVICE":"signed_curve25519"}}}`)
		r.Logf("t=%v O calls ClaimKeys origin=%q destination=%q", r.Now(), sg.origin, sg.dest)
		_, err = fc.ClaimKeys(ctx, origin, dest, map[string]map[string]string{"@bob:dest.example": {"DEVICE": "signed_curve25519"}})
	default:
		sg.method, sg.uri = "GET", "/_matrix/federation/v1/make_join/"
		r.Logf("t=%v O calls MakeJoin origin=%q destination=%q", r.Now(), sg.origin, sg.dest)
		_, err = fc.MakeJoin(ctx, origin, dest, "!room:"+sg.dest, "@bob:"+sg.origin)
	}
	r.Probe(fmt.Sprintf("api_%d", api))
	if len(s.deliveries) == 0 {
		if s.senderMark != nil && s.senderMark.kind == "invalid_origin_signed" {
			r.Probe("sender_refused_invalid_origin")
			return
		}
		if s.senderMark != nil && s.senderMark.kind == "key_id_outside_grammar" {
			r.Probe("sender_refused_key_id_outside_grammar")
			return
		}
		r.Violate(P, "complete", "sender_error", "client API %d sent nothing: %v", api, err)
	}
	s.checkClientError(err)
}

// checkClientError: what O's client reports must mirror D's answer (not part
// of C13; recorded as probes only).
func (s *sce) checkClientError(err error) {
	if len(s.deliveries) == 0 {
		return
	}
	code := s.deliveries[0].code
	var he gomatrix.HTTPError
	switch {
	case err == nil && code == 200:
		s.r.Probe("client_saw_200")
	case errors.As(err, &he) && he.Code == code:
		s.r.Probe("client_saw_refusal_code")
	default:
		s.r.Probe("client_result_other")
	}
}

// RoundTrip is the simulated network between O and D.
func (s *sce) RoundTrip(req *http.Request) (*http.Response, error) {
	r, t := s.r, s.t
	f, err := capture(req)
	if err != nil {
		return nil, err
	}
	sg := &s.signed
	if sg.uriFromCapture {
		if !strings.HasPrefix(f.uri, sg.uri) || f.method != sg.method {
			r.Probe("api_request_line_unexpected")
		}
		sg.uri = f.uri
		r.Logf("t=%v O's client sends %s %s body=%q", r.Now(), f.method, f.uri, string(f.body))
	}
	for _, h := range f.hdr {
		r.Logf("  header %s: %s", h.name, h.val)
	}

	// ---- transit plan: 0-2 transformations, at most one of them a fault ------
	e := &env{t: t, wire: s.wire, signed: sg, dNames: s.dNames, foreign: s.foreign, third: s.third}
	for _, k := range s.O.Keys {
		e.okeys = append(e.okeys, string(k.ID))
	}
	nT := t.Weighted([]int{4, 6, 2})
	haveFault := s.senderMark != nil && s.senderMark.class == fault
	for i := 0; i < nT; i++ {
		class := t.Weighted([]int{3, 2, 7})
		if class == fault && haveFault {
			class = benign
		}
		ok := false
		switch class {
		case benign:
			ok = f.applyBenign(e)
		case neutral:
			ok = f.applyNeutral(e)
		default:
			ok = f.applyFault(e)
			haveFault = haveFault || ok
		}
		if !ok {
			r.Probe("transformation_inapplicable")
		}
	}

	// ---- latency, key events in flight ---------------------------------------
	lat := sim.Pick(t, latencies)
	if t.Chance(150) {
		first := lat * time.Duration(t.Intn(3)) / 2
		time.Sleep(first)
		s.O.Rotate(t, time.Now()).ID = s.nextKey()
		s.envEvents = append(s.envEvents, "key_rotate")
		r.Fault("key_rotate")
		r.Logf("t=%v O rotates its keys (request in flight)", r.Now())
		time.Sleep(lat - first)
	} else {
		time.Sleep(lat)
	}
	if lat > 0 {
		r.Fault("delay")
	}
	d := s.deliver(f, 1)
	if t.Chance(120) {
		time.Sleep(sim.Pick(t, latencies))
		r.Fault("duplicate")
		s.envEvents = append(s.envEvents, "duplicate")
		s.deliver(f, 2)
	}
	respBody := []byte("{}")
	return &http.Response{
		Status: fmt.Sprintf("%d %s", d.code, http.StatusText(d.code)), StatusCode: d.code,
		Proto: "HTTP/1.1", ProtoMajor: 1, ProtoMinor: 1,
		Header:        http.Header{"Content-Type": []string{"application/json"}},
		Body:          io.NopCloser(bytes.NewReader(respBody)),
		ContentLength: int64(len(respBody)), Request: req,
	}, nil
}

// deliver hands the request to D's handler: the real VerifyHTTPRequest.
func (s *sce) deliver(f *flight, n int) *delivery {
	r := s.r
	r.Op()
	clock := time.Now()
	now := clock.Add(s.skew) // the receipt time D states
	d := &delivery{n: n, marks: append([]mark{}, f.marks...)}
	if s.senderMark != nil {
		d.marks = append(d.marks, *s.senderMark)
	}
	s.deliveries = append(s.deliveries, d)
	req, lerr := f.materialise(s.wire)
	if lerr != nil {
		// net/http itself refuses these bytes: no handler runs, the peer gets 400
		d.code, d.httpLayer = 400, true
		if f.uriKind != "" {
			d.marks = append(d.marks, mark{class: fault, kind: f.uriKind, oracle: "refuse_tamper", codes: []int{400}})
		}
		if len(kindsOf(d.marks, fault)) == 0 {
			panic(fmt.Sprintf("harness: net/http rejected a request that carries no fault: %v", lerr))
		}
		r.Probe("http_layer_reject")
		r.Logf("t=%v D#%d: net/http rejects the request bytes: %v", r.Now(), n, lerr)
		return d
	}
	if f.uriKind != "" {
		if req.URL.RequestURI() != s.signed.uri {
			d.marks = append(d.marks, mark{class: fault, kind: f.uriKind, oracle: "refuse_tamper", codes: []int{401}})
		} else {
			d.marks = append(d.marks, mark{class: neutral, kind: "uri_same_after_parse"})
		}
	}
	d.keyAccept, d.keyRefuse, d.keyNote = s.keyExpectation(clock, now)
	var isLocal func(spec.ServerName) bool
	if s.callback {
		isLocal = func(n spec.ServerName) bool {
			s.cbCalls++
			return s.owns(n)
		}
	}
	r.Logf("t=%v D#%d receives %s %s (effective URI %s) host=%q body=%q streamErrAfter=%d", r.Now(), n, f.method, f.uri, req.URL.RequestURI(), f.host, string(f.body), f.errAfter)
	for _, h := range f.hdr {
		if isAuth(h) || strings.EqualFold(h.name, "Content-Type") {
			r.Logf("  header %s: %s", h.name, h.val)
		}
	}
	fr, resp := fclient.VerifyHTTPRequest(req, now, spec.ServerName(s.dNames[0]), isLocal, s.verifier())
	d.fr, d.code = fr, resp.Code
	if fr != nil && s.r.T.Chance(500) {
		// D keeps the accepted request while it handles the next one, an
		// unauthenticated request with another body of similar size: what the
		// accepted request reports must not change under the holder's feet
		// (the judge reads it afterwards)
		body := bytes.Repeat([]byte("x"), len(f.body)+8)
		copy(body, []byte(`{"decoy":"`))
		copy(body[len(body)-2:], []byte(`"}`))
		dq, err := http.NewRequest("PUT", "http://"+s.dNames[0]+"/_matrix/federation/v1/send/decoy", bytes.NewReader(body))
		if err == nil {
			dq.Header.Set("Content-Type", "application/json")
			_, dresp := fclient.VerifyHTTPRequest(dq, now, spec.ServerName(s.dNames[0]), nil, s.verifier())
			r.Probe("accepted_request_held_across_next_request")
			r.Logf("t=%v D handles an unauthenticated decoy request next (code %d)", r.Now(), dresp.Code)
		}
	}
	return d
}

// keyExpectation models what D can know about O's signing keys at now, from
// D's cache and from what O publishes now (if reachable), against the ledger.
//
//	accept: some key O signed with is genuinely valid now and a source D
//	        consults says so with validity strictly beyond now;
//	refuse: under every source available to D, every key O signed with is
//	        expired / past valid_until_ts / unknown at now.
func (s *sce) keyExpectation(clock, at time.Time) (acc, refuse bool, note string) {
	ts := spec.AsTimestamp(at)
	ids := s.signed.keyIDs
	if s.vmode == vLedger {
		if s.ver.Fail != nil {
			return false, false, "verifier_error"
		}
		anyValid, allExpired := false, true
		for _, id := range ids {
			k := s.O.KeyByID(id)
			if truthValid(k, at) {
				anyValid = true
			}
			if !truthExpired(k, at) {
				allExpired = false
			}
		}
		switch {
		case anyValid:
			return true, false, "ledger_valid"
		case allExpired:
			return false, true, "ledger_expired"
		}
		return false, false, "ledger_not_yet_published"
	}
	if s.db.fetchErr {
		return false, false, "db_fetch_error"
	}
	anyClear, possible := false, false
	notes := []string{}
	var fresh map[pair]entry
	if s.fet.mode == fetchUp {
		fresh = published(s.O, clock)
	}
	for _, id := range ids {
		p := pair{ServerName: s.O.Name, KeyID: id}
		k := s.O.KeyByID(id)
		dbE, inDB := s.db.m[p]
		frE, inFresh := fresh[p]
		if (inDB && possiblyValid(dbE, ts, clock)) || (inFresh && possiblyValid(frE, ts, clock)) {
			possible = true
		}
		dbClear := inDB && clearlyValid(dbE, ts, clock) && bytes.Equal(dbE.Key, k.Pub)
		frClear := inFresh && clearlyValid(frE, ts, clock)
		if truthValid(k, at) {
			if s.skew == 0 {
				// the cache is used while it is valid by the clock, otherwise
				// O's current answer replaces it
				if dbClear || frClear {
					anyClear = true
				}
			} else if (inDB || inFresh) && (!inDB || dbClear) && (!inFresh || frClear) {
				// with a skewed `now` argument only unanimity is claimed
				anyClear = true
			}
		}
		switch {
		case inDB && dbE.ExpiredTS != 0:
			notes = append(notes, "cache_expired")
		case inDB && ts > dbE.ValidUntilTS:
			notes = append(notes, "cache_stale")
		case inDB:
			notes = append(notes, "cache_fresh")
		default:
			notes = append(notes, "cache_miss")
		}
		if truthExpired(k, at) {
			notes = append(notes, "rotated")
		}
		if (inDB && dbE.ExpiredTS == 0 && ts <= dbE.ValidUntilTS && ts > strictLimit(dbE, clock)) ||
			(inFresh && frE.ExpiredTS == 0 && ts <= frE.ValidUntilTS && ts > strictLimit(frE, clock)) {
			notes = append(notes, "beyond_7d_cap")
		}
	}
	switch s.fet.mode {
	case fetchError:
		notes = append(notes, "fetcher_error")
	case fetchEmpty:
		notes = append(notes, "fetcher_empty")
	}
	if s.O.ValidFor < 0 {
		notes = append(notes, "negative_validity")
	}
	if s.skew != 0 {
		notes = append(notes, "now_skewed")
	}
	for _, ev := range s.envEvents {
		if ev == "signed_with_expired_key" {
			notes = append(notes, ev)
		}
	}
	note = strings.Join(notes, "+")
	if s.db.storeErr {
		return false, !possible, note + "+db_store_error"
	}
	return anyClear, !possible, note
}

func kindsOf(ms []mark, class int) []string {
	var out []string
	for _, m := range ms {
		if m.class == class {
			out = append(out, m.kind)
		}
	}
	return out
}

func hasCode(cs []int, c int) bool {
	for _, x := range cs {
		if x == c {
			return true
		}
	}
	return false
}

// judge evaluates the oracles of DESIGN §4 C13 on one delivery.
func (s *sce) judge(d *delivery) {
	r, sg := s.r, &s.signed
	accepted := d.code == 200
	faults, neutrals, benigns := kindsOf(d.marks, fault), kindsOf(d.marks, neutral), kindsOf(d.marks, benign)
	for _, m := range d.marks {
		if d.n == 1 {
			r.Fault([]string{"benign:", "neutral:", "fault:"}[m.class] + m.kind)
		}
	}
	if len(d.marks) > 0 || len(s.envEvents) > 0 || strings.Contains(d.keyNote, "stale") || strings.Contains(d.keyNote, "expired") || strings.Contains(d.keyNote, "negative") || s.skew != 0 {
		r.Nontriv = true
	}
	if strings.Contains(d.keyNote, "cache_stale") || strings.Contains(d.keyNote, "negative_validity") || strings.Contains(d.keyNote, "beyond_7d_cap") {
		r.Fault("key_expire")
	}
	if s.skew != 0 {
		r.Fault("clock_skew")
	}
	r.Logf("D#%d verdict: code=%d request_returned=%v faults=%v neutral=%v benign=%v keys=%s(accept=%v refuse=%v) callback_calls=%d db_fetches=%d fetcher_calls=%d",
		d.n, d.code, d.fr != nil, faults, neutrals, benigns, d.keyNote, d.keyAccept, d.keyRefuse, s.cbCalls, s.db.fetches, s.fet.calls)
	r.State(fmt.Sprintf("%d|%v|%v|%d|%v|%v|%v|%s|%d", s.senderMode, s.wire, s.callback, s.vmode, faults, neutrals, benigns, d.keyNote, d.code))
	r.Probe(fmt.Sprintf("outcome_%d", d.code))
	if s.cbCalls > 0 {
		r.Probe("is_local_callback_consulted")
	}
	if s.fet.calls > 0 {
		r.Probe("keyring_fetched_from_origin")
	}
	if s.vmode == vRing && s.db.fetches > 0 && s.fet.calls == 0 && accepted {
		r.Probe("keyring_accepted_from_cache")
	}

	if !d.httpLayer {
		r.Check(accepted == (d.fr != nil), P, "result_shape", "code_vs_request",
			"VerifyHTTPRequest returned code %d together with request!=nil: %v", d.code, d.fr != nil)
	}

	// (3) every single-field fault => refused
	var fm *mark
	for i := range d.marks {
		if d.marks[i].class == fault {
			fm = &d.marks[i]
			break
		}
	}
	switch {
	case fm != nil:
		r.Check(!accepted, P, fm.oracle, fm.kind,
			"request accepted (200) although %s: signed {%s %s origin=%q destination=%q body=%q}", fm.kind, sg.method, sg.uri, sg.origin, sg.dest, string(sg.body))
		// status class: judged only when this fault is the sole deviation
		if !d.httpLayer && len(d.marks) == 1 && d.keyAccept {
			if hasCode(fm.codes, d.code) {
				r.Probe("refusal_status_as_documented")
			} else {
				r.Probe(fmt.Sprintf("refusal_status_other:%s:%d", fm.kind, d.code))
			}
		}
	case d.keyRefuse:
		r.Check(!accepted, P, "refuse_key_validity", d.keyNote,
			"request accepted (200) although no source available to D shows a signing key of O (%v) valid at receipt (%s)", sg.keyIDs, d.keyNote)
		if len(d.marks) == 0 && !s.db.storeErr {
			if d.code == 401 {
				r.Probe("refusal_status_as_documented")
			} else {
				r.Probe(fmt.Sprintf("refusal_status_other:key_validity:%d", d.code))
			}
		}
		r.Probe("refused_key_not_valid_at_receipt")
	case len(neutrals) == 0 && d.keyAccept:
		// (2) unfaulted or benignly changed, key valid => accepted
		tag := "unfaulted"
		if len(benigns) > 0 {
			tag = strings.Join(benigns, "+")
		}
		if d.n > 1 {
			tag = "duplicate_delivery:" + tag
		}
		r.Check(accepted, P, "complete", tag,
			"request refused with %d although it is exactly what O signed (%s) and O's key is valid at receipt (%s): {%s %s origin=%q destination=%q}", d.code, tag, d.keyNote, sg.method, sg.uri, sg.origin, sg.dest)
		r.Probe("accepted_as_required")
	default:
		for _, k := range neutrals {
			pre := "neutral"
			if len(neutrals) == 1 && d.keyAccept {
				pre = "sole_neutral" // nothing else could explain a refusal
			}
			switch {
			case accepted:
				r.Probe(pre + "_accepted:" + k)
			case pre == "sole_neutral":
				r.Probe(fmt.Sprintf("%s_refused:%s:%d", pre, k, d.code))
			default:
				r.Probe(pre + "_refused:" + k)
			}
		}
		if len(neutrals) == 0 {
			if accepted {
				r.Probe("key_state_undetermined_accepted")
				if strings.Contains(d.keyNote, "cache_fresh+rotated") {
					r.Probe("accepted_on_cached_key_after_rotation")
				}
			} else {
				r.Probe(fmt.Sprintf("key_state_undetermined_refused:%d", d.code))
			}
		}
		if d.keyNote == "verifier_error" || d.keyNote == "db_fetch_error" {
			r.Probe(fmt.Sprintf("key_ring_error_gives_%d", d.code))
		}
	}

	// (1) accepted => exactly what O signed, for a name D owns
	if accepted && d.fr != nil {
		fr := d.fr
		r.Check(fr.Method() == sg.method, P, "accept_fields", "method", "accepted request reports method %q, O signed %q", fr.Method(), sg.method)
		r.Check(fr.RequestURI() == sg.uri, P, "accept_fields", "uri", "accepted request reports URI %q, O signed %q", fr.RequestURI(), sg.uri)
		r.Check(string(fr.Origin()) == sg.origin, P, "accept_fields", "origin", "accepted request reports origin %q, O is %q", fr.Origin(), sg.origin)
		r.Check(string(fr.Destination()) == sg.dest, P, "accept_fields", "destination", "accepted request reports destination %q, O signed %q", fr.Destination(), sg.dest)
		if sg.hasBody {
			r.Check(strictSameJSON(sg.body, fr.Content()), P, "accept_fields", "body", "accepted request reports content %q, O signed %q", string(fr.Content()), string(sg.body))
		} else {
			r.Check(len(fr.Content()) == 0, P, "accept_fields", "body", "accepted request reports content %q, O signed none", string(fr.Content()))
		}
		r.Check(s.owns(fr.Destination()), P, "accept_fields", "destination_not_local", "accepted request is addressed to %q which D (%v) does not own", fr.Destination(), s.dNames)
	}
}

func TestEngine(t *testing.T) {
	logrus.SetOutput(io.Discard)
	logrus.SetLevel(logrus.PanicLevel)
	sim.Main(t, &sim.Engine{
		Name: "reqsim",
		Body: body,
		Rule: func(string) string {
			return "one run = one origin O (name from DNS names / names with ports / IPv4 / bracketed IPv6; 1-3 published key ids, optional earlier rotation, tape-chosen valid_until horizon) and one destination D (1-3 local names, fixed destination or isLocalServerName callback; real KeyRing over an in-memory KeyDatabase (empty or seeded earlier) and a fetcher answering from the ledger (up / error / empty), or the ledger verifier); O signs one request (GET/PUT/POST/DELETE x path/query/escape pool x JSON body or none; single or double signature; built directly, through federationClient.DoRequestAndParseResponse, or by a client API method) which the sim transport delivers after a tape-chosen latency (0..31 d, O may rotate in flight) as the client's *http.Request object or re-parsed from HTTP/1.1 bytes, after 0-2 transit transformations of which at most one is a single-field fault (benign ones include other headers and Authorization schemes, header case / order, whitespace the credentials grammar allows, and the body framed without a declared length - chunked on the wire, ContentLength -1 in the object); optionally delivered twice; non-trivial = at least one transformation, key event (rotation, stale/expired cache entry, negative validity) or duplicate fired; distinct = distinct event-log hash"
		},
		Real: []string{"fclient.NewFederationRequest/SetContent/Sign/HTTPRequest", "fclient.NewFederationClient + WithTransport (DoRequestAndParseResponse, SendTransaction, LookupProfile, GetEvent, ClaimKeys, MakeJoin)", "fclient.VerifyHTTPRequest / ParseAuthorization", "gomatrixserverlib.KeyRing.VerifyJSONs + StrictValiditySignatureCheck", "SignJSON / VerifyJSON / CanonicalJSON", "spec.ParseAndValidateServerName", "net/http request parsing (wire mode)"},
		Stub: []string{"http.RoundTripper (sim transport: latency, transit transformations, duplicate delivery)", "KeyDatabase (in-memory map, optional errors)", "KeyFetcher (answers O's published keys at the simulated instant; error / empty modes)", "world.Verifier (ledger configuration)", "wall clock (testing/synctest)"},
		Assumptions: []string{
			"testing/synctest fake clock (Go 1.26.8); D passes its own clock reading as `now`, except in the rare now_skewed configuration (+8 d, +6 d, -1 h) which exercises the 7-day cap of the strict validity rule; there must-accept is claimed only when every source D could consult agrees",
			"what must be refused is decided from the final transmitted request against O's ledger entry; transformations about which the property text is silent (unquoted parameter values, missing destination parameter, scheme case, parameter order, re-serialised body, Content-Type parameters, stream error after the complete body, URI spelling that net/url maps back to the signed string) only have to satisfy accepted => fields as signed",
			"key must-refuse = every source D can consult (cache entry, O's answer now) shows the key expired / past valid_until_ts / unknown; key must-accept = key genuinely current in the ledger and a consulted source gives validity strictly beyond now; everything between (e.g. cache still valid but O rotated) is recorded as a probe",
			"refusal status codes are recorded as probes, not asserted",
		},
	})
}
