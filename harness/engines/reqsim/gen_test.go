package reqsim

import (
	"encoding/json"
	"fmt"
	"net/url"
	"sort"
	"strings"
	"unicode/utf8"

	"verifharness/ref"
	"verifharness/sim"
)

// ---- server names -----------------------------------------------------------

// validNames are server names that the Matrix server-name grammar admits: DNS
// names, names with ports, IPv4 and bracketed IPv6 literals. The first six are
// the roles a zeroed tape selects (origin, three destination names, a foreign
// name, a third party).
var validNames = []string{
	"origin.example",
	"dest.example",
	"alt.dest.example",
	"third.dest.example",
	"elsewhere.example",
	"other.example",
	"matrix.example.com:8448",
	"localhost:8008",
	"h.example:1",
	"h.example:65535",
	"Mixed.Example.ORG",
	"xn--bcher-kva.example",
	"a-b.c-d.example:443",
	"10.0.0.5",
	"192.168.1.10:8448",
	"127.0.0.1",
	"[::1]",
	"[2001:db8::1]:8448",
	"[fe80::1234]",
	"[::ffff:1.2.3.4]:8448",
	"[2001:DB8::A]",
}

// invalidNames are unambiguously outside the server-name grammar and contain
// nothing that would itself break the X-Matrix header syntax (no quote,
// comma or backslash).
var invalidNames = []string{
	// non-ASCII letters, among them ones whose code point ends in the byte of
	// an ASCII letter, digit, dot or hyphen (U+0430 -> '0', U+0161 -> 'a',
	// U+212E -> '.', U+4E2D -> '-', U+0131 -> '1'): look-alikes of valid names
	"ex\u0430mple.org", "\u0161erver.example", "example\u212eorg", "\u4e2d.example", "\u0131.example:8448", "m\u00fcnchen.example",
	"[fe80::1%eth0]",
	"[fe80::1%eth0]:8448",
	"[::1%lo]",
	"exa mple.org",
	"under_score.example",
	"host.example:port",
	"host.example:",
	"host.example:123456",
	"host.example:80:80",
	"::1",
	"2001:db8::1",
	"[::1",
	"[::1]x",
	"[zz::1]",
	"[::1]:",
	"ex/ample.org",
	"@example.org",
	"exämple.org",
}

// pickDistinct draws k distinct indices below n (identity on a zeroed tape).
func pickDistinct(t *sim.Tape, n, k int) []int {
	p := make([]int, n)
	for i := range p {
		p[i] = i
	}
	for i := 0; i < k && i < n-1; i++ {
		j := i + t.Intn(n-i)
		p[i], p[j] = p[j], p[i]
	}
	return p[:k]
}

// ---- key ids ---------------------------------------------------------------

var keyIDPool = []string{"ed25519:k1", "ed25519:1", "ed25519:auto", "ed25519:a_B9", "ed25519:0", "ed25519:key_2"}

// ---- methods ---------------------------------------------------------------

var methodPool = []string{"GET", "PUT", "POST", "DELETE"}

// ---- request URIs ----------------------------------------------------------

var pathPool = []string{
	"/_matrix/federation/v1/send/1234",
	"/_matrix/federation/v1/version",
	"/",
	"/_matrix/key/v2/server",
	"/_matrix/federation/v1/event/%24abc%2Fdef%3Aorigin.example",
	"/_matrix/federation/v1/make_join/%21room%3Aorigin.example/%40bob%3Aorigin.example",
	"/_matrix/federation/v1/backfill/!room:origin.example",
	"/_matrix/federation/v1/state/!r:x/",
	"/_matrix/federation/v2/invite/%21r%3Ax/$ev",
	"/_matrix/federation/v1/user/devices/@alice:origin.example",
	"/_matrix/media/v3/download/a%20b/c+d",
	"/_matrix/federation/v1/query/caf%C3%A9",
	"/_matrix/federation/v1/x/%3a%2f%3F",
	"/_matrix//federation/v1/double",
	"/_matrix/federation/v1/semi;v=1/a,b=c~d",
	"/_matrix/federation/v1/dots/../up/./x",
	"/_matrix/federation/v1/send/%E2%98%83",
	"//leading/double",
	"/_matrix/federation/v1/A/a",
}

var queryPool = []string{
	"",
	"?limit=10",
	"?user_id=%40alice%3Aorigin.example&field=displayname",
	"?ver=1&ver=2&ver=10",
	"?v=%24ev1&v=%24ev2&limit=5",
	"?",
	"?a=b=c",
	"?q=a+b%20c",
	"?next=/a/b?c=d",
	"?&&",
	"?=",
	"?k",
	"?room_alias=%23test%3Alocalhost%3A44033",
	"?x=%C3%A9&y=%e2%98%83",
	"?x=é",
}

// uriRoundTrips is the sender's own precondition (HTTPRequest refuses URIs
// that net/url would re-encode); generated URIs are filtered by it so that the
// run exercises verification, not the sender's sanity check.
func uriRoundTrips(u string) bool {
	if !strings.HasPrefix(u, "/") || strings.ContainsAny(u, " \t\r\n") {
		return false
	}
	p, err := url.Parse("matrix://h.example" + u)
	if err != nil {
		return false
	}
	if p.RequestURI() != u {
		return false
	}
	q, err := url.ParseRequestURI(u)
	return err == nil && q.RequestURI() == u
}

func genURI(t *sim.Tape) string {
	u := sim.Pick(t, pathPool) + sim.Pick(t, queryPool)
	if !uriRoundTrips(u) {
		return pathPool[0]
	}
	return u
}

// mutateURI returns a different request-target (path or query edit).
func mutateURI(t *sim.Tape, u string, wantQuery bool) (string, string) {
	path, query, hasQ := strings.Cut(u, "?")
	if wantQuery {
		switch t.Intn(7) {
		case 0: // add a parameter (or a query at all)
			if hasQ {
				if query == "" {
					return path + "?x=1", "query_add"
				}
				return path + "?" + query + "&x=1", "query_add"
			}
			return path + "?x=1", "query_add"
		case 1: // remove the query
			if hasQ {
				return path, "query_remove"
			}
			return path + "?", "query_empty_added"
		case 2: // empty query marker toggled
			if !hasQ {
				return path + "?", "query_empty_added"
			}
			if query == "" {
				return path, "query_remove"
			}
			return path + "?" + query + "&", "query_trailing_amp"
		case 3: // change a value
			if hasQ && query != "" {
				return path + "?" + query + "0", "query_value"
			}
			return path + "?limit=100", "query_add"
		case 4: // reorder parameters
			ps := strings.Split(query, "&")
			if hasQ && len(ps) > 1 && ps[0] != ps[len(ps)-1] {
				ps[0], ps[len(ps)-1] = ps[len(ps)-1], ps[0]
				return path + "?" + strings.Join(ps, "&"), "query_reorder"
			}
			return path + "?" + query + "&y", "query_add"
		case 5: // change the escaping of the query
			if strings.Contains(query, "%20") {
				return path + "?" + strings.Replace(query, "%20", "+", 1), "query_escape"
			}
			if strings.Contains(query, "=") {
				return path + "?" + strings.Replace(query, "=", "%3D", 1), "query_escape"
			}
			return path + "?z=%20", "query_add"
		default: // drop the last character of the query
			if hasQ && len(query) > 1 && !strings.HasSuffix(query[:len(query)-1], "%") && !(len(query) > 2 && query[len(query)-3] == '%') {
				return path + "?" + query[:len(query)-1], "query_truncate"
			}
			return path + "?" + query + "x", "query_value"
		}
	}
	q := ""
	if hasQ {
		q = "?" + query
	}
	switch t.Intn(8) {
	case 0:
		return path + "x" + q, "path_append_char"
	case 1:
		if strings.HasSuffix(path, "/") && len(path) > 1 {
			return path[:len(path)-1] + q, "path_trailing_slash"
		}
		return path + "/" + q, "path_trailing_slash"
	case 2:
		return path + "/extra" + q, "path_append_segment"
	case 3: // percent-encode one plain letter (same resource, different signed string)
		for i := len(path) - 1; i >= 0; i-- {
			c := path[i]
			if (c >= 'a' && c <= 'z') && (i < 2 || (path[i-1] != '%' && path[i-2] != '%')) {
				return path[:i] + fmt.Sprintf("%%%02X", c) + path[i+1:] + q, "path_escape"
			}
		}
		return path + "%41" + q, "path_escape"
	case 4: // decode one escape, or change hex case
		if i := strings.Index(path, "%"); i >= 0 && i+2 < len(path) {
			hx := path[i+1 : i+3]
			if up := strings.ToUpper(hx); up != hx {
				return path[:i+1] + up + path[i+3:] + q, "path_escape_case"
			}
			if lo := strings.ToLower(hx); lo != hx {
				return path[:i+1] + lo + path[i+3:] + q, "path_escape_case"
			}
			if dec, err := url.PathUnescape(path[i : i+3]); err == nil && dec != "/" && dec != "?" && dec != "%" && dec[0] > ' ' && dec[0] < 0x7f && dec != "#" {
				return path[:i] + dec + path[i+3:] + q, "path_unescape"
			}
		}
		return "/prefix" + path + q, "path_prefix"
	case 5: // change case of one letter
		for i := len(path) - 1; i >= 0; i-- {
			c := path[i]
			if c >= 'a' && c <= 'z' && (i < 2 || (path[i-1] != '%' && path[i-2] != '%')) {
				return path[:i] + string(c-32) + path[i+1:] + q, "path_case"
			}
		}
		return path + "X" + q, "path_append_char"
	case 6: // another resource altogether
		if path != "/_matrix/federation/v1/send/9999" {
			return "/_matrix/federation/v1/send/9999" + q, "path_other"
		}
		return "/_matrix/federation/v1/send/1" + q, "path_other"
	default: // double a slash
		if i := strings.LastIndex(path, "/"); i >= 0 {
			return path[:i] + "/" + path[i:] + q, "path_double_slash"
		}
		return path + "//" + q, "path_double_slash"
	}
}

// ---- JSON bodies -----------------------------------------------------------

var strPool = []string{"", "a", "hello world", "héllo", "日本語", "emoji \U0001F600", "quote\"back\\slash",
	"line\nbreak\ttab", "<script>&", " ", "/slash", "@alice:origin.example", "$event", "\u0001", "m.room.message",
	// code points at the edges: the replacement character itself (valid UTF-8, not a decoding error), noncharacters, the last code point, separators, a BOM
	"repl\ufffdaced", "\ufffd", "\uffff", "\U0010ffff", "\u2028\u2029", "\u007f", "\ufeffbom"}

var objKeyPool = []string{"a", "b", "type", "content", "origin", "room_id", "ключ", "é", "", "signatures", "unsigned", "pdus", "Z", "a.b", "k\ufffd", "\U0010ffff"}

// escKeyPool: member names whose JSON spelling needs an escape (drawn rarely).
var escKeyPool = []string{"k\"q", "b\\s", "new\nline", "x\":1,\"y"}

func genKey(t *sim.Tape) string {
	if t.Chance(25) {
		return sim.Pick(t, escKeyPool)
	}
	return sim.Pick(t, objKeyPool)
}

// keyNeedsEscape reports whether some object member name in the JSON text
// contains a quote, a backslash or a control character.
func keyNeedsEscape(body []byte) bool {
	v, err := ref.ParseJSON(body)
	if err != nil {
		return false
	}
	var walk func(any) bool
	walk = func(v any) bool {
		switch x := v.(type) {
		case map[string]any:
			for k, e := range x {
				if strings.ContainsAny(k, "\"\\") {
					return true
				}
				for _, c := range k {
					if c < 0x20 {
						return true
					}
				}
				if walk(e) {
					return true
				}
			}
		case []any:
			for _, e := range x {
				if walk(e) {
					return true
				}
			}
		}
		return false
	}
	return walk(v)
}

var numPool = []string{"0", "1", "-1", "42", "9007199254740991", "-9007199254740991", "1.5", "100", "1e3"}

func genValue(t *sim.Tape, depth int) any {
	w := []int{4, 3, 2, 1, 1, 3, 2}
	if depth <= 0 {
		w = []int{4, 3, 2, 1, 1, 0, 0}
	}
	switch t.Weighted(w) {
	case 0:
		return sim.Pick(t, strPool)
	case 1:
		return json.Number(sim.Pick(t, numPool))
	case 2:
		return t.Bool()
	case 3:
		return nil
	case 4:
		return map[string]any{}
	case 5:
		n := t.Range(1, 3)
		m := map[string]any{}
		for i := 0; i < n; i++ {
			m[genKey(t)] = genValue(t, depth-1)
		}
		return m
	default:
		n := t.Range(0, 3)
		a := make([]any, 0, n)
		for i := 0; i < n; i++ {
			a = append(a, genValue(t, depth-1))
		}
		return a
	}
}

// genBody returns a JSON text. Mostly objects (what federation endpoints
// take), sometimes any other JSON value.
func genBody(t *sim.Tape) []byte {
	var v any
	switch t.Weighted([]int{1, 6, 2}) {
	case 0:
		v = map[string]any{}
	case 1:
		n := t.Range(1, 4)
		m := map[string]any{}
		for i := 0; i < n; i++ {
			m[genKey(t)] = genValue(t, 2)
		}
		v = m
	default:
		v = genValue(t, 2)
	}
	b, err := json.Marshal(v)
	if err != nil {
		panic(err)
	}
	return b
}

// strictSameJSON: both texts are single well-formed UTF-8 JSON documents
// denoting the same value.
func strictSameJSON(a, b []byte) bool {
	return utf8.Valid(a) && utf8.Valid(b) && json.Valid(a) && json.Valid(b) && ref.SameJSON(a, b)
}

// slot is one editable position of a JSON value tree.
type slot struct {
	get func() any
	set func(any)
	del func() // nil for the root
}

type container struct {
	ins func()
}

func collect(v any, set func(any), slots *[]slot, conts *[]container) {
	switch x := v.(type) {
	case map[string]any:
		*conts = append(*conts, container{ins: func() {
			k := "zz_injected"
			for {
				if _, ok := x[k]; !ok {
					break
				}
				k += "_"
			}
			x[k] = json.Number("1")
		}})
		ks := make([]string, 0, len(x))
		for k := range x {
			ks = append(ks, k)
		}
		sort.Strings(ks)
		for _, k := range ks {
			k := k
			*slots = append(*slots, slot{get: func() any { return x[k] }, set: func(n any) { x[k] = n }, del: func() { delete(x, k) }})
			collect(x[k], func(n any) { x[k] = n }, slots, conts)
		}
	case []any:
		*conts = append(*conts, container{ins: func() { set(append(append([]any{}, x...), json.Number("1"))) }})
		for i := range x {
			i := i
			*slots = append(*slots, slot{get: func() any { return x[i] }, set: func(n any) { x[i] = n }, del: func() {
				set(append(append([]any{}, x[:i]...), x[i+1:]...))
			}})
			collect(x[i], func(n any) { x[i] = n }, slots, conts)
		}
	}
}

func otherValue(v any) any {
	switch x := v.(type) {
	case string:
		return x + "x"
	case json.Number:
		if x.String() == "7" {
			return json.Number("8")
		}
		return json.Number("7")
	case bool:
		return !x
	case nil:
		return json.Number("0")
	case map[string]any:
		if len(x) == 0 {
			return []any{}
		}
		return map[string]any{}
	case []any:
		if len(x) == 0 {
			return map[string]any{}
		}
		return []any{}
	}
	return "changed"
}

// editMember changes, deletes or inserts exactly one member/element of the
// JSON value (or replaces a scalar document). Returns nil if the result would
// denote the same value.
func editMember(t *sim.Tape, body []byte) ([]byte, string) {
	root, err := ref.ParseJSON(body)
	if err != nil {
		return nil, ""
	}
	before := ref.Render(root)
	var slots []slot
	var conts []container
	slots = append(slots, slot{get: func() any { return root }, set: func(n any) { root = n }})
	collect(root, func(n any) { root = n }, &slots, &conts)
	how := ""
	switch op := t.Intn(3); {
	case op == 1 && len(slots) > 1: // delete
		s := slots[1+t.Intn(len(slots)-1)]
		s.del()
		how = "member_delete"
	case op == 2 && len(conts) > 0: // insert
		conts[t.Intn(len(conts))].ins()
		how = "member_insert"
	default: // change a value
		s := slots[t.Intn(len(slots))]
		s.set(otherValue(s.get()))
		how = "member_value"
	}
	if ref.Render(root) == before {
		return nil, ""
	}
	out, err := json.Marshal(root)
	if err != nil {
		return nil, ""
	}
	return out, how
}

// ---- reserialisation (same JSON value, different bytes) ---------------------

func asciiEscape(s string) string {
	var sb strings.Builder
	for _, r := range s {
		switch {
		case r < 0x80:
			sb.WriteRune(r)
		case r > 0xFFFF:
			r -= 0x10000
			fmt.Fprintf(&sb, `\u%04x\u%04x`, 0xD800+(r>>10), 0xDC00+(r&0x3FF))
		default:
			fmt.Fprintf(&sb, `\u%04X`, r)
		}
	}
	return sb.String()
}

func jstr(s string, ascii bool) string {
	b, _ := json.Marshal(s)
	if ascii {
		return asciiEscape(string(b))
	}
	return string(b)
}

// renderStyled writes v with reversed key order, optional whitespace and
// optional \u escapes for every non-ASCII character.
func renderStyled(sb *strings.Builder, v any, reverse, spaces, ascii bool) {
	sp := ""
	if spaces {
		sp = " "
	}
	switch x := v.(type) {
	case map[string]any:
		ks := make([]string, 0, len(x))
		for k := range x {
			ks = append(ks, k)
		}
		sort.Strings(ks)
		if reverse {
			for i, j := 0, len(ks)-1; i < j; i, j = i+1, j-1 {
				ks[i], ks[j] = ks[j], ks[i]
			}
		}
		sb.WriteString("{" + sp)
		for i, k := range ks {
			if i > 0 {
				sb.WriteString("," + sp)
			}
			sb.WriteString(jstr(k, ascii))
			sb.WriteString(sp + ":" + sp)
			renderStyled(sb, x[k], reverse, spaces, ascii)
		}
		sb.WriteString(sp + "}")
	case []any:
		sb.WriteString("[" + sp)
		for i, e := range x {
			if i > 0 {
				sb.WriteString(sp + ",")
				if spaces {
					sb.WriteString("\n\t")
				}
			}
			renderStyled(sb, e, reverse, spaces, ascii)
		}
		sb.WriteString(sp + "]")
	case string:
		sb.WriteString(jstr(x, ascii))
	case json.Number:
		sb.WriteString(x.String())
	case bool:
		if x {
			sb.WriteString("true")
		} else {
			sb.WriteString("false")
		}
	default:
		sb.WriteString("null")
	}
}

func reserialise(t *sim.Tape, body []byte) ([]byte, string) {
	root, err := ref.ParseJSON(body)
	if err != nil {
		return nil, ""
	}
	style := t.Intn(4)
	var sb strings.Builder
	how := ""
	switch style {
	case 0:
		renderStyled(&sb, root, false, true, false)
		how = "whitespace"
	case 1:
		renderStyled(&sb, root, true, false, false)
		how = "key_order"
	case 2:
		renderStyled(&sb, root, false, false, true)
		how = "escapes"
	default:
		renderStyled(&sb, root, true, true, true)
		how = "all"
	}
	out := []byte(sb.String())
	if string(out) == string(body) || !strictSameJSON(out, body) {
		return nil, ""
	}
	return out, how
}
