package reqsim

import (
	"bufio"
	"bytes"
	"context"
	"encoding/json"
	"errors"
	"fmt"
	"io"
	"net/http"
	"net/url"
	"regexp"
	"sort"
	"strings"
	"unicode/utf8"

	"verifharness/sim"
)

// Classes of a transit transformation.
const (
	benign  = 0 // the request must still be accepted
	neutral = 1 // the property text neither demands acceptance nor refusal
	fault   = 2 // the property text demands refusal
)

type mark struct {
	class  int
	kind   string
	oracle string // refuse-oracle id for faults
	codes  []int  // refusal codes the library documents for this kind (probe only)
}

type hline struct{ name, val string }

// flight is the request between O's transport and D's handler.
type flight struct {
	chunked   bool          // the body travels without a declared length (chunked transfer coding)
	orig      *http.Request // as handed to the RoundTripper (body consumed)
	origURI   string
	method    string
	uri       string // request-target as transmitted
	uriKind   string // set when a transit step rewrote the request-target
	host      string
	hdr       []hline
	body      []byte
	hasBody   bool
	errAfter  int // -1: clean stream; k: the body stream fails after k bytes
	marks     []mark
	xmTouched bool
	bodyTouch bool
	ctTouched bool
}

func (f *flight) add(m mark) { f.marks = append(f.marks, m) }

func capture(req *http.Request) (*flight, error) {
	f := &flight{orig: req, method: req.Method, errAfter: -1}
	f.uri = req.URL.RequestURI()
	f.origURI = f.uri
	f.host = req.URL.Host
	if req.Host != "" {
		f.host = req.Host
	}
	names := make([]string, 0, len(req.Header))
	for k := range req.Header {
		names = append(names, k)
	}
	sort.Strings(names)
	for _, k := range names {
		for _, v := range req.Header[k] {
			f.hdr = append(f.hdr, hline{k, v})
		}
	}
	if req.Body != nil && req.Body != http.NoBody {
		b, err := io.ReadAll(req.Body)
		req.Body.Close()
		if err != nil {
			return nil, err
		}
		f.body = b
		f.hasBody = true
	}
	return f, nil
}

type failingReader struct {
	data []byte
	pos  int
}

var errConnReset = errors.New("sim: connection reset by peer")

func (r *failingReader) Read(p []byte) (int, error) {
	if r.pos >= len(r.data) {
		return 0, errConnReset
	}
	n := copy(p, r.data[r.pos:])
	r.pos += n
	return n, nil
}

// materialise builds the *http.Request D's handler sees: either the client's
// own request object (clone, with the transit edits applied) or what net/http
// parses from the serialised bytes. A non-nil error means D's HTTP layer
// would have rejected the bytes before any handler ran.
func (f *flight) materialise(wire bool) (*http.Request, error) {
	if wire {
		var buf bytes.Buffer
		fmt.Fprintf(&buf, "%s %s HTTP/1.1\r\nHost: %s\r\n", f.method, f.uri, f.host)
		for _, h := range f.hdr {
			fmt.Fprintf(&buf, "%s: %s\r\n", h.name, h.val)
		}
		sent := f.body
		if f.chunked && f.errAfter < 0 {
			// the same bytes, framed as two chunks and the terminating one
			buf.WriteString("Transfer-Encoding: chunked\r\n\r\n")
			cut := len(f.body) / 2
			for _, part := range [][]byte{f.body[:cut], f.body[cut:]} {
				if len(part) > 0 {
					fmt.Fprintf(&buf, "%x\r\n%s\r\n", len(part), part)
				}
			}
			buf.WriteString("0\r\n\r\n")
			return http.ReadRequest(bufio.NewReader(&buf))
		}
		if f.hasBody || len(f.body) > 0 {
			fmt.Fprintf(&buf, "Content-Length: %d\r\n", len(f.body))
			if f.errAfter >= 0 && f.errAfter < len(f.body) {
				sent = f.body[:f.errAfter]
			}
		}
		buf.WriteString("\r\n")
		buf.Write(sent)
		return http.ReadRequest(bufio.NewReader(&buf))
	}
	req := f.orig.Clone(context.Background())
	req.Method = f.method
	if f.uri != f.origURI {
		u, err := url.ParseRequestURI(f.uri)
		if err != nil {
			return nil, err
		}
		nu := *req.URL
		nu.Path, nu.RawPath, nu.RawQuery, nu.ForceQuery, nu.Opaque = u.Path, u.RawPath, u.RawQuery, u.ForceQuery, u.Opaque
		req.URL = &nu
	}
	if f.host != req.URL.Host {
		nu := *req.URL
		nu.Host = f.host
		req.URL = &nu
	}
	req.Header = http.Header{}
	for _, h := range f.hdr {
		k := http.CanonicalHeaderKey(h.name)
		req.Header[k] = append(req.Header[k], strings.TrimSpace(h.val))
	}
	switch {
	case f.errAfter >= 0:
		k := f.errAfter
		if k > len(f.body) {
			k = len(f.body)
		}
		req.Body = io.NopCloser(&failingReader{data: f.body[:k]})
		req.ContentLength = int64(len(f.body))
	case f.hasBody || len(f.body) > 0:
		req.Body = io.NopCloser(bytes.NewReader(f.body))
		req.ContentLength = int64(len(f.body))
	default:
		req.Body = http.NoBody // a server never hands a nil Body to a handler
		req.ContentLength = 0
	}
	if f.chunked && f.errAfter < 0 && (f.hasBody || len(f.body) > 0) {
		// what a server hands its handler for a chunked (or HTTP/2 without
		// content-length) request: length unknown
		req.ContentLength = -1
		req.TransferEncoding = []string{"chunked"}
	}
	return req, nil
}

// ---- X-Matrix header model (what HTTPRequest emits) -------------------------

var xmRe = regexp.MustCompile(`^X-Matrix origin="([^"]*)",key="([^"]*)",sig="([^"]*)",destination="([^"]*)"$`)

type xm struct{ origin, key, sig, dest string }

type xmStyle struct {
	scheme string
	gap    string
	comma  string
	eq     string
	quote  bool
	order  []string
	extra  string
	trail  string
}

func defaultStyle() xmStyle {
	return xmStyle{scheme: "X-Matrix", gap: " ", comma: ",", eq: "=", quote: true, order: []string{"origin", "key", "sig", "destination"}}
}

func (x xm) render(st xmStyle) string {
	var parts []string
	for _, n := range st.order {
		var v string
		switch n {
		case "origin":
			v = x.origin
		case "key":
			v = x.key
		case "sig":
			v = x.sig
		case "destination":
			v = x.dest
		}
		if st.quote {
			v = `"` + v + `"`
		}
		parts = append(parts, n+st.eq+v)
	}
	if st.extra != "" {
		parts = append(parts, st.extra)
	}
	return st.scheme + st.gap + strings.Join(parts, st.comma) + st.trail
}

func isAuth(h hline) bool { return strings.EqualFold(h.name, "Authorization") }

// xmLines returns the indexes of the X-Matrix Authorization lines and their
// parsed parameters; ok is false if a line is not in the emitted format.
func (f *flight) xmLines() (idx []int, ps []xm, ok bool) {
	ok = true
	for i, h := range f.hdr {
		if !isAuth(h) || !strings.HasPrefix(h.val, "X-Matrix ") {
			continue
		}
		m := xmRe.FindStringSubmatch(h.val)
		if m == nil {
			ok = false
			continue
		}
		idx = append(idx, i)
		ps = append(ps, xm{m[1], m[2], m[3], m[4]})
	}
	if len(idx) == 0 {
		ok = false
	}
	return
}

func (f *flight) insertHdr(at int, h hline) {
	if at < 0 {
		at = 0
	}
	if at > len(f.hdr) {
		at = len(f.hdr)
	}
	f.hdr = append(f.hdr[:at], append([]hline{h}, f.hdr[at:]...)...)
}

func (f *flight) removeHdr(pred func(hline) bool) int {
	out := f.hdr[:0:0]
	n := 0
	for _, h := range f.hdr {
		if pred(h) {
			n++
			continue
		}
		out = append(out, h)
	}
	f.hdr = out
	return n
}

func (f *flight) hasContent() bool { return len(f.body) > 0 }

func swapCase(s string) string {
	b := []byte(s)
	for i, c := range b {
		switch {
		case c >= 'a' && c <= 'z':
			b[i] = c - 32
			return string(b)
		case c >= 'A' && c <= 'Z':
			b[i] = c + 32
			return string(b)
		}
	}
	return s
}

// ---- transformations --------------------------------------------------------

type env struct {
	t       *sim.Tape
	wire    bool
	signed  *signedEntry
	dNames  []string // names D owns
	foreign string   // a valid name D does not own
	third   string   // a third server with keys under the same key ids
	okeys   []string // all key ids O has published
}

// applyBenign applies one transformation after which the request must still
// be accepted. Returns false if nothing applicable was found.
func (f *flight) applyBenign(e *env) bool {
	t := e.t
	for try := 0; try < 4; try++ {
		switch k := (t.Intn(9) + try) % 9; k {
		case 0: // extra unrelated header
			h := sim.Pick(t, []hline{{"X-Forwarded-For", "203.0.113.7"}, {"Via", "1.1 proxy.example"}, {"X-Request-Id", "abc123"}, {"Accept", "*/*"}, {"Cookie", "a=b"}})
			f.insertHdr(t.Intn(len(f.hdr)+1), h)
			f.add(mark{class: benign, kind: "extra_header"})
			return true
		case 1, 2: // a second Authorization header with another scheme
			v := sim.Pick(t, []string{"Bearer x", "Basic dXNlcjpwYXNz", "Bearer syt_YWxpY2U_abc", "X-Matrix-Other origin=\"nobody.example\",key=\"ed25519:1\",sig=\"AAAA\"", "Negotiate"})
			first, last := -1, -1
			for i, h := range f.hdr {
				if isAuth(h) {
					if first < 0 {
						first = i
					}
					last = i
				}
			}
			if first < 0 {
				continue
			}
			if k == 1 {
				f.insertHdr(first, hline{"Authorization", v})
				f.add(mark{class: benign, kind: "other_auth_before"})
			} else {
				f.insertHdr(last+1, hline{"Authorization", v})
				f.add(mark{class: benign, kind: "other_auth_after"})
			}
			return true
		case 3: // header-name case (only visible on the wire)
			if !e.wire {
				continue
			}
			up := t.Bool()
			for i := range f.hdr {
				if up {
					f.hdr[i].name = strings.ToUpper(f.hdr[i].name)
				} else {
					f.hdr[i].name = strings.ToLower(f.hdr[i].name)
				}
			}
			f.add(mark{class: benign, kind: "header_name_case"})
			return true
		case 4: // header order on the wire
			if !e.wire || len(f.hdr) < 2 {
				continue
			}
			for i, j := 0, len(f.hdr)-1; i < j; i, j = i+1, j-1 {
				f.hdr[i], f.hdr[j] = f.hdr[j], f.hdr[i]
			}
			f.add(mark{class: benign, kind: "header_order"})
			return true
		case 5: // the body framed without a declared length: HTTP framing is not among the things signed
			if f.chunked || f.errAfter >= 0 || !(f.hasBody || len(f.body) > 0) {
				continue
			}
			f.chunked = true
			f.add(mark{class: benign, kind: "body_chunked"})
			return true
		default: // whitespace the credentials grammar allows
			if f.xmTouched {
				continue
			}
			idx, ps, ok := f.xmLines()
			if !ok {
				continue
			}
			st := defaultStyle()
			kind := ""
			switch t.Intn(4) {
			case 0:
				st.gap = sim.Pick(t, []string{"  ", "   "})
				kind = "ws_after_scheme"
			case 1:
				st.comma = sim.Pick(t, []string{", ", " , ", ",\t", " ,"})
				kind = "ws_around_comma"
			case 2:
				st.eq = sim.Pick(t, []string{" = ", "= ", " ="})
				kind = "ws_around_equals"
			default:
				st.trail = " "
				kind = "ws_trailing"
			}
			for n, i := range idx {
				f.hdr[i].val = ps[n].render(st)
			}
			f.xmTouched = true
			f.add(mark{class: benign, kind: kind})
			return true
		}
	}
	return false
}

// applyNeutral applies one transformation about which the property text is
// silent: only the soundness clause (accepted => fields as signed) applies.
func (f *flight) applyNeutral(e *env) bool {
	t := e.t
	for try := 0; try < 4; try++ {
		switch k := (t.Intn(12) + try) % 12; k {
		case 0, 1, 2, 3, 4, 5:
			if f.xmTouched {
				continue
			}
			idx, ps, ok := f.xmLines()
			if !ok {
				continue
			}
			st := defaultStyle()
			kind := ""
			switch k {
			case 0:
				st.quote = false
				kind = "xm_unquoted"
			case 1:
				st.order = sim.Pick(t, [][]string{{"destination", "origin", "key", "sig"}, {"sig", "key", "origin", "destination"}, {"origin", "destination", "key", "sig"}})
				kind = "xm_param_order"
			case 2:
				st.order = []string{"origin", "key", "sig"}
				kind = "xm_no_destination"
			case 3:
				st.scheme = sim.Pick(t, []string{"x-matrix", "X-MATRIX", "x-Matrix"})
				kind = "xm_scheme_case"
			case 4:
				st.extra = sim.Pick(t, []string{`foo="bar"`, `realm="x"`, `v=1`})
				kind = "xm_extra_param"
			case 5:
				if t.Bool() {
					// a further X-Matrix header naming another key ID O has
					// published, with a signature that does not verify (the
					// genuine one's bytes): the genuine header still stands
					// or falls by its own key
					other := ""
					for _, id := range e.okeys {
						used := false
						for _, p := range ps {
							if p.key == id {
								used = true
							}
						}
						if !used {
							other = id
						}
					}
					if other != "" {
						x := ps[0]
						x.key = other
						h := f.hdr[idx[0]]
						h.val = x.render(defaultStyle())
						at := idx[len(idx)-1] + 1
						if t.Bool() {
							at = idx[0]
						}
						f.insertHdr(at, h)
						f.xmTouched = true
						f.add(mark{class: neutral, kind: "xm_extra_header_for_another_key_id"})
						return true
					}
				}
				// the same credentials twice
				f.insertHdr(idx[len(idx)-1]+1, f.hdr[idx[0]])
				f.xmTouched = true
				f.add(mark{class: neutral, kind: "xm_duplicate_identical"})
				return true
			}
			for n, i := range idx {
				f.hdr[i].val = ps[n].render(st)
			}
			f.xmTouched = true
			f.add(mark{class: neutral, kind: kind})
			return true
		case 6, 7: // body re-serialised / duplicate member added
			if f.bodyTouch || !f.hasContent() {
				continue
			}
			if k == 6 {
				nb, how := reserialise(t, f.body)
				if nb == nil {
					continue
				}
				f.body = nb
				f.bodyTouch = true
				f.add(mark{class: neutral, kind: "body_reserialise_" + how})
				return true
			}
			if f.body[0] != '{' || len(f.body) < 3 {
				continue
			}
			// repeat the first member name with another value in front: the
			// last occurrence (the signed one) wins for most parsers.
			// find the first member name by scanning the JSON string token
			if f.body[1] != '"' {
				continue
			}
			j := 2
			for j < len(f.body) && f.body[j] != '"' {
				if f.body[j] == '\\' {
					j++
				}
				j++
			}
			if j >= len(f.body) {
				continue
			}
			first := string(f.body[1 : j+1])
			nb := []byte("{" + first + ":\"dup\"," + string(f.body[1:]))
			if !strictSameJSON(nb, f.body) {
				continue
			}
			f.body = nb
			f.bodyTouch = true
			f.add(mark{class: neutral, kind: "body_duplicate_member"})
			return true
		case 8: // Content-Type spelled with parameters / other case
			if f.ctTouched || !f.hasContent() {
				continue
			}
			done := false
			for i := range f.hdr {
				if strings.EqualFold(f.hdr[i].name, "Content-Type") {
					f.hdr[i].val = sim.Pick(t, []string{"application/json; charset=utf-8", "Application/JSON", "application/json;charset=UTF-8", "application/json ; q=1"})
					done = true
				}
			}
			if !done {
				continue
			}
			f.ctTouched = true
			f.add(mark{class: neutral, kind: "content_type_params"})
			return true
		case 9: // Host / URL authority rewritten (routing data, not signed)
			f.host = e.foreign
			f.add(mark{class: neutral, kind: "host_rewritten"})
			return true
		case 10: // non-JSON Content-Type on a request without body
			if f.ctTouched || f.hasContent() {
				continue
			}
			f.removeHdr(func(h hline) bool { return strings.EqualFold(h.name, "Content-Type") })
			f.hdr = append(f.hdr, hline{"Content-Type", "text/plain"})
			f.ctTouched = true
			f.add(mark{class: neutral, kind: "content_type_without_body"})
			return true
		default: // the stream fails after the complete body was delivered
			if e.wire || f.errAfter >= 0 {
				continue
			}
			f.errAfter = len(f.body)
			f.add(mark{class: neutral, kind: "stream_error_after_full_body"})
			return true
		}
	}
	return false
}

func replaceOne(b []byte, i int, c byte) []byte {
	out := append([]byte{}, b...)
	out[i] = c
	return out
}

// applyFault applies exactly one single-field fault. Returns false if none
// was applicable.
func (f *flight) applyFault(e *env) bool {
	t := e.t
	sg := e.signed
	for try := 0; try < 6; try++ {
		switch k := (t.Intn(16) + try) % 16; k {
		case 0: // method
			alts := []string{"GET", "PUT", "POST", "DELETE", "PATCH", "HEAD", strings.ToLower(f.method), "OPTIONS"}
			m := sim.Pick(t, alts)
			if m == f.method {
				m = "PATCH"
			}
			if !f.bodyTouch && f.hasContent() && t.Chance(300) {
				// ... and the signed method and request-target smuggled in behind
				// the body, as members of whatever object the receiver builds
				// around it: the body is no longer one JSON value, and what was
				// signed is still not what is being asked
				signedMethod, _ := json.Marshal(f.method)
				signedURI, _ := json.Marshal(f.origURI)
				f.body = append(append([]byte{}, f.body...), []byte(`,"method":`+string(signedMethod)+`,"uri":`+string(signedURI))...)
				f.bodyTouch = true
				f.method = m
				f.add(mark{class: fault, kind: "method_with_signed_values_behind_the_body", oracle: "refuse_tamper", codes: []int{400, 401}})
				return true
			}
			f.method = m
			f.add(mark{class: fault, kind: "method", oracle: "refuse_tamper", codes: []int{401}})
			return true
		case 1, 2: // path / query
			if f.uriKind != "" {
				continue
			}
			nu, how := mutateURI(t, f.uri, k == 2)
			if nu == f.uri {
				continue
			}
			f.uri = nu
			f.uriKind = how // classified at delivery: fault iff the effective request URI differs
			return true
		case 3: // one body byte
			if f.bodyTouch || !f.hasContent() {
				continue
			}
			i := t.Intn(len(f.body))
			c := f.body[i] ^ byte(1<<uint(t.Intn(7)))
			nb := replaceOne(f.body, i, c)
			f.bodyTouch = true
			f.body = nb
			if strictSameJSON(nb, sg.body) {
				f.add(mark{class: neutral, kind: "body_byte_same_value"})
			} else {
				f.add(mark{class: fault, kind: "body_byte", oracle: "refuse_tamper", codes: []int{400, 401}})
			}
			return true
		case 4: // one body member
			if f.bodyTouch || !f.hasContent() {
				continue
			}
			nb, how := editMember(t, f.body)
			if nb == nil || strictSameJSON(nb, sg.body) {
				continue
			}
			f.body = nb
			f.bodyTouch = true
			f.add(mark{class: fault, kind: "body_" + how, oracle: "refuse_tamper", codes: []int{401}})
			return true
		case 5: // body added / removed / cut short
			if f.bodyTouch {
				continue
			}
			f.bodyTouch = true
			if !f.hasContent() {
				f.body = []byte(sim.Pick(t, []string{"{}", `{"a":1}`, "null", "[]"}))
				f.hasBody = true
				if t.Bool() {
					f.removeHdr(func(h hline) bool { return strings.EqualFold(h.name, "Content-Type") })
					f.hdr = append(f.hdr, hline{"Content-Type", "application/json"})
				}
				f.add(mark{class: fault, kind: "body_added", oracle: "refuse_tamper", codes: []int{400, 401}})
				return true
			}
			if t.Chance(250) && len(f.body) > 2 && f.body[0] == '{' && f.body[len(f.body)-1] == '}' && f.body[1] == '"' {
				// the first member's name once more at the END of the object,
				// with another value: readers that keep the last occurrence
				// (encoding/json, i.e. the handlers the body is meant for) see
				// a body that was not signed
				j := 2
				for j < len(f.body) && f.body[j] != '"' {
					if f.body[j] == '\\' {
						j++
					}
					j++
				}
				if j < len(f.body) {
					first := string(f.body[1 : j+1])
					f.body = []byte(string(f.body[:len(f.body)-1]) + "," + first + ":" + sim.Pick(t, []string{`"injected"`, "1000", `{"admin":true}`, "null"}) + "}")
					f.add(mark{class: fault, kind: "body_member_repeated_at_the_end", oracle: "refuse_tamper", codes: []int{400, 401}})
					return true
				}
			}
			if t.Chance(300) {
				// the signed value followed by something else: not the body
				// that was signed, and not one JSON value either
				f.body = append(append([]byte{}, f.body...), sim.Pick(t, []string{`{"extra":1}`, " garbage", `,"x":1}`, "\n" + string(f.body), "]", "0"})...)
				f.add(mark{class: fault, kind: "body_trailing_data", oracle: "refuse_tamper", codes: []int{400, 401}})
				return true
			}
			if t.Bool() || len(f.body) < 2 {
				f.body = nil
				f.add(mark{class: fault, kind: "body_removed", oracle: "refuse_tamper", codes: []int{401}})
				return true
			}
			f.body = f.body[:t.Range(1, len(f.body)-1)]
			f.add(mark{class: fault, kind: "body_short", oracle: "refuse_tamper", codes: []int{400, 401}})
			return true
		case 6, 7, 8, 9: // origin / destination / key / sig parameter
			if f.xmTouched {
				continue
			}
			idx, ps, ok := f.xmLines()
			if !ok {
				continue
			}
			kind := ""
			codes := []int{401}
			newOrigin := ""
			for n := range ps {
				p := &ps[n]
				switch k {
				case 6:
					if n == 0 {
						newOrigin = sim.Pick(t, []string{e.third, swapCase(p.origin), e.dNames[0], p.origin + ".", "x" + p.origin})
						if newOrigin == p.origin {
							newOrigin = e.third
						}
					}
					p.origin = newOrigin
					kind, codes = "xm_origin", []int{401, 400}
				case 7:
					alts := []string{e.foreign, swapCase(p.dest), p.dest + ".", e.third}
					for _, d := range e.dNames {
						if d != p.dest {
							alts = append(alts, d, d)
						}
					}
					v := alts[0]
					if n == 0 {
						v = sim.Pick(t, alts)
					} else {
						v = ps[0].dest
					}
					if v == p.dest {
						v = e.foreign
					}
					p.dest = v
					kind, codes = "xm_destination", []int{401, 400}
				case 8:
					alts := []string{"ed25519:nonexistent", "rsa:1", swapCase(p.key), p.key + "0"}
					for _, id := range e.okeys {
						if id != p.key {
							alts = append(alts, id, id)
						}
					}
					v := sim.Pick(t, alts)
					if v == p.key {
						v = "ed25519:nonexistent"
					}
					p.key = v
					kind = "xm_key"
				case 9:
					switch t.Intn(4) {
					case 0, 1: // another base64 character at a position that cannot be padding bits
						if len(p.sig) < 4 {
							p.sig = "AAAA"
							break
						}
						i := t.Intn(len(p.sig) - 2)
						c := byte('A')
						if p.sig[i] == 'A' {
							c = 'B'
						}
						p.sig = string(replaceOne([]byte(p.sig), i, c))
					case 2:
						if len(p.sig) < 8 {
							p.sig = "AAAA"
							break
						}
						p.sig = p.sig[:len(p.sig)-4]
					default: // a well-formed signature of something else
						p.sig = strings.Repeat("A", 86)
					}
					kind = "xm_sig"
				}
			}
			if t.Chance(250) {
				// instead of replacing the parameter, say it twice: the genuine
				// value where it was and the other value after all four
				// parameters (a parameter may occur once; a header that names
				// two origins, destinations, keys or signatures is malformed)
				name := map[int]string{6: "origin", 7: "destination", 8: "key", 9: "sig"}[k]
				for n, i := range idx { // every X-Matrix header: one intact signature would be enough
					val := map[int]string{6: ps[n].origin, 7: ps[n].dest, 8: ps[n].key, 9: ps[n].sig}[k]
					f.hdr[i].val = f.hdr[i].val + "," + name + "=\"" + val + "\""
				}
				f.xmTouched = true
				f.add(mark{class: fault, kind: "xm_parameter_twice_" + name, oracle: "refuse_header", codes: []int{400, 401}})
				return true
			}
			for n, i := range idx {
				f.hdr[i].val = ps[n].render(defaultStyle())
			}
			f.xmTouched = true
			f.add(mark{class: fault, kind: kind, oracle: "refuse_tamper", codes: codes})
			return true
		case 10: // header absent
			if f.xmTouched {
				continue
			}
			n := f.removeHdr(func(h hline) bool { return isAuth(h) && strings.HasPrefix(h.val, "X-Matrix ") })
			if n == 0 {
				continue
			}
			f.xmTouched = true
			f.add(mark{class: fault, kind: "xm_absent", oracle: "refuse_header", codes: []int{401}})
			return true
		case 11: // header malformed
			if f.xmTouched {
				continue
			}
			idx, ps, ok := f.xmLines()
			if !ok {
				continue
			}
			kind := ""
			codes := []int{400}
			sub := t.Intn(9)
			for n, i := range idx {
				p := ps[n]
				st := defaultStyle()
				switch sub {
				case 0:
					st.order = []string{"key", "sig", "destination"}
					kind = "xm_missing_origin"
				case 1:
					st.order = []string{"origin", "sig", "destination"}
					kind = "xm_missing_key"
				case 2:
					st.order = []string{"origin", "key", "destination"}
					kind = "xm_missing_sig"
				case 3:
					st.gap = ""
					kind, codes = "xm_no_scheme_separator", []int{401, 400}
				case 4:
					st.gap = "\t"
					kind, codes = "xm_tab_scheme_separator", []int{401, 400}
				case 5:
					f.hdr[i].val = "X-Matrix"
					kind = "xm_scheme_only"
					continue
				case 6:
					f.hdr[i].val = "X-Matrix " + sim.Pick(t, []string{"garbage", "AAAAAAAAAAAA==", "origin", "=,=,="})
					kind = "xm_garbage"
					continue
				case 7:
					st.comma = ";"
					kind = "xm_semicolons"
				default:
					switch t.Intn(3) {
					case 0:
						p.origin = ""
						kind = "xm_empty_origin"
					case 1:
						p.key = ""
						kind = "xm_empty_key"
					default:
						p.sig = ""
						kind = "xm_empty_sig"
					}
				}
				f.hdr[i].val = p.render(st)
			}
			f.xmTouched = true
			f.add(mark{class: fault, kind: kind, oracle: "refuse_header", codes: codes})
			return true
		case 12: // a second X-Matrix header naming a different origin
			if f.xmTouched {
				continue
			}
			idx, ps, ok := f.xmLines()
			if !ok {
				continue
			}
			p := ps[0]
			p.origin = e.third
			at := idx[0]
			if t.Bool() {
				at = idx[len(idx)-1] + 1
			}
			f.insertHdr(at, hline{f.hdr[idx[0]].name, p.render(defaultStyle())})
			f.xmTouched = true
			f.add(mark{class: fault, kind: "xm_duplicate_other_origin", oracle: "refuse_header", codes: []int{400}})
			return true
		case 13: // origin rewritten to an invalid server name
			if f.xmTouched {
				continue
			}
			idx, ps, ok := f.xmLines()
			if !ok {
				continue
			}
			bad := sim.Pick(t, invalidNames)
			for n, i := range idx {
				p := ps[n]
				p.origin = bad
				f.hdr[i].val = p.render(defaultStyle())
			}
			f.xmTouched = true
			f.add(mark{class: fault, kind: "xm_origin_invalid", oracle: "refuse_invalid_origin", codes: []int{400}})
			return true
		case 14: // Content-Type not JSON / absent, body not UTF-8
			if !f.hasContent() {
				continue
			}
			if t.Intn(3) == 0 {
				if f.bodyTouch {
					continue
				}
				// overwrite one byte inside the body with a byte that can
				// never occur in UTF-8
				i := t.Intn(len(f.body))
				nb := replaceOne(f.body, i, sim.Pick(t, []byte{0xFF, 0xC0, 0xFE, 0x80}))
				if utf8.Valid(nb) {
					continue
				}
				f.body = nb
				f.bodyTouch = true
				f.add(mark{class: fault, kind: "body_not_utf8", oracle: "refuse_body_format", codes: []int{400}})
				return true
			}
			if f.ctTouched {
				continue
			}
			f.ctTouched = true
			if t.Intn(3) == 0 {
				f.removeHdr(func(h hline) bool { return strings.EqualFold(h.name, "Content-Type") })
				f.add(mark{class: fault, kind: "content_type_absent", oracle: "refuse_body_format", codes: []int{400}})
				return true
			}
			v := sim.Pick(t, []string{"text/plain", "application/x-www-form-urlencoded", "application/jsonx", "application/octet-stream", "text/json", "application/json+ld", "application", "json"})
			f.removeHdr(func(h hline) bool { return strings.EqualFold(h.name, "Content-Type") })
			f.hdr = append(f.hdr, hline{"Content-Type", v})
			f.add(mark{class: fault, kind: "content_type_wrong", oracle: "refuse_body_format", codes: []int{400}})
			return true
		default: // the body stream breaks before the body is complete
			if !f.hasContent() || f.errAfter >= 0 {
				continue
			}
			f.errAfter = t.Intn(len(f.body))
			f.add(mark{class: fault, kind: "conn_reset_mid_body", oracle: "refuse_body_format", codes: []int{400}})
			return true
		}
	}
	return false
}
