// keysim: key servers, notaries, a key database and the real KeyRing /
// DirectKeyFetcher / PerspectiveKeyFetcher under a seeded schedule and fault
// plan. Properties C12, C06 and C19 (key-ring half).
package keysim

import (
	"context"
	"encoding/json"
	"errors"
	"fmt"
	"runtime"
	"sort"
	"strings"
	"sync"
	"sync/atomic"
	"time"

	gmsl "github.com/matrix-org/gomatrixserverlib"
	"github.com/matrix-org/gomatrixserverlib/spec"

	"verifharness/sim"
	"verifharness/world"
)

type pair = gmsl.PublicKeyLookupRequest
type entry = gmsl.PublicKeyLookupResult

func pairStr(p pair) string { return string(p.ServerName) + "/" + string(p.KeyID) }

func entStr(e entry) string {
	k := []byte(e.Key)
	if len(k) > 4 {
		k = k[:4]
	}
	return fmt.Sprintf("{key=%x.. vu=%d exp=%d}", k, e.ValidUntilTS, e.ExpiredTS)
}

func sortedPairs[V any](m map[pair]V) []pair {
	ps := make([]pair, 0, len(m))
	for p := range m {
		ps = append(ps, p)
	}
	sort.Slice(ps, func(i, j int) bool { return pairStr(ps[i]) < pairStr(ps[j]) })
	return ps
}

func sameEntry(a, b entry) bool {
	return string(a.Key) == string(b.Key) && a.ValidUntilTS == b.ValidUntilTS && a.ExpiredTS == b.ExpiredTS
}

// ---- per-call record -------------------------------------------------------

type srcCall struct {
	name string
	req  map[pair]spec.Timestamp
	res  map[pair]entry
	err  error
	at   time.Time // simulated instant of the answer
}

type callRec struct {
	task    string
	n       int
	mu      sync.Mutex
	db      *srcCall
	fetch   []*srcCall
	stored  []map[pair]entry
	storeEr error
	start   time.Time
	out     atomic.Int32 // key-client calls in flight
	// the caller's context may be cancelled while fetches are in flight
	cancellable bool
	// grants: per key-client request of this call, the time its context still
	// had when the request went out, how long the server took, and whether the
	// context ran out first
	grants []grant
}

type grant struct {
	kind    string // get | lookup
	server  spec.ServerName
	given   time.Duration // deadline minus the instant the request went out (valid only if bounded)
	bounded bool
	lat     time.Duration
	expired bool
	at      time.Time     // when the library made the call
	waited  time.Duration // from then to the failure (simulated time may also pass while the request is parked)
}

func (r *callRec) grant(g grant) {
	if r == nil {
		return
	}
	r.mu.Lock()
	r.grants = append(r.grants, g)
	r.mu.Unlock()
}

func grantOf(ctx context.Context, kind string, server spec.ServerName, lat time.Duration) grant {
	g := grant{kind: kind, server: server, lat: lat, at: time.Now()}
	if dl, ok := ctx.Deadline(); ok {
		g.given, g.bounded = time.Until(dl), true
	}
	return g
}

type recKey struct{}

func recOf(ctx context.Context) *callRec {
	r, _ := ctx.Value(recKey{}).(*callRec)
	return r
}

func copyReq(m map[pair]spec.Timestamp) map[pair]spec.Timestamp {
	o := make(map[pair]spec.Timestamp, len(m))
	for k, v := range m {
		o[k] = v
	}
	return o
}

func copyRes(m map[pair]entry) map[pair]entry {
	o := make(map[pair]entry, len(m))
	for k, v := range m {
		o[k] = v
	}
	return o
}

// ---- world -----------------------------------------------------------------

type kworld struct {
	r       *sim.Run
	s       *sim.Sched
	led     *world.Ledger
	origins []*world.Server
	notary  []*world.Server
	local   *world.Server
	rogue   *world.Server // an attacker identity whose keys nobody published for others
	db      *simDB
	client  *simClient
	latency bool
	mu      sync.Mutex
}

func (w *kworld) srv(name spec.ServerName) *world.Server { return w.led.Servers[name] }

// ---- database --------------------------------------------------------------

// simDB is the KeyDatabase seam: a map with a durable and a volatile half.
// StoreKeys may fail or store only part of what it is given (the interface
// allows it); a restart of the verifying node keeps only the durable half.
type simDB struct {
	w        *kworld
	mu       sync.Mutex
	durable  map[pair]entry
	volatile map[pair]entry
	errRate  int // permille of calls that fail
	partial  int // permille of stores that store only part
	superset bool
	calls    int
}

func (d *simDB) FetcherName() string { return "simDB" }

func (d *simDB) get(p pair) (entry, bool) {
	if e, ok := d.volatile[p]; ok {
		return e, true
	}
	e, ok := d.durable[p]
	return e, ok
}

// snapshot returns what the database currently holds.
func (d *simDB) snapshot() map[pair]entry {
	d.mu.Lock()
	defer d.mu.Unlock()
	out := map[pair]entry{}
	for p, e := range d.durable {
		out[p] = e
	}
	for p, e := range d.volatile {
		out[p] = e
	}
	return out
}

func (d *simDB) FetchKeys(ctx context.Context, reqs map[pair]spec.Timestamp) (map[pair]entry, error) {
	task := sim.TaskName(ctx)
	rec := recOf(ctx)
	d.w.s.Yield(task, fmt.Sprintf("db.fetch#%d", recN(rec)))
	d.mu.Lock()
	defer d.mu.Unlock()
	d.calls++
	sc := &srcCall{name: "db", req: copyReq(reqs), at: time.Now()}
	if rec != nil {
		rec.mu.Lock()
		rec.db = sc
		rec.mu.Unlock()
	}
	if d.w.r.T.Chance(d.errRate) {
		d.w.r.Fault("db_error")
		sc.err = errors.New("simdb: fetch failed")
		d.w.r.Logf("  db.fetch[%s] -> error", task)
		return nil, sc.err
	}
	out := map[pair]entry{}
	for _, p := range sortedPairs(reqs) {
		if e, ok := d.get(p); ok {
			out[p] = e
		}
	}
	if d.superset { // buggify: a database may return more than asked
		for _, p := range sortedPairs(d.durable) {
			if _, ok := out[p]; !ok && d.w.r.T.Chance(300) {
				out[p] = d.durable[p]
				d.w.r.Probe("db_returned_superset")
			}
		}
	}
	sc.res = copyRes(out)
	d.w.r.Logf("  db.fetch[%s] %d asked -> %d", task, len(reqs), len(out))
	return out, nil
}

func recN(r *callRec) int {
	if r == nil {
		return -1
	}
	return r.n
}

func (d *simDB) StoreKeys(ctx context.Context, res map[pair]entry) error {
	task := sim.TaskName(ctx)
	rec := recOf(ctx)
	d.w.s.Yield(task, fmt.Sprintf("db.store#%d", recN(rec)))
	d.mu.Lock()
	defer d.mu.Unlock()
	if rec != nil {
		rec.mu.Lock()
		rec.stored = append(rec.stored, copyRes(res))
		rec.mu.Unlock()
	}
	if d.w.r.T.Chance(d.errRate) {
		d.w.r.Fault("db_error")
		err := errors.New("simdb: store failed")
		if rec != nil {
			rec.storeEr = err
		}
		d.w.r.Logf("  db.store[%s] -> error", task)
		return err
	}
	n := 0
	for _, p := range sortedPairs(res) {
		if d.w.r.T.Chance(d.partial) {
			d.w.r.Fault("db_partial_store")
			continue
		}
		if d.w.r.T.Chance(200) {
			d.durable[p] = res[p]
			delete(d.volatile, p)
		} else {
			d.volatile[p] = res[p]
		}
		n++
	}
	d.w.r.Logf("  db.store[%s] %d given, %d kept", task, len(res), n)
	return nil
}

// restart drops what was not durable.
func (d *simDB) restart() {
	d.mu.Lock()
	n := len(d.volatile)
	d.volatile = map[pair]entry{}
	d.mu.Unlock()
	if n > 0 {
		d.w.r.Fault("db_lost_on_restart")
	}
	d.w.r.Fault("crash_restart")
}

// ---- key client (key servers and notaries) ---------------------------------

type respRec struct {
	// goodForDirect: inadmissible to a perspective fetcher (no pinned notary key
	// signs it) but, to a direct fetcher asking the server about itself, simply
	// what that server says its keys are
	goodForDirect bool
	kind          string // fault kind, "" = honest
	good          bool   // passes the independent admission predicate
	server        spec.ServerName
	keys          gmsl.ServerKeys
}

type simClient struct {
	w         *kworld
	faultRate int
	mu        sync.Mutex
	// what was handed out, by (task, call, what)
	handed map[string][]*respRec
	errs   map[string]error
	// servers whose own key response was handed out, in order (C06: which
	// servers a verification call really re-fetched)
	answered []spec.ServerName
	// C06 only: servers whose GET /key/v2/server fails (the client then asks
	// them through POST /key/v2/query, and gets their genuine response), and a
	// server in whose name such an answer carries one more, self-signed entry
	// under a key of the answering server's making
	directDown  map[spec.ServerName]bool
	forgeVictim *world.Server
	forgeKeyID  gmsl.KeyID
}

func (c *simClient) note(key string, rr ...*respRec) {
	c.mu.Lock()
	c.handed[key] = append(c.handed[key], rr...)
	c.mu.Unlock()
}

func (c *simClient) sleep(ctx context.Context, task, label string, d time.Duration) error {
	if rec := recOf(ctx); rec != nil && rec.cancellable && d > 0 && c.w.r.T.Chance(500) {
		// a server that answers in its own time, whether or not the caller
		// still waits: the answer arrives after the cancellation
		c.w.r.Probe("key_server_answers_after_caller_gave_up")
		return c.w.s.Sleep(nil, task, label, d)
	}
	return c.w.s.Sleep(ctx, task, label, d)
}

func (c *simClient) latency() time.Duration {
	if !c.w.latency {
		return 0
	}
	t := c.w.r.T
	switch t.Weighted([]int{6, 3, 1}) {
	case 0:
		return 0
	case 1:
		return time.Duration(t.Range(1, 3000))*time.Millisecond + 137*time.Microsecond
	default:
		c.w.r.Fault("delay_beyond_timeout")
		return 16*time.Second + 137*time.Microsecond
	}
}

// breakSelfSig returns a copy of an honest response in which one verify key
// has been replaced by the rogue key without re-signing (detectable).
func (c *simClient) tamper(s *world.Server, now time.Time) gmsl.ServerKeys {
	honest := s.KeyResponse(now)
	var obj map[string]json.RawMessage
	json.Unmarshal(honest.Raw, &obj)
	var vk map[string]map[string]string
	json.Unmarshal(obj["verify_keys"], &vk)
	ids := make([]string, 0, len(vk))
	for id := range vk {
		ids = append(ids, id)
	}
	sort.Strings(ids)
	if len(ids) == 0 {
		return honest
	}
	vk[ids[0]]["key"] = spec.Base64Bytes(c.w.rogue.Current().Pub).Encode()
	obj["verify_keys"], _ = json.Marshal(vk)
	raw, _ := json.Marshal(obj)
	var sk gmsl.ServerKeys
	json.Unmarshal(raw, &sk)
	return sk
}

// onlyOldKeys builds a response in the server's name that lists no verify key
// (so nothing signs it) and, under old_verify_keys, keys of somebody else's
// making: its genuine key IDs with forged key material and a late expiry.
func (c *simClient) onlyOldKeys(s *world.Server, now time.Time) gmsl.ServerKeys {
	old := map[string]any{}
	for _, k := range s.Keys {
		old[string(k.ID)] = map[string]any{"key": spec.Base64Bytes(c.w.rogue.Current().Pub).Encode(), "expired_ts": spec.AsTimestamp(now.Add(1000 * time.Hour))}
	}
	obj := map[string]any{"server_name": string(s.Name), "valid_until_ts": spec.AsTimestamp(now.Add(24 * time.Hour)), "old_verify_keys": old}
	if c.w.r.T.Bool() {
		obj["verify_keys"] = map[string]any{}
	}
	raw, _ := json.Marshal(obj)
	var sk gmsl.ServerKeys
	json.Unmarshal(raw, &sk)
	return sk
}

// bothMaps builds the server's genuine key response as of now, except that
// every retired key is listed under verify_keys as well (and signs the
// response) besides its entry under old_verify_keys.
func (c *simClient) bothMaps(s *world.Server, now time.Time) (gmsl.ServerKeys, bool) {
	f := gmsl.ServerKeyFields{ServerName: s.Name, VerifyKeys: map[gmsl.KeyID]gmsl.VerifyKey{}, OldVerifyKeys: map[gmsl.KeyID]gmsl.OldVerifyKey{},
		ValidUntilTS: spec.AsTimestamp(now.Add(s.ValidFor))}
	retired := false
	for _, k := range s.Keys {
		if k.From.After(now) {
			continue
		}
		f.VerifyKeys[k.ID] = gmsl.VerifyKey{Key: spec.Base64Bytes(k.Pub)}
		if !k.Current() && !k.ExpiredAt.After(now) {
			f.OldVerifyKeys[k.ID] = gmsl.OldVerifyKey{VerifyKey: gmsl.VerifyKey{Key: spec.Base64Bytes(k.Pub)}, ExpiredTS: spec.AsTimestamp(k.ExpiredAt)}
			retired = true
		}
	}
	if !retired || s.OmitValidUntil {
		return gmsl.ServerKeys{}, false
	}
	raw, err := json.Marshal(f)
	if err != nil {
		return gmsl.ServerKeys{}, false
	}
	for _, k := range s.Keys {
		if _, ok := f.VerifyKeys[k.ID]; ok {
			if raw, err = gmsl.SignJSON(string(s.Name), k.ID, k.Priv, raw); err != nil {
				return gmsl.ServerKeys{}, false
			}
		}
	}
	var sk gmsl.ServerKeys
	if json.Unmarshal(raw, &sk) != nil {
		return gmsl.ServerKeys{}, false
	}
	return sk, true
}

// respond produces what server `name` (or somebody answering in its place)
// returns to a direct key request, with a tape-chosen fault.
func (c *simClient) respond(name spec.ServerName) (*respRec, error) {
	t := c.w.r.T
	s := c.w.srv(name)
	now := time.Now()
	if s == nil {
		c.w.r.Fault("conn_refused")
		return nil, errors.New("simnet: no such host")
	}
	if !t.Chance(c.faultRate) {
		if c.faultRate > 0 && t.Chance(80) {
			if k, ok := c.bothMaps(s, now); ok {
				// Not a fault: a server that still lists a retired key among its
				// verify keys (and signs with it) while also naming it, with its
				// expiry, under old_verify_keys. A key with an expired_ts is an
				// expired key, wherever else it is listed.
				c.w.r.Probe("response_lists_retired_key_in_both_maps")
				return &respRec{kind: "retired_key_in_both_maps", good: true, server: name, keys: k}, nil
			}
		}
		return &respRec{good: true, server: name, keys: s.KeyResponse(now)}, nil
	}
	switch t.Intn(7) {
	case 5: // no verify key signs the response: only retired keys are listed
		c.w.r.Fault("response_without_verify_keys")
		return &respRec{kind: "no_verify_keys", server: name, keys: c.onlyOldKeys(s, now)}, nil
	case 0:
		c.w.r.Fault("conn_refused")
		return nil, errors.New("simnet: connection refused")
	case 1: // another server's (valid) response
		o := sim.Pick(t, c.w.origins)
		if o.Name == name {
			return &respRec{good: true, server: name, keys: s.KeyResponse(now)}, nil
		}
		c.w.r.Fault("wrong_server_response")
		return &respRec{kind: "wrong_server", server: o.Name, keys: o.KeyResponse(now)}, nil
	case 2:
		c.w.r.Fault("tampered_response")
		return &respRec{kind: "tampered", server: name, keys: c.tamper(s, now)}, nil
	case 3: // an old (already lapsed) but honest response: fetchers accept these
		c.w.r.Fault("expired_response")
		old := now.Add(-s.ValidFor - time.Duration(t.Range(1, 100))*time.Hour)
		if old.Before(s.Keys[0].From) {
			old = s.Keys[0].From
		}
		return &respRec{kind: "stale", good: true, server: name, keys: s.KeyResponse(old)}, nil
	case 4: // valid_until_ts = 0: never valid
		c.w.r.Fault("zero_valid_until")
		save := s.ValidFor
		s.ValidFor = -time.Since(time.Unix(0, 0))
		k := s.KeyResponse(now)
		s.ValidFor = save
		return &respRec{kind: "zero_valid_until", server: name, keys: k}, nil
	default:
		c.w.r.Fault("http_status")
		return nil, errors.New("simnet: HTTP 500")
	}
}

func (c *simClient) GetServerKeys(ctx context.Context, name spec.ServerName) (gmsl.ServerKeys, error) {
	task := sim.TaskName(ctx)
	rec := recOf(ctx)
	label := fmt.Sprintf("get#%d:%s", recN(rec), name)
	if rec != nil {
		rec.out.Add(1)
		defer rec.out.Add(-1)
	}
	g := grantOf(ctx, "get", name, 0) // what the library granted this request, before anything else happens
	c.w.s.Yield(task, label)
	lat := c.latency()
	g.lat = lat
	if err := ctx.Err(); err != nil {
		// a real HTTP client does not even start a request whose context has ended
		c.w.r.Fault("ctx_done_before_request")
		c.note(task+"|"+label, &respRec{kind: "error"})
		g.expired, g.waited = true, time.Since(g.at)
		rec.grant(g)
		return gmsl.ServerKeys{}, err
	}
	if err := c.sleep(ctx, task, label, lat); err != nil {
		c.w.r.Fault("timeout")
		c.w.r.Logf("  %s[%s] -> %v", label, task, err)
		c.note(task+"|"+label, &respRec{kind: "error"})
		g.expired, g.waited = true, time.Since(g.at)
		rec.grant(g)
		return gmsl.ServerKeys{}, err
	}
	rec.grant(g)
	if c.directDown[name] {
		c.w.r.Fault("direct_key_fetch_fails_query_answers")
		c.w.r.Logf("  %s[%s] -> HTTP 502", label, task)
		c.note(task+"|"+label, &respRec{kind: "error"})
		return gmsl.ServerKeys{}, errors.New("simnet: HTTP 502")
	}
	rr, err := c.respond(name)
	if err != nil {
		c.w.r.Logf("  %s[%s] -> %v", label, task, err)
		c.note(task+"|"+label, &respRec{kind: "error"})
		return gmsl.ServerKeys{}, err
	}
	c.w.r.Logf("  %s[%s] -> %s response of %s", label, task, orHonest(rr.kind), rr.server)
	c.note(task+"|"+label, rr)
	c.mu.Lock()
	c.answered = append(c.answered, name)
	c.mu.Unlock()
	return rr.keys, nil
}

func orHonest(k string) string {
	if k == "" {
		return "honest"
	}
	return k
}

// counterSign adds the notary's signature to a server's response.
func counterSign(n *world.Server, k *world.Key, sk gmsl.ServerKeys) gmsl.ServerKeys {
	raw, err := gmsl.SignJSON(string(n.Name), k.ID, k.Priv, sk.Raw)
	if err != nil {
		panic(err)
	}
	var out gmsl.ServerKeys
	if err := json.Unmarshal(raw, &out); err != nil {
		panic(err)
	}
	return out
}

func (c *simClient) LookupServerKeys(ctx context.Context, via spec.ServerName, reqs map[pair]spec.Timestamp) ([]gmsl.ServerKeys, error) {
	task := sim.TaskName(ctx)
	rec := recOf(ctx)
	label := fmt.Sprintf("lookup#%d:%s", recN(rec), via)
	if calledFromPerspective() {
		// a perspective fetcher asking a notary about the notary itself makes
		// the same query as a direct fetcher's fallback for that server
		label = "p" + label
	}
	if rec != nil {
		rec.out.Add(1)
		defer rec.out.Add(-1)
	}
	if len(reqs) == 1 {
		for p := range reqs {
			label += ":" + string(p.ServerName)
		}
	}
	c.w.s.Yield(task, label)
	key := task + "|" + label
	if err := ctx.Err(); err != nil {
		c.w.r.Fault("ctx_done_before_request")
		c.note(key, &respRec{kind: "error"})
		return nil, err
	}
	if err := c.sleep(ctx, task, label, c.latency()); err != nil {
		c.w.r.Fault("timeout")
		c.note(key, &respRec{kind: "error"})
		c.w.r.Logf("  %s[%s] -> %v", label, task, err)
		return nil, err
	}
	t := c.w.r.T
	n := c.w.srv(via)
	if n == nil || (t.Chance(c.faultRate) && t.Intn(3) == 0) {
		c.w.r.Fault("conn_refused")
		c.note(key, &respRec{kind: "error"})
		c.w.r.Logf("  %s[%s] -> refused", label, task)
		return nil, errors.New("simnet: connection refused")
	}
	names := map[spec.ServerName]bool{}
	for p := range reqs {
		names[p.ServerName] = true
	}
	var order []string
	for nm := range names {
		order = append(order, string(nm))
	}
	sort.Strings(order)
	var out []gmsl.ServerKeys
	var recs []*respRec
	isNotary := false
	for _, x := range c.w.notary {
		if x == n {
			isNotary = true
		}
	}
	for _, nm := range order {
		rr, err := c.respond(spec.ServerName(nm))
		if err != nil {
			continue // the notary has nothing for this server
		}
		if isNotary {
			if rr.kind == "wrong_server" {
				rr.good = true // to a notary client this is simply an extra, genuine response
			}
			// notary faults
			switch {
			case spec.ServerName(nm) == n.Name && t.Chance(3*c.faultRate):
				// asked about itself, the notary answers with a response that is
				// signed - as the server it names - by a key the client never
				// pinned for this notary, and by nothing else: self-signed, yes,
				// but no configured notary key vouches for it. (To a direct
				// fetcher's fallback query it is simply what the server says.)
				c.w.r.Fault("notary_own_response_under_unpinned_key")
				forged := *c.w.rogue.Current()
				forged.ID = "ed25519:unpinned"
				forged.From = time.Unix(0, 0)
				fake := &world.Server{Name: n.Name, Keys: []*world.Key{&forged}, ValidFor: 1000 * time.Hour}
				rr = &respRec{kind: "notary_self_unpinned", server: n.Name, keys: fake.KeyResponse(time.Now()), goodForDirect: true}
			case spec.ServerName(nm) == n.Name:
				// the notary's own genuine response: its self-signature is the
				// notary's signature, so the faults below (which take away or
				// spoil the counter-signature only) would not make it inadmissible
				rr.keys = counterSign(n, n.Keys[0], rr.keys)
			case t.Chance(c.faultRate) && t.Intn(2) == 0:
				c.w.r.Fault("notary_sig_missing")
				rr.kind, rr.good = joinKind(rr.kind, "no_notary_sig"), false
			case t.Chance(c.faultRate):
				c.w.r.Fault("notary_sig_unknown_key")
				rr.keys = counterSign(n, c.w.rogueAs(n), rr.keys)
				rr.kind, rr.good = joinKind(rr.kind, "notary_unknown_key"), false
			case t.Chance(c.faultRate / 2):
				// signed under the key ID the client configured, but not with that key
				c.w.r.Fault("notary_sig_wrong_key")
				forged := *c.w.rogue.Current()
				forged.ID = n.Keys[0].ID
				rr.keys = counterSign(n, &forged, rr.keys)
				rr.kind, rr.good = joinKind(rr.kind, "notary_wrong_key"), false
			case t.Chance(c.faultRate / 2):
				c.w.r.Fault("notary_sig_corrupt")
				rr.keys = counterSign(n, n.Keys[0], rr.keys)
				rr.keys.Raw = flipSignature(t, rr.keys.Raw, string(n.Name), string(n.Keys[0].ID))
				rr.kind, rr.good = joinKind(rr.kind, "notary_sig_corrupt"), false
			case t.Chance(c.faultRate / 4):
				// a response whose signatures member is not an object
				c.w.r.Fault("notary_signatures_malformed")
				var m map[string]json.RawMessage
				if json.Unmarshal(rr.keys.Raw, &m) == nil {
					m["signatures"] = json.RawMessage(`"none"`)
					rr.keys.Raw, _ = json.Marshal(m)
				}
				rr.kind, rr.good = joinKind(rr.kind, "notary_signatures_malformed"), false
			default:
				rr.keys = counterSign(n, n.Keys[0], rr.keys)
			}
		}
		recs = append(recs, rr)
		out = append(out, rr.keys)
	}
	if !isNotary && len(out) > 0 && t.Chance(c.faultRate) {
		// A server asked about itself adds a response that names ANOTHER server,
		// self-signed with a key of its own making (under that server's genuine
		// key ID or a new one). Nobody the client trusts vouches for it: only
		// what the server says about itself may be taken from this answer.
		var cands []*world.Server
		for _, o := range c.w.origins {
			if !names[o.Name] && o != n {
				cands = append(cands, o)
			}
		}
		if len(cands) > 0 {
			o := sim.Pick(t, cands)
			forged := *c.w.rogue.Current()
			forged.ID = sim.Pick(t, []gmsl.KeyID{o.Current().ID, "ed25519:invented"})
			forged.From = time.Unix(0, 0)
			fake := &world.Server{Name: o.Name, Keys: []*world.Key{&forged}, ValidFor: 1000 * time.Hour}
			rr := &respRec{kind: "forged_other_server", server: o.Name, keys: fake.KeyResponse(time.Now())}
			at := t.Intn(len(out) + 1)
			out = append(out[:at], append([]gmsl.ServerKeys{rr.keys}, out[at:]...)...)
			recs = append(recs[:at], append([]*respRec{rr}, recs[at:]...)...)
			c.w.r.Fault("forged_response_for_another_server")
		}
	}
	if v := c.forgeVictim; !isNotary && v != nil && len(out) > 0 && !names[v.Name] && v != n {
		forged := *c.w.rogue.Current()
		forged.ID = c.forgeKeyID
		forged.From = time.Unix(0, 0)
		fake := &world.Server{Name: v.Name, Keys: []*world.Key{&forged}, ValidFor: 1000 * time.Hour}
		rr := &respRec{kind: "forged_other_server", server: v.Name, keys: fake.KeyResponse(time.Now())}
		at := t.Intn(len(out) + 1)
		out = append(out[:at], append([]gmsl.ServerKeys{rr.keys}, out[at:]...)...)
		recs = append(recs[:at], append([]*respRec{rr}, recs[at:]...)...)
		c.w.r.Fault("forged_response_for_another_server")
	}
	if !isNotary {
		for _, rr := range recs {
			if rr.good && rr.server == n.Name {
				// the server's own genuine response reached the client this way
				c.mu.Lock()
				c.answered = append(c.answered, n.Name)
				c.mu.Unlock()
			}
		}
	}
	c.w.r.Logf("  %s[%s] -> %d responses %s", label, task, len(out), kinds(recs))
	if len(recs) == 0 {
		recs = []*respRec{{kind: "none"}}
	}
	c.note(key, recs...)
	return out, nil
}

func joinKind(a, b string) string {
	if a == "" {
		return b
	}
	return a + "+" + b
}

func kinds(rs []*respRec) string {
	s := "["
	for i, r := range rs {
		if i > 0 {
			s += " "
		}
		s += orHonest(r.kind) + ":" + string(r.server)
	}
	return s + "]"
}

// rogueAs returns a key with a key id the notary never configured.
func (w *kworld) rogueAs(n *world.Server) *world.Key {
	k := *w.rogue.Current()
	k.ID = "ed25519:unknown"
	return &k
}

// ---- independent mapping of a key response to lookup results ----------------

// admissible is the independent transcription of "a key response is accepted
// only if it names the server asked for, every ed25519 verify key self-signs
// it, there is at least one ed25519 key and valid_until_ts is in the future
// relative to the `now` given" (the fetchers pass the epoch as now).
// Faults are constructed, so goodness is known by construction (rr.good);
// this function derives the entries a good response denotes.
func entriesOf(sk gmsl.ServerKeys) map[pair]entry {
	out := map[pair]entry{}
	var f struct {
		ServerName   string                       `json:"server_name"`
		VerifyKeys   map[string]map[string]string `json:"verify_keys"`
		ValidUntilTS uint64                       `json:"valid_until_ts"`
		Old          map[string]struct {
			Key       string `json:"key"`
			ExpiredTS uint64 `json:"expired_ts"`
		} `json:"old_verify_keys"`
	}
	if err := json.Unmarshal(sk.Raw, &f); err != nil {
		return out
	}
	dec := func(s string) spec.Base64Bytes {
		var b spec.Base64Bytes
		b.Decode(s)
		return b
	}
	for id, k := range f.VerifyKeys {
		out[pair{ServerName: spec.ServerName(f.ServerName), KeyID: gmsl.KeyID(id)}] = entry{VerifyKey: gmsl.VerifyKey{Key: dec(k["key"])}, ValidUntilTS: spec.Timestamp(f.ValidUntilTS)}
	}
	for id, k := range f.Old {
		out[pair{ServerName: spec.ServerName(f.ServerName), KeyID: gmsl.KeyID(id)}] = entry{VerifyKey: gmsl.VerifyKey{Key: dec(k.Key)}, ExpiredTS: spec.Timestamp(k.ExpiredTS)}
	}
	return out
}

// calledFromPerspective: is a PerspectiveKeyFetcher method on this goroutine's stack?
func calledFromPerspective() bool {
	pcs := make([]uintptr, 24)
	n := runtime.Callers(2, pcs)
	frames := runtime.CallersFrames(pcs[:n])
	for {
		f, more := frames.Next()
		if strings.Contains(f.Function, "PerspectiveKeyFetcher") {
			return true
		}
		if !more {
			return false
		}
	}
}
