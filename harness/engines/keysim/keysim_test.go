package keysim

import (
	"context"
	"crypto/ed25519"
	"encoding/json"
	"fmt"
	"sort"
	"strings"
	"sync/atomic"
	"testing"
	"time"

	gmsl "github.com/matrix-org/gomatrixserverlib"
	"github.com/matrix-org/gomatrixserverlib/spec"

	"verifharness/sim"
	"verifharness/world"
)

// ---- recording wrappers around fetchers --------------------------------------

type recFetcher struct {
	w        *kworld
	name     string
	inner    gmsl.KeyFetcher
	kind     string // "direct" | "perspective" | "scripted"
	via      spec.ServerName
	inflight atomic.Int32
}

func (f *recFetcher) FetcherName() string { return f.name }

func (f *recFetcher) FetchKeys(ctx context.Context, reqs map[pair]spec.Timestamp) (map[pair]entry, error) {
	rec := recOf(ctx)
	sc := &srcCall{name: f.name, req: copyReq(reqs)}
	if rec != nil {
		rec.mu.Lock()
		rec.fetch = append(rec.fetch, sc)
		rec.mu.Unlock()
	}
	res, err := f.inner.FetchKeys(ctx, reqs)
	if rec != nil {
		f.w.r.Check(rec.out.Load() == 0, "C19", "fetchkeys", "returned_before_workers_done", "%s.FetchKeys returned while %d key-client calls of this call were still in flight", f.name, rec.out.Load())
	}
	sc.err = err
	if err == nil {
		sc.res = copyRes(res)
	}
	f.w.r.Logf("  fetcher %s[%s] asked %d -> %d err=%v", f.name, sim.TaskName(ctx), len(reqs), len(res), err != nil)
	f.w.checkFetcher(f, rec, sc)
	return res, err
}

// ---- scripted fetcher ----------------------------------------------------------

type scripted struct {
	w    *kworld
	name string
}

func (s *scripted) FetcherName() string { return s.name }

func (s *scripted) FetchKeys(ctx context.Context, reqs map[pair]spec.Timestamp) (map[pair]entry, error) {
	task := sim.TaskName(ctx)
	s.w.s.Yield(task, fmt.Sprintf("%s#%d", s.name, recN(recOf(ctx))))
	t := s.w.r.T
	now := time.Now()
	switch t.Weighted([]int{5, 1, 1}) {
	case 1:
		s.w.r.Fault("fetcher_error")
		return nil, fmt.Errorf("scripted fetcher error")
	case 2:
		s.w.r.Fault("fetcher_empty")
		return map[pair]entry{}, nil
	}
	out := map[pair]entry{}
	for _, p := range sortedPairs(reqs) {
		srv := s.w.srv(p.ServerName)
		var honest entry
		ok := false
		if srv != nil {
			if k := srv.KeyByID(p.KeyID); k != nil {
				ok = true
				if k.Current() {
					honest = entry{VerifyKey: gmsl.VerifyKey{Key: spec.Base64Bytes(k.Pub)}, ValidUntilTS: spec.AsTimestamp(now.Add(srv.ValidFor))}
				} else {
					honest = entry{VerifyKey: gmsl.VerifyKey{Key: spec.Base64Bytes(k.Pub)}, ExpiredTS: spec.AsTimestamp(k.ExpiredAt)}
				}
			}
		}
		switch t.Weighted([]int{6, 2, 1, 1, 1}) {
		case 4: // the right key, but with neither valid_until_ts nor expired_ts
			if ok {
				s.w.r.Fault("fetcher_key_without_validity_period")
				out[p] = entry{VerifyKey: honest.VerifyKey}
			}
		case 0:
			if ok {
				out[p] = honest
			}
		case 1:
			s.w.r.Fault("fetcher_partial")
		case 2:
			s.w.r.Fault("fetcher_wrong_key")
			out[p] = entry{VerifyKey: gmsl.VerifyKey{Key: spec.Base64Bytes(s.w.rogue.Current().Pub)}, ValidUntilTS: spec.AsTimestamp(now.Add(24 * time.Hour))}
		case 3: // honest key but lapsed validity
			if ok {
				s.w.r.Fault("fetcher_stale")
				honest.ValidUntilTS = spec.AsTimestamp(now.Add(-time.Duration(t.Range(1, 100)) * time.Minute))
				out[p] = honest
			}
		}
	}
	if t.Chance(150) { // extra keys nobody asked for
		s.w.r.Fault("fetcher_extra")
		o := sim.Pick(t, s.w.origins)
		k := o.Keys[0]
		e := entry{VerifyKey: gmsl.VerifyKey{Key: spec.Base64Bytes(k.Pub)}, ValidUntilTS: spec.AsTimestamp(now.Add(o.ValidFor))}
		if !k.Current() {
			e = entry{VerifyKey: gmsl.VerifyKey{Key: spec.Base64Bytes(k.Pub)}, ExpiredTS: spec.AsTimestamp(k.ExpiredAt)}
		}
		p := pair{ServerName: o.Name, KeyID: k.ID}
		if _, asked := reqs[p]; !asked {
			out[p] = e
		}
	}
	return out, nil
}

// ---- messages ------------------------------------------------------------------

type sig struct {
	id      gmsl.KeyID
	key     *world.Key // nil: not an ed25519 ledger key
	corrupt bool
}

type message struct {
	server  spec.ServerName
	raw     []byte
	sigs    []sig
	garbage bool
}

func (w *kworld) newMessage(s *world.Server) *message {
	t := w.r.T
	m := &message{server: s.Name}
	body := fmt.Sprintf(`{"n":%d,"room":"!r:%s","who":"@u:%s"}`, t.Intn(1000), s.Name, s.Name)
	raw := []byte(body)
	kind := t.Weighted([]int{12, 2, 1, 1, 1})
	switch kind {
	case 3: // unsigned by that server (signed by somebody else)
		o := sim.Pick(t, w.origins)
		if o != s {
			raw, _ = gmsl.SignJSON(string(o.Name), o.Keys[0].ID, o.Keys[0].Priv, raw)
		}
		m.raw = raw
		w.r.Probe("msg_unsigned_by_server")
		return m
	case 4:
		m.raw = []byte(`{"signatures":{"` + string(s.Name) + `":`)
		m.garbage = true
		w.r.Probe("msg_unparsable")
		return m
	}
	// choose 1..2 of the server's keys (any generation)
	n := 1
	if len(s.Keys) > 1 && t.Chance(400) {
		n = 2
	}
	perm := t.Perm(len(s.Keys))
	for i := 0; i < n; i++ {
		k := s.Keys[perm[i]]
		var err error
		raw, err = gmsl.SignJSON(string(s.Name), k.ID, k.Priv, raw)
		if err != nil {
			panic(err)
		}
		m.sigs = append(m.sigs, sig{id: k.ID, key: k})
	}
	if kind == 1 { // corrupt one signature
		i := t.Intn(len(m.sigs))
		var obj map[string]any
		json.Unmarshal(raw, &obj)
		sm := obj["signatures"].(map[string]any)[string(s.Name)].(map[string]any)
		var b spec.Base64Bytes
		b.Decode(sm[string(m.sigs[i].id)].(string))
		b[t.Intn(len(b))] ^= 1 << uint(t.Intn(8))
		sm[string(m.sigs[i].id)] = b.Encode()
		raw, _ = json.Marshal(obj)
		m.sigs[i].corrupt = true
		w.r.Fault("corrupt_signature")
	}
	if kind == 2 { // add a signature under an unsupported algorithm
		var obj map[string]any
		json.Unmarshal(raw, &obj)
		sm := obj["signatures"].(map[string]any)[string(s.Name)].(map[string]any)
		sm["rsa:1"] = "AAAA"
		raw, _ = json.Marshal(obj)
		m.sigs = append(m.sigs, sig{id: "rsa:1"})
		w.r.Probe("msg_unsupported_algorithm")
	}
	m.raw = raw
	return m
}

// ---- validity rule, independently ------------------------------------------------

// validAt transcribes the property: an expired (old) key is valid strictly
// before expired_ts; a current key, where the room version demands strict
// checking, at or before min(valid_until_ts, now+7d) and never when
// valid_until_ts is 0; without strict checking a current key's valid_until_ts
// is not consulted (room versions 1-4).
func validAt(e entry, ts spec.Timestamp, strict bool, now time.Time) bool {
	if e.ExpiredTS != 0 {
		return ts < e.ExpiredTS
	}
	if !strict {
		return true
	}
	if e.ValidUntilTS == 0 {
		return false
	}
	limit := e.ValidUntilTS
	if cap7 := spec.AsTimestamp(now.Add(7 * 24 * time.Hour)); cap7 < limit {
		limit = cap7
	}
	return ts <= limit
}

func strictMark(ts, vu spec.Timestamp) bool { return gmsl.StrictValiditySignatureCheck(ts, vu) }

// ---- one VerifyJSONs call and its oracles ---------------------------------------

type reqInfo struct {
	msg    *message
	ts     spec.Timestamp
	strict bool
}

func (w *kworld) doBatch(task string, n int, ring *gmsl.KeyRing, nfetch int) {
	t := w.r.T
	now := time.Now()
	nreq := t.Range(1, 6)
	wide := false
	if t.Chance(25) { // worker-count boundary of DirectKeyFetcher (64)
		// ... and of two pool-fuls (a queue of 64 behind 64 workers)
		nreq = sim.Pick(t, []int{63, 64, 65, 70, 64, 65, 127, 128, 129, 140, 200})
		wide = true
		w.r.Probe("batch_around_64_servers")
	}
	var infos []reqInfo
	var reqs []gmsl.VerifyJSONRequest
	for i := 0; i < nreq; i++ {
		var s *world.Server
		if wide {
			s = w.wideServer(i)
		} else {
			s = sim.Pick(t, w.origins)
			if t.Chance(60) {
				s = w.local
			} else if len(w.notary) > 0 && t.Chance(60) {
				// a notary is a homeserver too: a message signed by it, whose
				// keys a perspective fetcher asks the notary itself for
				s = sim.Pick(t, w.notary)
				w.r.Probe("message_signed_by_a_notary")
			}
		}
		m := w.newMessage(s)
		strict := t.Bool()
		ts := w.pickTS(s, now)
		infos = append(infos, reqInfo{m, ts, strict})
		f := gmsl.NoStrictValidityCheck
		if strict {
			f = strictMark
		}
		reqs = append(reqs, gmsl.VerifyJSONRequest{ServerName: s.Name, AtTS: ts, Message: m.raw, ValidityCheckingFunc: f})
		if !wide && t.Chance(80) {
			// the same message at the same instant once more, judged by the
			// other validity rule (one event of a room version before 5 and
			// one after it may well be the same bytes to the key ring)
			infos = append(infos, reqInfo{m, ts, !strict})
			g := gmsl.NoStrictValidityCheck
			if !strict {
				g = strictMark
			}
			reqs = append(reqs, gmsl.VerifyJSONRequest{ServerName: s.Name, AtTS: ts, Message: m.raw, ValidityCheckingFunc: g})
			w.r.Probe("request_repeated_under_the_other_validity_rule")
		}
	}
	rec := &callRec{task: task, n: n, start: now}
	ctx := context.WithValue(sim.WithTask(context.Background(), task), recKey{}, rec)
	w.r.Logf("t=%v %s batch#%d: %d requests", w.r.Now(), task, n, nreq)
	// the caller may give up while key fetches are in flight (its request was
	// cancelled, its deadline passed): the call must still wind down cleanly
	if w.latency && (t.Chance(100) || (wide && t.Chance(400))) {
		cctx, cancel := context.WithCancel(ctx)
		d := time.Duration(t.Range(1, 2500))*time.Millisecond + 61*time.Microsecond
		tm := time.AfterFunc(d, func() {
			w.r.Fault("ctx_cancel")
			cancel()
		})
		defer tm.Stop()
		defer cancel()
		ctx = cctx
		rec.cancellable = true
	}
	res, err := ring.VerifyJSONs(ctx, reqs)
	end := time.Now()
	w.r.Op()
	w.checkGrants(rec)
	w.checkCall(rec, infos, reqs, res, err, end, nfetch)
}

// checkGrants: what one server is given may not depend on how many other
// servers are in the batch or on which worker it lands. For a caller that
// never cancels, a key request whose context ran out (before it went out, or
// while the server took `lat` to answer) although it was granted less than
// another request of the same kind in the same call, and although both `lat`
// and the time it really waited lie below that other grant, has been starved
// by its neighbours: a sequential execution would have fetched that server's keys.
// (No timeout value is assumed; requests are compared with one another.)
func (w *kworld) checkGrants(rec *callRec) {
	if rec.cancellable {
		return
	}
	rec.mu.Lock()
	gs := append([]grant{}, rec.grants...)
	rec.mu.Unlock()
	most := map[string]time.Duration{}
	for _, g := range gs {
		if g.bounded && g.given > most[g.kind] {
			most[g.kind] = g.given
		}
	}
	for _, g := range gs {
		if g.expired && g.bounded && g.waited < g.given {
			// its context ended before its own deadline although the caller never
			// cancels: somebody else's failure took it down
			w.r.Probe("key_request_cancelled_by_a_sibling")
			w.r.Violate("C19", "fetchkeys", "cancelled_by_a_sibling", "the %s request for %s had its context ended after %v although it had been granted %v and the caller never cancels: another server's failure cancelled it, and its keys are missing from the union", g.kind, g.server, g.waited, g.given)
			// the same fact read as C12's clause: a fetcher able to answer was kept from answering
			w.r.Violate("C12", "completeness", "fetch_cancelled_by_a_sibling", "the %s request for %s was cancelled after %v (granted %v) although the caller never cancels: the fetcher was able to supply that server's keys and was kept from doing so by another server's failure", g.kind, g.server, g.waited, g.given)
			return
		}
		if g.expired && g.bounded && g.given < most[g.kind] && g.lat < most[g.kind] && g.waited < most[g.kind] {
			w.r.Probe("key_request_starved_by_its_batch")
			w.r.Violate("C19", "fetchkeys", "deadline_shared_between_servers", "the %s request for %s was given %v (its server answers in %v) while another request of the same call was given %v: its keys are missing from the union only because of the other servers in the batch", g.kind, g.server, g.given, g.lat, most[g.kind])
			return
		}
	}
}

func (w *kworld) wideServer(i int) *world.Server {
	name := spec.ServerName(fmt.Sprintf("wide%02d.example", i))
	if s := w.srv(name); s != nil {
		return s
	}
	return w.led.Add(world.NewServer(w.r.T, string(name), time.Now()))
}

func (w *kworld) pickTS(s *world.Server, now time.Time) spec.Timestamp {
	t := w.r.T
	k := sim.Pick(t, s.Keys)
	week := 7 * 24 * time.Hour
	var base time.Time
	switch t.Intn(8) {
	case 0:
		base = now
	case 1:
		base = now.Add(-time.Duration(t.Range(1, 48)) * time.Hour)
	case 2:
		base = k.From
	case 3:
		if k.Current() {
			base = now
		} else {
			base = k.ExpiredAt
		}
	case 4:
		base = now.Add(s.ValidFor)
	case 5:
		base = now.Add(week)
	case 6:
		if s.ValidFor < week {
			base = now.Add(s.ValidFor)
		} else {
			base = now.Add(week)
		}
	default:
		base = now.Add(time.Duration(t.Range(-100, 300)) * time.Hour)
	}
	base = base.Add(time.Duration(t.Range(-1, 1)) * time.Millisecond)
	if base.Before(time.Unix(1, 0)) {
		base = time.Unix(1, 0)
	}
	return spec.AsTimestamp(base)
}

func (w *kworld) checkCall(rec *callRec, infos []reqInfo, reqs []gmsl.VerifyJSONRequest, res []gmsl.VerifyJSONResult, err error, end time.Time, nfetch int) {
	r := w.r
	const P = "C12"
	// expected key requests
	want := map[pair]spec.Timestamp{}
	// Several requests of one batch may need the same (server, key ID) at
	// different instants; the key ring asks its sources for the pair once.
	// Which of those instants it passes along (the library: the latest) is its
	// own business - the property speaks of pairs, not of that hint - so any
	// of them is accepted.
	wantAny := map[pair]map[spec.Timestamp]bool{}
	for _, in := range infos {
		if in.msg.garbage {
			continue
		}
		for _, sg := range in.msg.sigs {
			if !strings.HasPrefix(string(sg.id), "ed25519:") {
				continue
			}
			p := pair{ServerName: in.msg.server, KeyID: sg.id}
			if cur, ok := want[p]; !ok || cur <= in.ts {
				want[p] = in.ts
			}
			if wantAny[p] == nil {
				wantAny[p] = map[spec.Timestamp]bool{}
			}
			wantAny[p][in.ts] = true
		}
	}
	samePairs := func(got map[pair]spec.Timestamp) bool {
		if len(got) != len(want) {
			return false
		}
		for p, ts := range got {
			if !wantAny[p][ts] {
				return false
			}
		}
		return true
	}
	// (1) shape
	if err != nil {
		dbErr := (rec.db != nil && rec.db.err != nil) || rec.storeEr != nil
		r.Check(dbErr, P, "shape", "error_without_db_error", "VerifyJSONs returned error %v although the database did not fail", err)
		r.Probe("call_failed_on_db_error")
		return
	}
	r.Check(len(res) == len(reqs), P, "shape", "result_count", "%d results for %d requests", len(res), len(reqs))
	if rec.db != nil && rec.db.err != nil {
		r.Violate(P, "shape", "db_error_swallowed", "database fetch failed but VerifyJSONs returned no error")
	}
	// sources in consult order
	var sources []*srcCall
	if rec.db != nil {
		sources = append(sources, rec.db)
	}
	sources = append(sources, rec.fetch...)
	answers := func(p pair) []entry {
		var es []entry
		for _, s := range sources {
			if s.err == nil {
				if e, ok := s.res[p]; ok {
					es = append(es, e)
				}
			}
		}
		return es
	}
	for i, in := range infos {
		ok := res[i].Error == nil
		// (2) soundness
		if ok {
			sound := false
			for _, sg := range in.msg.sigs {
				if sg.key == nil || sg.corrupt {
					continue
				}
				for _, e := range answers(pair{ServerName: in.msg.server, KeyID: sg.id}) {
					if string(e.Key) == string(sg.key.Pub) && validAt(e, in.ts, in.strict, end) {
						sound = true
					}
				}
			}
			if !sound {
				why := "no source supplied a matching key valid at that time"
				if in.msg.garbage {
					why = "message is not JSON"
				} else if len(in.msg.sigs) == 0 {
					why = "message carries no signature of that server"
				}
				r.Violate(P, "soundness", classify(in, answers), "request %d (%s ts=%d strict=%v) reported success but %s; sources: %s", i, in.msg.server, in.ts, in.strict, why, w.describe(in, answers))
			}
			r.Probe("result_success")
		} else {
			r.Probe("result_failure")
		}
		// (3) completeness under the stated precondition
		if !ok && !in.msg.garbage {
			for _, sg := range in.msg.sigs {
				if sg.key == nil || sg.corrupt {
					continue
				}
				es := answers(pair{ServerName: in.msg.server, KeyID: sg.id})
				if len(es) == 0 {
					continue
				}
				same := true
				for _, e := range es[1:] {
					if !sameEntry(e, es[0]) {
						same = false
					}
				}
				if same && string(es[0].Key) == string(sg.key.Pub) && validAt(es[0], in.ts, in.strict, rec.start) && validAt(es[0], in.ts, in.strict, end) {
					r.Violate(P, "completeness", "valid_key_supplied", "request %d (%s ts=%d strict=%v) failed (%v) although every consulted source that answered for %s gave the same key, valid at that time: %s", i, in.msg.server, in.ts, in.strict, res[i].Error, sg.id, entStr(es[0]))
				}
			}
		}
	}
	// (4) flow
	if len(want) == 0 {
		r.Check(rec.db == nil && len(rec.fetch) == 0, P, "flow", "lookup_without_need", "no request carried a usable key id but sources were consulted")
		return
	}
	if rec.db == nil {
		r.Violate(P, "flow", "db_not_consulted", "the key database was not consulted")
	}
	r.Check(samePairs(rec.db.req), P, "flow", "db_request_set", "database asked for %s, expected %s", reqStr(rec.db.req), reqStr(want))
	r.Check(len(rec.fetch) <= nfetch, P, "flow", "fetcher_consulted_twice", "%d fetcher calls for %d fetchers", len(rec.fetch), nfetch)
	covered := map[pair]bool{}
	for p, e := range rec.db.res {
		// the database held it and it is an expired (old) key or still within validity
		if e.ExpiredTS != 0 || spec.AsTimestamp(rec.db.at) < e.ValidUntilTS {
			covered[p] = true
		}
	}
	lastFetched := map[pair]entry{}
	for j, f := range rec.fetch {
		if j > 0 {
			r.Check(rec.fetch[j-1].name < f.name, P, "flow", "fetcher_order", "fetcher %s consulted after %s", f.name, rec.fetch[j-1].name)
		}
		for _, p := range sortedPairs(f.req) {
			ts, asked := want[p]
			r.Check(asked, P, "flow", "fetch_unrequested_pair", "fetcher %s asked for %s which no request needs", f.name, pairStr(p))
			r.Check(!asked || wantAny[p][f.req[p]], P, "flow", "fetch_timestamp", "fetcher %s asked for %s at %d, an instant none of the requests names (the latest is %d)", f.name, pairStr(p), f.req[p], ts)
			if covered[p] {
				// allowed only if start/end straddle the validity instant
				_, byFetcher := lastFetched[p]
				if true {
					r.Violate(P, "flow", "fetch_of_covered_pair", "fetcher %s asked for %s although %s", f.name, pairStr(p), map[bool]string{true: "an earlier fetcher returned it", false: "the database holds it within validity / as an expired key"}[byFetcher])
				}
			}
		}
		if f.err == nil {
			for _, p := range sortedPairs(f.res) {
				lastFetched[p] = f.res[p]
				covered[p] = true
			}
		}
	}
	if len(rec.fetch) > 0 {
		r.Probe("fetchers_consulted")
	}
	// a request that ended in failure had every pair the database lacked or
	// held past its validity offered to the fetchers, in order, until one of
	// them returned it
	for i, in := range infos {
		if res[i].Error == nil || in.msg.garbage {
			continue
		}
		for _, sg := range in.msg.sigs {
			if !strings.HasPrefix(string(sg.id), "ed25519:") {
				continue
			}
			p := pair{ServerName: in.msg.server, KeyID: sg.id}
			e, inDB := rec.db.res[p]
			if inDB && (e.ExpiredTS != 0 || spec.AsTimestamp(rec.db.at) < e.ValidUntilTS) {
				continue
			}
			for j := 0; j < nfetch; j++ {
				if j >= len(rec.fetch) {
					r.Violate(P, "flow", "fetcher_not_consulted", "request %d failed and the database %s %s, but fetcher #%d was never consulted", i, map[bool]string{true: "holds a lapsed entry for", false: "lacks"}[inDB], pairStr(p), j)
				}
				_, asked := rec.fetch[j].req[p]
				r.Check(asked, P, "flow", "fetcher_not_asked_for_pair", "request %d failed and the database %s %s, but fetcher %s was not asked for it", i, map[bool]string{true: "holds a lapsed entry for", false: "lacks"}[inDB], pairStr(p), rec.fetch[j].name)
				if _, got := rec.fetch[j].res[p]; got && rec.fetch[j].err == nil {
					break
				}
			}
		}
	}
	// stores what it fetched
	for _, p := range sortedPairs(lastFetched) {
		found := false
		for _, st := range rec.stored {
			if e, ok := st[p]; ok && sameEntry(e, lastFetched[p]) {
				found = true
			}
		}
		r.Check(found, P, "flow", "fetched_not_stored", "%s fetched as %s but never given to StoreKeys", pairStr(p), entStr(lastFetched[p]))
	}
}

func classify(in reqInfo, answers func(pair) []entry) string {
	if in.msg.garbage || len(in.msg.sigs) == 0 {
		return "unsigned_or_garbage"
	}
	for _, sg := range in.msg.sigs {
		if sg.key == nil {
			continue
		}
		for _, e := range answers(pair{ServerName: in.msg.server, KeyID: sg.id}) {
			if string(e.Key) == string(sg.key.Pub) && !sg.corrupt {
				if e.ExpiredTS != 0 {
					return "expired_key"
				}
				return "validity_window"
			}
		}
	}
	return "no_matching_key"
}

func (w *kworld) describe(in reqInfo, answers func(pair) []entry) string {
	var sb strings.Builder
	for _, sg := range in.msg.sigs {
		fmt.Fprintf(&sb, "%s(corrupt=%v):", sg.id, sg.corrupt)
		for _, e := range answers(pair{ServerName: in.msg.server, KeyID: sg.id}) {
			sb.WriteString(entStr(e))
		}
		sb.WriteString(" ")
	}
	return sb.String()
}

func sameReq(a, b map[pair]spec.Timestamp) bool {
	if len(a) != len(b) {
		return false
	}
	for k, v := range a {
		if bv, ok := b[k]; !ok || bv != v {
			return false
		}
	}
	return true
}

func reqStr(m map[pair]spec.Timestamp) string {
	var parts []string
	for _, p := range sortedPairs(m) {
		parts = append(parts, fmt.Sprintf("%s@%d", pairStr(p), m[p]))
	}
	return "{" + strings.Join(parts, " ") + "}"
}

// ---- fetcher-level oracle (real fetchers) ----------------------------------------

func (w *kworld) checkFetcher(f *recFetcher, rec *callRec, sc *srcCall) {
	r := w.r
	if rec == nil {
		return
	}
	task := rec.task
	switch f.kind {
	case "direct":
		r.Check(sc.err == nil, "C19", "fetchkeys", "direct_error", "DirectKeyFetcher.FetchKeys returned error %v", sc.err)
		want := map[pair]entry{}
		servers := map[spec.ServerName]bool{}
		for _, p := range sortedPairs(sc.req) {
			if p.ServerName == w.local.Name {
				want[p] = entry{VerifyKey: gmsl.VerifyKey{Key: spec.Base64Bytes(w.local.Keys[0].Pub)}, ValidUntilTS: spec.AsTimestamp(time.Unix(1<<37, 0))}
				continue
			}
			servers[p.ServerName] = true
		}
		var names []string
		for s := range servers {
			names = append(names, string(s))
		}
		sort.Strings(names)
		for _, nm := range names {
			w.client.mu.Lock()
			direct := w.client.handed[fmt.Sprintf("%s|get#%d:%s", task, rec.n, nm)]
			fallback := w.client.handed[fmt.Sprintf("%s|lookup#%d:%s:%s", task, rec.n, nm, nm)]
			w.client.mu.Unlock()
			if len(direct) != 1 {
				r.Violate("C19", "fetchkeys", "worker_missing", "server %s: %d direct fetches recorded for one FetchKeys call", nm, len(direct))
			}
			var use *respRec
			if d := direct[0]; d.kind != "error" && d.good && string(d.server) == nm {
				use = d
				r.Check(len(fallback) == 0, "C12", "flow", "needless_notary_fallback", "server %s answered well but the notary fallback ran", nm)
			} else {
				r.Probe("direct_failed_fallback_to_notary_query")
				r.Check(len(fallback) >= 1, "C19", "fetchkeys", "fallback_missing", "server %s: direct fetch failed but no fallback query was made", nm)
				for _, fb := range fallback {
					if fb.kind == "error" || fb.kind == "none" || string(fb.server) != nm {
						continue
					}
					if fb.good || fb.goodForDirect { // the first response naming the server decides
						use = fb
					}
					break
				}
			}
			if use != nil {
				for p, e := range entriesOf(use.keys) {
					want[p] = e
				}
			}
		}
		if sc.err == nil {
			for _, p := range sortedPairs(sc.res) {
				e, ok := want[p]
				r.Check(ok && sameEntry(e, sc.res[p]), "C12", "key_response", "direct_inadmissible", "direct fetcher returned %s=%s which no admissible response of that server contains", pairStr(p), entStr(sc.res[p]))
			}
			w.compareEntries("C19", "fetchkeys_union", f.name, sc.res, want)
		}
	case "perspective":
		w.client.mu.Lock()
		hs := w.client.handed[fmt.Sprintf("%s|plookup#%d:%s", task, rec.n, f.via)]
		if len(sc.req) == 1 {
			for p := range sc.req {
				hs = w.client.handed[fmt.Sprintf("%s|plookup#%d:%s:%s", task, rec.n, f.via, p.ServerName)]
			}
		}
		w.client.mu.Unlock()
		allGood := true
		want := map[pair]entry{}
		cands := map[pair][]entry{}
		for _, h := range hs {
			if h.kind == "error" || h.kind == "none" {
				allGood = allGood && h.kind == "none"
				continue
			}
			if !h.good {
				allGood = false
				continue
			}
			for p, e := range entriesOf(h.keys) {
				want[p] = e
				cands[p] = append(cands[p], e)
			}
		}
		if sc.err == nil {
			// soundness: nothing from an inadmissible response. When two
			// admissible responses of one answer carry the same pair (a fresh
			// and an older response of the same server), which of them the
			// fetcher keeps is its own business.
			inSome := func(p pair, e entry) bool {
				for _, c := range cands[p] {
					if sameEntry(c, e) {
						return true
					}
				}
				return false
			}
			for _, p := range sortedPairs(sc.res) {
				r.Check(inSome(p, sc.res[p]), "C12", "key_response", "perspective_inadmissible", "perspective fetcher returned %s=%s which no admissible notary response contains (responses: %s)", pairStr(p), entStr(sc.res[p]), kinds(hs))
			}
			if allGood {
				for _, p := range sortedPairs(want) {
					_, ok := sc.res[p]
					r.Check(ok, "C12", "key_response_complete", "missing", "%s: result lacks %s although every notary response was admissible", f.name, pairStr(p))
				}
				for _, p := range sortedPairs(sc.res) {
					_, ok := want[p]
					r.Check(ok, "C12", "key_response_complete", "extra", "%s: result has %s=%s which no notary response produced", f.name, pairStr(p), entStr(sc.res[p]))
				}
			}
		} else {
			r.Check(!allGood || len(hs) == 0 || hs[0].kind == "error", "C12", "key_response_complete", "perspective_refused_good", "perspective fetcher failed (%v) although every notary response was admissible: %s", sc.err, kinds(hs))
		}
	}
}

func (w *kworld) compareEntries(prop, oracle, who string, got, want map[pair]entry) {
	for _, p := range sortedPairs(want) {
		g, ok := got[p]
		w.r.Check(ok, prop, oracle, "missing", "%s: result lacks %s=%s", who, pairStr(p), entStr(want[p]))
		w.r.Check(sameEntry(g, want[p]), prop, oracle, "different", "%s: %s is %s, expected %s", who, pairStr(p), entStr(g), entStr(want[p]))
	}
	for _, p := range sortedPairs(got) {
		_, ok := want[p]
		w.r.Check(ok, prop, oracle, "extra", "%s: result has %s=%s which no successful per-server fetch produced", who, pairStr(p), entStr(got[p]))
	}
}

// ---- run body ------------------------------------------------------------------

func body(r *sim.Run) {
	if r.Prop == "C06" {
		bodyC06(r)
		return
	}
	t := r.T
	s := sim.NewSched(r)
	now := time.Now()
	w := &kworld{r: r, s: s, led: world.NewLedger()}
	w.latency = t.Chance(500)
	validFors := []time.Duration{24 * time.Hour, time.Hour, 8 * 24 * time.Hour, 30 * 24 * time.Hour}
	norigin := t.Range(2, 5)
	for i := 0; i < norigin; i++ {
		srv := world.NewServer(t, fmt.Sprintf("o%d.example", i), now)
		srv.ValidFor = sim.Pick(t, validFors)
		if t.Chance(250) {
			srv.AddKey(t, now)
		}
		w.origins = append(w.origins, w.led.Add(srv))
	}
	w.local = w.led.Add(world.NewServer(t, "local.example", now))
	w.rogue = world.NewServer(t, "rogue.example", now)
	nnotary := t.Weighted([]int{3, 3, 1})
	for i := 0; i < nnotary; i++ {
		w.notary = append(w.notary, w.led.Add(world.NewServer(t, fmt.Sprintf("notary%d.example", i), now)))
	}
	// some history before the run: time passes, keys rotate
	time.Sleep(time.Duration(t.Range(1, 200)) * time.Hour)
	for _, o := range w.origins {
		if t.Chance(400) {
			o.Rotate(t, time.Now())
			time.Sleep(time.Duration(t.Range(1, 50)) * time.Hour)
		}
	}
	faulty := t.Chance(700)
	w.db = &simDB{w: w, durable: map[pair]entry{}, volatile: map[pair]entry{}, superset: t.Chance(100)}
	w.client = &simClient{w: w, handed: map[string][]*respRec{}}
	if faulty {
		w.db.errRate = sim.Pick(t, []int{0, 0, 30, 100})
		w.db.partial = sim.Pick(t, []int{0, 0, 100, 400})
		w.client.faultRate = sim.Pick(t, []int{50, 150, 400})
	}
	// database pre-population
	now = time.Now()
	for _, o := range w.origins {
		for _, k := range o.Keys {
			p := pair{ServerName: o.Name, KeyID: k.ID}
			pub := spec.Base64Bytes(k.Pub)
			switch t.Weighted([]int{4, 3, 2, 1, 1}) {
			case 4: // a current key stored without any validity period
				if k.Current() {
					w.db.durable[p] = entry{VerifyKey: gmsl.VerifyKey{Key: pub}}
					r.Fault("db_key_without_validity_period")
				}
			case 1: // what an honest fetch some time ago would have stored
				if k.Current() {
					w.db.durable[p] = entry{VerifyKey: gmsl.VerifyKey{Key: pub}, ValidUntilTS: spec.AsTimestamp(now.Add(o.ValidFor / 2))}
				} else {
					w.db.durable[p] = entry{VerifyKey: gmsl.VerifyKey{Key: pub}, ExpiredTS: spec.AsTimestamp(k.ExpiredAt)}
				}
			case 2: // stale: validity lapsed (also how a since-rotated key looks in a cache)
				w.db.durable[p] = entry{VerifyKey: gmsl.VerifyKey{Key: pub}, ValidUntilTS: spec.AsTimestamp(now.Add(-time.Duration(t.Range(1, 72)) * time.Hour))}
				r.Fault("stale_cache")
			case 3:
				w.db.durable[p] = entry{VerifyKey: gmsl.VerifyKey{Key: spec.Base64Bytes(w.rogue.Current().Pub)}, ValidUntilTS: spec.AsTimestamp(now.Add(o.ValidFor))}
				r.Fault("db_wrong_key")
			}
		}
	}
	// fetchers
	scriptedCfg := t.Chance(350)
	var fetchers []gmsl.KeyFetcher
	if scriptedCfg {
		n := t.Range(1, 3)
		for i := 0; i < n; i++ {
			nm := fmt.Sprintf("f%d-scripted", i)
			fetchers = append(fetchers, &recFetcher{w: w, name: nm, kind: "scripted", inner: &scripted{w: w, name: nm}})
		}
		r.Probe("config_scripted_fetchers")
	} else {
		for i, n := range w.notary {
			nm := fmt.Sprintf("f%d-perspective", i)
			fetchers = append(fetchers, &recFetcher{w: w, name: nm, kind: "perspective", via: n.Name, inner: &gmsl.PerspectiveKeyFetcher{
				PerspectiveServerName: n.Name,
				PerspectiveServerKeys: map[gmsl.KeyID]ed25519.PublicKey{n.Keys[0].ID: n.Keys[0].Pub},
				Client:                w.client,
			}})
		}
		fetchers = append(fetchers, &recFetcher{w: w, name: "f9-direct", kind: "direct", inner: &gmsl.DirectKeyFetcher{
			Client:            w.client,
			IsLocalServerName: func(n spec.ServerName) bool { return n == w.local.Name },
			LocalPublicKey:    spec.Base64Bytes(w.local.Keys[0].Pub),
		}})
		r.Probe("config_real_fetchers")
	}
	ring := &gmsl.KeyRing{KeyFetchers: fetchers, KeyDatabase: w.db}

	ncallers := t.Range(1, 4)
	if r.Prop == "C12" && t.Chance(500) {
		ncallers = 1
	}
	for c := 0; c < ncallers; c++ {
		task := fmt.Sprintf("caller%d", c)
		nb := t.Range(1, 3)
		s.Go(task, func() {
			for b := 0; b < nb && !r.Failed(); b++ {
				w.doBatch(task, b, ring, len(fetchers))
				s.Yield(task, fmt.Sprintf("between#%d", b))
			}
		})
	}
	nenv := t.Range(0, 4)
	s.Go("env", func() {
		for i := 0; i < nenv && !r.Failed(); i++ {
			switch t.Weighted([]int{3, 2, 1, 1}) {
			case 0:
				d := time.Duration(sim.Pick(t, []int{1, 59, 3600, 86400, 7 * 86400, 30 * 86400})) * time.Second
				s.Sleep(nil, "env", fmt.Sprintf("advance#%d", i), d)
				r.Fault("clock_jump")
				r.Logf("t=%v env: advanced %v", r.Now(), d)
			case 1:
				o := sim.Pick(t, w.origins)
				o.Rotate(t, time.Now())
				r.Fault("key_rotate")
				r.Logf("t=%v env: %s rotated its key", r.Now(), o.Name)
			case 2:
				w.db.restart()
				r.Logf("t=%v env: verifier restarted (volatile cache lost)", r.Now())
			case 3:
				o := sim.Pick(t, w.origins)
				o.AddKey(t, time.Now())
				r.Logf("t=%v env: %s published a second key", r.Now(), o.Name)
			}
			s.Yield("env", fmt.Sprintf("step#%d", i))
		}
	})
	s.RunAll()
	if ncallers > 1 || len(r.Faults) > 0 {
		r.Nontriv = true
	}
	r.State(fmt.Sprintf("callers=%d notaries=%d scripted=%v dbsize=%d", ncallers, nnotary, scriptedCfg, len(w.db.durable)+len(w.db.volatile)))
}

func TestEngine(t *testing.T) {
	sim.Main(t, &sim.Engine{
		Name: "keysim",
		Body: body,
		Rule: func(p string) string {
			if p == "C06" {
				return ruleC06
			}
			return "one run = 2-5 origin servers with rotating key histories, 0-2 notaries, a key database (absent/current/stale/expired/wrong entries; fetch/store errors, partial stores, restart losing volatile entries), real Perspective+Direct fetchers over a faulty sim KeyClient (or 1-3 scripted fetchers), 1-4 caller tasks x 1-3 VerifyJSONs batches (1-6 requests, occasionally 63-70 servers) with timestamps at validity boundaries, an environment task (clock jumps, rotations, restarts); the tape picks which parked task runs next; non-trivial = >=2 callers or >=1 fired fault; distinct = distinct event-log hash"
		},
		Real: []string{"KeyRing.VerifyJSONs", "DirectKeyFetcher (worker pool)", "PerspectiveKeyFetcher", "CheckKeys", "StrictValiditySignatureCheck", "VerifyEventSignatures (C06)", "SignJSON/VerifyJSON"},
		Stub: []string{"KeyClient (key servers, notaries: RPC level)", "KeyDatabase (durable+volatile map)", "scripted KeyFetchers (one configuration)", "clock (synctest)", "goroutine choice (token scheduler at stub boundaries)"},
		Assumptions: []string{"testing/synctest fake clock and quiescence (Go 1.26.8)", "interleavings explored at stub (I/O) granularity", "lenient room versions do not consult valid_until_ts of a current key (Matrix spec, room versions 1-4)",
			"the 7-day cap is judged with `now` anywhere between call start and return"},
	})
}
