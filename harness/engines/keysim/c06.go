package keysim

import "verifharness/sim"

const ruleC06 = "todo"

func bodyC06(r *sim.Run) {}
