package keysim

import (
	"context"
	"encoding/json"
	"fmt"
	"os"
	"sort"
	"strings"
	"time"

	gmsl "github.com/matrix-org/gomatrixserverlib"
	"github.com/matrix-org/gomatrixserverlib/spec"

	"verifharness/ref"
	"verifharness/sim"
	"verifharness/world"
)

const ruleC06 = "one run = 5 servers with rotating key histories, 1-3 events (message / state / member with every membership, invites to remote users, joins carrying join_authorised_via_users_server) built with the real EventBuilder in a room version drawn from the whole registry, each required signer given a tape-chosen plan (current key, old key, absent, corrupted, wrong key, unknown key id, unsupported algorithm, plus extra valid/invalid signatures of required and unrelated servers), origin_server_ts placed around key expiry and the valid_until / 7-day boundaries, the clock advanced (with rotations) before verification by the real KeyRing+DirectKeyFetcher over honest key servers or by a ledger verifier; 15% of the runs are pseudo-ID rooms (sender-key signatures, invited-key signatures, mxid_mapping vouched for by the user's server under the same plans, malformed sender IDs, unrelated signatures on event and mapping); non-trivial = at least one required signer had a non-default plan or the clock/keys changed between signing and verification; distinct = distinct event-log hash"

// independent tables (Matrix specification; unstable versions as registered)
var strictFrom = map[gmsl.RoomVersion]bool{"1": false, "2": false, "3": false, "4": false}
var restrictedJoins = map[gmsl.RoomVersion]bool{"8": true, "9": true, "10": true, "11": true, "12": true,
	"org.matrix.msc3787": true, "org.matrix.hydra.11": true, "org.matrix.msc4014": true}
var randomEventIDs = map[gmsl.RoomVersion]bool{"1": true, "2": true}

func isStrict(v gmsl.RoomVersion) bool {
	s, ok := strictFrom[v]
	return !ok || s
}

type sigPlan struct {
	server  *world.Server
	keyID   gmsl.KeyID
	priv    []byte // key actually used
	signer  *world.Key
	corrupt bool
	kind    string
}

type evCase struct {
	base     []byte // the built event without any signature
	unrel    *world.Server
	baseDesc string
	ev       gmsl.PDU
	required []*world.Server
	// reqOther: the servers required for another reason than being the
	// sender's (event-ID server in versions 1-2, invited user's, authorising user's)
	reqOther []*world.Server
	plans    map[spec.ServerName][]sigPlan
	ts       time.Time
	ver      gmsl.RoomVersion
	desc     string
	// dupMember: the content repeats the member name "membership" with two
	// values. The library reads a repeated name as its last occurrence
	// everywhere (auth rules, redaction), and so does the oracle - for
	// soundness only: whether such an event has to be accepted at all is not
	// judged (refusing repeated names outright would be as good).
	dupMember bool
}

func bodyC06(r *sim.Run) {
	t := r.T
	if t.Chance(150) {
		bodyC06Pseudo(r)
		return
	}
	s := sim.NewSched(r)
	now := time.Now()
	w := &kworld{r: r, s: s, led: world.NewLedger()}
	validFors := []time.Duration{24 * time.Hour, time.Hour, 8 * 24 * time.Hour, 30 * 24 * time.Hour}
	mk := func(n string) *world.Server {
		sv := world.NewServer(t, n, now)
		sv.ValidFor = sim.Pick(t, validFors)
		w.origins = append(w.origins, w.led.Add(sv))
		return sv
	}
	A, B, C, D, E := mk("a.example"), mk("b.example"), mk("c.example"), mk("d.example"), mk("e.example")
	w.local = w.led.Add(world.NewServer(t, "local.example", now))
	w.rogue = world.NewServer(t, "rogue.example", now)
	w.db = &simDB{w: w, durable: map[pair]entry{}, volatile: map[pair]entry{}}
	w.client = &simClient{w: w, handed: map[string][]*respRec{}}
	// history: every server may have rotated once or twice before the events
	time.Sleep(time.Duration(t.Range(1, 100)) * time.Hour)
	for _, sv := range w.origins {
		for i := t.Weighted([]int{3, 3, 1}); i > 0; i-- {
			sv.Rotate(t, time.Now())
			time.Sleep(time.Duration(t.Range(1, 30)) * time.Hour)
		}
	}
	vers := []gmsl.RoomVersion{}
	for _, v := range world.Versions() {
		if v != gmsl.RoomVersionPseudoIDs {
			vers = append(vers, v)
		}
	}
	ver := sim.Pick(t, vers)
	impl := gmsl.MustGetRoomVersion(ver)
	nev := t.Range(1, 3)
	var cases []*evCase
	for i := 0; i < nev; i++ {
		if i > 0 && t.Chance(300) {
			cases = append(cases, w.cloneCase(impl, cases[i-1]))
			continue
		}
		cases = append(cases, w.buildCase(impl, A, B, C, D, E))
	}
	// the verifying node may have met these servers before: its database then
	// holds what they published at this instant (current keys with their
	// valid_until_ts, retired keys with their expired_ts), which the gap below
	// can make stale
	preload := map[pair]entry{}
	if t.Chance(400) {
		for _, sv := range w.origins {
			if !t.Bool() {
				continue
			}
			for _, k := range sv.Keys {
				p := pair{ServerName: sv.Name, KeyID: k.ID}
				e := entry{VerifyKey: gmsl.VerifyKey{Key: spec.Base64Bytes(k.Pub)}}
				if k.Current() {
					e.ValidUntilTS = spec.AsTimestamp(time.Now().Add(sv.ValidFor))
				} else {
					e.ExpiredTS = spec.AsTimestamp(k.ExpiredAt)
				}
				preload[p] = e
				w.db.durable[p] = e
			}
		}
		r.Probe("verifier_database_preloaded")
	}
	// time passes before verification; keys may rotate meanwhile
	if t.Chance(600) {
		d := time.Duration(sim.Pick(t, []int{1, 3600, 86400, 3 * 86400, 7 * 86400, 8 * 86400, 40 * 86400})) * time.Second
		time.Sleep(d)
		r.Fault("clock_jump")
		r.Nontriv = true
		r.Logf("t=%v advanced %v before verification", r.Now(), d)
		for _, sv := range w.origins {
			if t.Chance(250) {
				sv.Rotate(t, time.Now().Add(-time.Duration(t.Range(0, int(d/time.Second)))*time.Second))
				r.Fault("key_rotate")
				r.Logf("  %s rotated during the gap", sv.Name)
			}
		}
	}
	useRing := t.Chance(650)
	// the caller's directory may not know the sender (UserIDForSender returns
	// nil, nil): the sender's server then cannot be named, every other
	// required server still has to have signed. Judged for soundness only.
	unknownSender := t.Chance(80)
	if unknownSender {
		useRing = false
		r.Probe("sender_unknown_to_the_callers_directory")
		r.Nontriv = true
	}
	var verifier gmsl.JSONVerifier
	var shim *ringShim
	if useRing {
		shim = &ringShim{w: w, ring: &gmsl.KeyRing{KeyDatabase: w.db, KeyFetchers: []gmsl.KeyFetcher{&gmsl.DirectKeyFetcher{
			Client:            w.client,
			IsLocalServerName: func(n spec.ServerName) bool { return n == w.local.Name },
			LocalPublicKey:    spec.Base64Bytes(w.local.Keys[0].Pub),
		}}}}
		verifier = shim
		r.Probe("verifier_real_keyring")
	} else {
		verifier = &world.Verifier{L: w.led}
		r.Probe("verifier_ledger")
	}
	uid := func(roomID spec.RoomID, sender spec.SenderID) (*spec.UserID, error) {
		if unknownSender {
			return nil, nil
		}
		return spec.NewUserID(string(sender), true)
	}
	s.Go("verifier", func() {
		ctx := sim.WithTask(context.Background(), "verifier")
		t1 := time.Now()
		var evs []gmsl.PDU
		for _, c := range cases {
			evs = append(evs, c.ev)
		}
		var errs []error
		db0 := w.db.snapshot()
		if len(evs) > 1 && t.Bool() {
			errs = gmsl.VerifyAllEventSignatures(ctx, evs, verifier, uid)
			r.Check(len(errs) == len(evs), "C06", "shape", "verify_all_len", "VerifyAllEventSignatures returned %d results for %d events", len(errs), len(evs))
		} else {
			for _, ev := range evs {
				errs = append(errs, gmsl.VerifyEventSignatures(ctx, ev, verifier, uid))
			}
		}
		// with the real key ring, what may be expected of each event follows
		// from what its database held and what each call really fetched
		var canAccept, mustAccept []bool
		var whyNot []string
		if useRing {
			canAccept, mustAccept, whyNot = w.flowExpect(cases, db0, t1, shim.calls)
		}
		for i, c := range cases {
			r.Op()
			if unknownSender {
				rest := &evCase{required: c.reqOther, plans: c.plans, ts: c.ts, ver: c.ver}
				want, why := w.expect(rest, t1, false)
				r.Logf("t=%v verify #%d %s (sender unknown) -> %v (other required signers valid=%v: %s)", r.Now(), i, c.desc, errs[i], want, why)
				if errs[i] == nil && !want {
					r.Violate("C06", "soundness", "unknown_sender_"+whyTag(why), "event %s verified for a caller that cannot resolve the sender, although %s", c.desc, why)
				}
				continue
			}
			want, why := w.expect(c, t1, useRing)
			if useRing && canAccept != nil {
				got := errs[i] == nil
				r.Logf("t=%v verify #%d %s -> %v (with the keys the ring held or fetched: may accept=%v must accept=%v %s)", r.Now(), i, c.desc, errs[i], canAccept[i], mustAccept[i], whyNot[i])
				if got && !canAccept[i] {
					r.Violate("C06", "soundness", whyTag(whyNot[i]), "event %s verified although %s", c.desc, whyNot[i])
				}
				if !got && mustAccept[i] && !c.dupMember {
					r.Violate("C06", "completeness", "all_required_valid", "event %s refused (%v) although every required server validly signed it and the ring obtained the keys that show it", c.desc, errs[i])
				}
				continue
			}
			got := errs[i] == nil
			r.Logf("t=%v verify #%d %s -> %v (expected ok=%v: %s)", r.Now(), i, c.desc, errs[i], want, why)
			if got && !want {
				r.Violate("C06", "soundness", whyTag(why), "event %s verified although %s", c.desc, why)
			}
			if !got && want && !c.dupMember {
				r.Violate("C06", "completeness", "all_required_valid", "event %s refused (%v) although every required server validly signed it", c.desc, errs[i])
			}
		}
	})
	s.RunAll()
}

func whyTag(why string) string {
	if i := strings.Index(why, ":"); i > 0 {
		return why[:i]
	}
	return why
}

func (w *kworld) buildCase(impl gmsl.IRoomVersion, A, B, C, D, E *world.Server) *evCase {
	r, t := w.r, w.r.T
	ver := impl.Version()
	c := &evCase{ver: ver, plans: map[spec.ServerName][]sigPlan{}}
	sender := "@u:" + string(A.Name)
	origin := A
	if randomEventIDs[ver] && t.Bool() {
		origin = E // the event ID names another server than the sender's
		r.Probe("v1_event_id_names_other_server")
	}
	p := world.Proto{RoomID: world.FakeRoomID(t, impl, A.Name), Sender: sender, Depth: int64(t.Range(1, 50)),
		Prev: []string{world.FakeEventID(t, impl, A.Name)}, Auth: []string{world.FakeEventID(t, impl, A.Name)}}
	req := map[spec.ServerName]*world.Server{A.Name: A}
	other := map[spec.ServerName]*world.Server{}
	if randomEventIDs[ver] {
		req[origin.Name] = origin
		other[origin.Name] = origin
	}
	kind := t.Weighted([]int{2, 1, 2, 3, 3, 1, 1, 1})
	switch kind {
	case 0:
		p.Type, p.Content = "m.room.message", map[string]any{"body": "hi", "msgtype": "m.text"}
		c.desc = "message"
	case 1:
		p.Type, p.StateKey, p.Content = "m.room.topic", world.Str(""), map[string]any{"topic": "x"}
		c.desc = "topic"
	case 2: // plain join
		p.Type, p.StateKey, p.Content = spec.MRoomMember, world.Str(sender), map[string]any{"membership": "join"}
		c.desc = "join"
	case 3: // invite
		target := B
		if t.Chance(200) {
			target = A
		}
		// the invitee's ID may be one of the historical kind (upper case, '+',
		// '~' ...): such users exist, and their servers sign like any other
		invitee := sim.Pick(t, []string{"@t:", "@t:", "@t:", "@Bob:", "@b+ob~:", "@T_1=x:"}) + string(target.Name)
		p.Type, p.StateKey, p.Content = spec.MRoomMember, world.Str(invitee), map[string]any{"membership": "invite"}
		req[target.Name] = target
		other[target.Name] = target
		c.desc = "invite of " + invitee
	case 4: // join carrying join_authorised_via_users_server
		auth := C
		if t.Chance(150) {
			auth = A
		}
		p.Type, p.StateKey = spec.MRoomMember, world.Str(sender)
		p.Content = map[string]any{"membership": "join", "join_authorised_via_users_server": "@w:" + string(auth.Name)}
		if restrictedJoins[ver] {
			req[auth.Name] = auth
			other[auth.Name] = auth
		} else {
			r.Probe("authorised_via_in_version_without_restricted_joins")
		}
		c.desc = "restricted join via @w:" + string(auth.Name)
	case 5:
		p.Type, p.StateKey, p.Content = spec.MRoomMember, world.Str("@t:"+string(B.Name)), map[string]any{"membership": "ban"}
		c.desc = "ban of remote user"
	case 6:
		p.Type, p.StateKey, p.Content = spec.MRoomMember, world.Str(sender), map[string]any{"membership": sim.Pick(t, []string{"leave", "knock"})}
		c.desc = "leave/knock"
	case 7: // a leave carrying join_authorised_via_users_server: not a join, so not required
		p.Type, p.StateKey = spec.MRoomMember, world.Str(sender)
		p.Content = map[string]any{"membership": "leave", "join_authorised_via_users_server": "@w:" + string(C.Name)}
		c.desc = "leave with authorised_via"
	}
	// Incidental content: members that look meaningful but change nothing
	// about who has to sign (an invite that stems from a third-party invite is
	// still an invite; a display name, a reason, a membership-like member of an
	// event that is not m.room.member).
	if cm, ok := p.Content.(map[string]any); ok && t.Chance(350) {
		for i, n := 0, t.Range(1, 2); i < n; i++ {
			switch t.Intn(7) {
			case 0:
				cm["third_party_invite"] = sim.Pick(t, []any{map[string]any{}, map[string]any{"display_name": "t...", "signed": map[string]any{"mxid": "@t:" + string(B.Name), "token": "tok", "signatures": map[string]any{string(D.Name): map[string]any{"ed25519:0": "AAAA"}}}}})
				r.Probe("content_carries_third_party_invite")
			case 1:
				cm["displayname"] = "Someone"
			case 2:
				cm["is_direct"] = true
			case 3:
				cm["reason"] = "because"
			case 4:
				if p.Type != spec.MRoomMember {
					cm["membership"] = sim.Pick(t, []string{"invite", "join"})
					if p.StateKey != nil && t.Bool() {
						p.StateKey = world.Str("@t:" + string(B.Name))
					}
					r.Probe("non_member_event_with_membership_content")
				}
			case 5:
				if m, _ := cm["membership"].(string); p.Type != spec.MRoomMember || m != "join" {
					cm["join_authorised_via_users_server"] = "@w:" + string(C.Name)
					r.Probe("authorised_via_on_event_that_is_no_join")
				}
			case 6:
				cm["org.example.nested"] = map[string]any{"membership": "invite", "join_authorised_via_users_server": "@w:" + string(D.Name)}
			}
		}
		c.desc += " +incidental content"
	}
	if cm, ok := p.Content.(map[string]any); ok && p.Type == spec.MRoomMember && t.Chance(70) {
		eff, _ := cm["membership"].(string)
		var others []string
		for _, m := range []string{"invite", "join", "leave", "ban", "knock"} {
			if m != eff {
				others = append(others, m)
			}
		}
		rest := map[string]any{}
		for k, v := range cm {
			if k != "membership" {
				rest[k] = v
			}
		}
		rb, _ := json.Marshal(rest)
		mid := ""
		if len(rb) > 2 {
			mid = string(rb[1:len(rb)-1]) + ","
		}
		p.Content = json.RawMessage(fmt.Sprintf(`{"membership":%q,%s"membership":%q}`, sim.Pick(t, others), mid, eff))
		c.dupMember = true
		c.desc += " +membership given twice (last: " + eff + ")"
		r.Probe("member_content_repeats_membership")
	}
	c.desc = fmt.Sprintf("%s (v%s)", c.desc, ver)
	// timestamp: around a boundary of one of the required servers' keys
	names := make([]string, 0, len(req))
	for n := range req {
		names = append(names, string(n))
	}
	sort.Strings(names)
	for _, n := range names {
		c.required = append(c.required, req[spec.ServerName(n)])
		if o := other[spec.ServerName(n)]; o != nil {
			c.reqOther = append(c.reqOther, o)
		}
	}
	now := time.Now()
	focus := sim.Pick(t, c.required)
	fk := sim.Pick(t, focus.Keys)
	week := 7 * 24 * time.Hour
	switch t.Intn(7) {
	case 0:
		c.ts = now
	case 1:
		if fk.Current() {
			c.ts = now
		} else {
			c.ts = fk.ExpiredAt
		}
	case 2:
		c.ts = now.Add(focus.ValidFor)
	case 3:
		c.ts = now.Add(week)
	case 4:
		c.ts = now.Add(-time.Duration(t.Range(1, 200)) * time.Hour)
	case 5:
		c.ts = fk.From
	default:
		c.ts = now.Add(time.Duration(t.Range(-50, 250)) * time.Hour)
	}
	c.ts = c.ts.Add(time.Duration(t.Range(-1, 1)) * time.Millisecond)
	if c.ts.Before(time.Unix(1, 0)) {
		c.ts = time.Unix(1, 0)
	}
	ev, err := world.Build(impl, p, c.ts, origin.Name, origin.Current())
	if err != nil {
		r.Violate("C06", "build", "error", "EventBuilder.Build failed for %s: %v", c.desc, err)
	}
	var obj map[string]json.RawMessage
	json.Unmarshal(ev.JSON(), &obj)
	delete(obj, "signatures")
	if t.Chance(150) {
		// a second hash algorithm beside sha256, as the hashes object allows
		var h map[string]json.RawMessage
		if json.Unmarshal(obj["hashes"], &h) == nil && h != nil {
			h["sha512"] = json.RawMessage(`"` + spec.Base64Bytes(t.Bytes(64)).Encode() + `"`)
			obj["hashes"], _ = json.Marshal(h)
			r.Probe("event_with_a_second_hash_algorithm")
		}
	}
	c.base, _ = json.Marshal(obj)
	c.unrel = D
	c.baseDesc = c.desc
	w.signCase(impl, c)
	return c
}

// cloneCase makes a second PDU with the same content (hence, in room versions
// 3+, the same event ID; in 1-2 the same sender-chosen ID) but an independently
// drawn signature plan: a batch may carry two such PDUs and each must be judged
// on its own signatures.
func (w *kworld) cloneCase(impl gmsl.IRoomVersion, c0 *evCase) *evCase {
	c := &evCase{ver: c0.ver, plans: map[spec.ServerName][]sigPlan{}, base: c0.base, unrel: c0.unrel, baseDesc: c0.baseDesc + " [same event, other signatures]",
		required: c0.required, reqOther: c0.reqOther, ts: c0.ts, dupMember: c0.dupMember}
	w.r.Probe("batch_with_two_pdus_sharing_an_event_id")
	w.signCase(impl, c)
	return c
}

// signCase applies a tape-chosen signature plan for every required server to
// the unsigned base event.
func (w *kworld) signCase(impl gmsl.IRoomVersion, c *evCase) {
	r, t := w.r, w.r.T
	D := c.unrel
	plan := func(sv *world.Server) sigPlan {
		k := sv.Current()
		pl := sigPlan{server: sv, keyID: k.ID, priv: k.Priv, signer: k, kind: "current"}
		switch t.Weighted([]int{8, 3, 2, 2, 2, 1, 1, 1}) {
		case 7:
			// made with a key of somebody's making, under this server's name
			// and a key id it never published (or its current one) - and some
			// other server, asked for its own keys, will vouch for exactly
			// that key in this server's name. Nobody but a server itself (or a
			// notary the client trusts) can say what its keys are.
			rk := w.rogue.Current()
			pl.keyID = sim.Pick(t, []gmsl.KeyID{"ed25519:invented", "ed25519:invented", k.ID})
			pl.priv, pl.signer, pl.kind = rk.Priv, rk, "forged_key"
			if w.client != nil && w.client.forgeVictim == nil {
				w.client.forgeVictim, w.client.forgeKeyID = sv, pl.keyID
				w.client.directDown = map[spec.ServerName]bool{}
				for _, o := range w.origins {
					if o != sv && t.Chance(700) {
						w.client.directDown[o.Name] = true
					}
				}
			}
		case 1:
			k = sim.Pick(t, sv.Keys)
			pl = sigPlan{server: sv, keyID: k.ID, priv: k.Priv, signer: k, kind: "generation:" + string(k.ID)}
		case 2:
			pl.kind = "absent"
		case 3:
			pl.corrupt, pl.kind = true, "corrupt"
		case 4: // made with somebody else's key under this server's name and key id
			pl.priv, pl.signer, pl.kind = D.Current().Priv, D.Current(), "wrong_key"
		case 5:
			pl.keyID, pl.kind = "ed25519:never_published", "unknown_key_id"
		case 6:
			pl.keyID, pl.kind = "rsa:1", "unsupported_algorithm"
		}
		if pl.kind != "current" {
			r.Fault("sig_" + strings.SplitN(pl.kind, ":", 2)[0])
			r.Nontriv = true
		}
		return pl
	}
	ev, err := impl.NewEventFromTrustedJSON(c.base, false)
	if err != nil {
		r.Violate("C06", "build", "reparse", "re-parse of unsigned event failed: %v", err)
	}
	// Other implementations sign too: in some runs the signatures are made
	// over a redaction computed here from the specification's keep-lists
	// (harness/ref), byte-preserving for whatever is kept, instead of by the
	// library's own Sign. Only for event kinds on which specification and
	// library agree about what is kept (no third-party invites, no create).
	kl, known := ref.RedactionKeepList(string(c.ver))
	// (the reference lists of unstable versions are upper bounds only)
	stable := map[gmsl.RoomVersion]bool{"1": true, "2": true, "3": true, "4": true, "5": true, "6": true, "7": true, "8": true, "9": true, "10": true, "11": true, "12": true}
	foreign := known && stable[c.ver] && t.Chance(400)
	var cm map[string]json.RawMessage
	if json.Unmarshal(ev.Content(), &cm) == nil {
		if _, tpi := cm["third_party_invite"]; tpi || c.dupMember {
			// what survives of a third_party_invite member (`signed` only, from
			// version 11; and what if there is no `signed`?) is where
			// implementations may differ: the library signs these itself
			foreign = false
		}
	}
	if foreign {
		r.Probe("signed_by_another_implementation")
	}
	sign := func(e gmsl.PDU, name string, keyID gmsl.KeyID, priv []byte) gmsl.PDU {
		if !foreign {
			return e.Sign(name, keyID, priv)
		}
		out, ferr := foreignSign(kl, e.JSON(), name, keyID, priv)
		if ferr != nil {
			r.Violate("C06", "build", "foreign_sign", "reference signer failed: %v", ferr)
		}
		ne, perr := impl.NewEventFromTrustedJSON(out, false)
		if perr != nil {
			r.Violate("C06", "build", "reparse", "re-parse after reference signing failed: %v", perr)
		}
		return ne
	}
	for _, sv := range c.required {
		pl := plan(sv)
		c.plans[sv.Name] = append(c.plans[sv.Name], pl)
		if pl.kind != "absent" {
			ev = sign(ev, string(sv.Name), pl.keyID, pl.priv)
		}
	}
	// second signatures of required servers, and unrelated servers
	for _, sv := range c.required {
		if t.Chance(200) {
			pl := plan(sv)
			if pl.kind != "absent" && !hasKeyID(c.plans[sv.Name], pl.keyID) {
				c.plans[sv.Name] = append(c.plans[sv.Name], pl)
				ev = sign(ev, string(sv.Name), pl.keyID, pl.priv)
				r.Probe("second_signature_of_required_server")
			}
		}
	}
	isReq := false
	for _, sv := range c.required {
		if sv == D {
			isReq = true
		}
	}
	if !isReq && t.Chance(300) {
		ev = sign(ev, string(D.Name), D.Current().ID, sim.Pick(t, [][]byte{D.Current().Priv, c.required[0].Current().Priv}))
		r.Probe("unrelated_signature")
	}
	// apply corruption to the JSON
	var obj map[string]json.RawMessage
	json.Unmarshal(ev.JSON(), &obj)
	sigs := map[string]map[string]string{}
	if raw, ok := obj["signatures"]; ok {
		json.Unmarshal(raw, &sigs)
	}
	for _, n := range sortedNames(c.plans) {
		for _, pl := range c.plans[spec.ServerName(n)] {
			if pl.corrupt {
				var b spec.Base64Bytes
				b.Decode(sigs[n][string(pl.keyID)])
				b[t.Intn(len(b))] ^= 1 << uint(t.Intn(8))
				sigs[n][string(pl.keyID)] = b.Encode()
			}
		}
	}
	obj["signatures"], _ = json.Marshal(sigs)
	raw, _ := json.Marshal(obj)
	ev2, err := impl.NewEventFromTrustedJSON(raw, false)
	if err != nil {
		r.Violate("C06", "build", "reparse", "re-parse of signed event failed: %v", err)
	}
	c.ev = ev2
	var ps []string
	for _, n := range sortedNames(c.plans) {
		for _, pl := range c.plans[spec.ServerName(n)] {
			ps = append(ps, n+"="+pl.kind)
		}
	}
	c.desc = c.baseDesc + fmt.Sprintf(" ts=%d signers[%s]", spec.AsTimestamp(c.ts), strings.Join(ps, " "))
	r.Logf("t=%v built %s", r.Now(), c.desc)
}

// foreignSign signs an event the way an independent implementation would: it
// redacts by the specification's keep-list, keeping the bytes of whatever
// survives, signs that, and adds the one signature to the event.
func foreignSign(kl *ref.KeepList, evJSON []byte, name string, keyID gmsl.KeyID, priv []byte) ([]byte, error) {
	var top map[string]json.RawMessage
	if err := json.Unmarshal(evJSON, &top); err != nil {
		return nil, err
	}
	var typ string
	_ = json.Unmarshal(top["type"], &typ)
	red := map[string]json.RawMessage{}
	for k, v := range top {
		if kl.TopKept(k) && k != "signatures" && k != "unsigned" {
			red[k] = v
		}
	}
	var content map[string]json.RawMessage
	if err := json.Unmarshal(top["content"], &content); err != nil {
		return nil, err
	}
	kept := map[string]json.RawMessage{}
	for k, v := range content {
		if kl.ContentKept(typ, k) {
			kept[k] = v
		}
	}
	red["content"], _ = json.Marshal(kept)
	raw, _ := json.Marshal(red)
	signed, err := gmsl.SignJSON(name, keyID, priv, raw)
	if err != nil {
		return nil, err
	}
	var so struct {
		Signatures map[string]map[string]string `json:"signatures"`
	}
	if err := json.Unmarshal(signed, &so); err != nil {
		return nil, err
	}
	sigs := map[string]map[string]string{}
	if raw, ok := top["signatures"]; ok {
		_ = json.Unmarshal(raw, &sigs)
	}
	if sigs[name] == nil {
		sigs[name] = map[string]string{}
	}
	sigs[name][string(keyID)] = so.Signatures[name][string(keyID)]
	top["signatures"], _ = json.Marshal(sigs)
	return json.Marshal(top)
}

func hasKeyID(ps []sigPlan, id gmsl.KeyID) bool {
	for _, p := range ps {
		if p.keyID == id {
			return true
		}
	}
	return false
}

func sortedNames(m map[spec.ServerName][]sigPlan) []string {
	var ns []string
	for n := range m {
		ns = append(ns, string(n))
	}
	sort.Strings(ns)
	return ns
}

// expect computes, from the ledger alone, whether every required server has
// at least one valid signature, and if not, why.
func (w *kworld) expect(c *evCase, t1 time.Time, ring bool) (bool, string) {
	return w.expectWith(c, t1, ring, nil)
}

// expectWith is expect with, for (server, key ID) pairs the verifier's
// database held before the gap and that are still inside their validity at
// t1, the database's view (active until its valid_until_ts) instead of the
// ledger's.
func (w *kworld) expectWith(c *evCase, t1 time.Time, ring bool, cached map[pair]entry) (bool, string) {
	ts := spec.AsTimestamp(c.ts)
	for _, sv := range c.required {
		ok := false
		why := "absent"
		for _, pl := range c.plans[sv.Name] {
			switch {
			case pl.kind == "absent":
				continue
			case pl.corrupt:
				why = "corrupt"
				continue
			case !strings.HasPrefix(string(pl.keyID), "ed25519:"):
				why = "unsupported_algorithm"
				continue
			}
			k := sv.KeyByID(pl.keyID)
			if k == nil {
				why = "unknown_key_id"
				continue
			}
			if pl.signer != k {
				why = "wrong_key"
				continue
			}
			expired := !k.Current() && !k.ExpiredAt.After(t1)
			if os.Getenv("C06_DEBUG") != "" {
				w.r.Logf("    expect: %s %s current=%v expiredAt=%v t1=%v ts=%v cached=%d", sv.Name, pl.keyID, k.Current(), k.ExpiredAt.UnixMilli(), t1.UnixMilli(), ts, len(cached))
			}
			switch {
			case expired:
				if ts < spec.AsTimestamp(k.ExpiredAt) {
					ok = true
				} else {
					why = "key_expired_before_event"
				}
			case !ring || !isStrict(c.ver):
				// the ledger verifier, and lenient room versions, do not
				// consult valid_until_ts of a current key
				ok = true
			default:
				limit := spec.AsTimestamp(t1.Add(sv.ValidFor))
				if c7 := spec.AsTimestamp(t1.Add(7 * 24 * time.Hour)); c7 < limit {
					limit = c7
				}
				if ts <= limit {
					ok = true
				} else {
					why = "beyond_valid_until"
				}
			}
		}
		if !ok {
			return false, fmt.Sprintf("%s: required server %s has no valid signature", why, sv.Name)
		}
	}
	return true, "all required signers valid"
}

// ---- what the real key ring is expected to say, given its database ------------------

// truthRecord is what server sv publishes about key id at t1 (honest servers).
func truthRecord(sv *world.Server, id gmsl.KeyID, t1 time.Time) (entry, bool) {
	k := sv.KeyByID(id)
	if k == nil || k.From.After(t1) {
		return entry{}, false
	}
	e := entry{VerifyKey: gmsl.VerifyKey{Key: spec.Base64Bytes(k.Pub)}}
	if k.Current() || k.ExpiredAt.After(t1) {
		e.ValidUntilTS = spec.AsTimestamp(t1.Add(sv.ValidFor))
	} else {
		e.ExpiredTS = spec.AsTimestamp(k.ExpiredAt)
	}
	return e, true
}

// recordValid is the key-validity rule applied to one obtained record.
func recordValid(e entry, ts spec.Timestamp, t1 time.Time, strict bool) bool {
	if e.ExpiredTS != 0 {
		return ts < e.ExpiredTS
	}
	if !strict {
		return true
	}
	limit := e.ValidUntilTS
	if c7 := spec.AsTimestamp(t1.Add(7 * 24 * time.Hour)); c7 < limit {
		limit = c7
	}
	return e.ValidUntilTS != 0 && ts <= limit
}

// passes evaluates one event under a view (pair -> record): every required
// server needs one signature that is intact, of a supported algorithm, made
// with the key the record holds, and valid at the event's timestamp.
func (w *kworld) passes(c *evCase, t1 time.Time, view func(pair) (entry, bool)) (bool, string) {
	ts := spec.AsTimestamp(c.ts)
	for _, sv := range c.required {
		ok, why := false, "absent"
		for _, pl := range c.plans[sv.Name] {
			switch {
			case pl.kind == "absent":
				continue
			case pl.corrupt:
				why = "corrupt"
				continue
			case !strings.HasPrefix(string(pl.keyID), "ed25519:"):
				why = "unsupported_algorithm"
				continue
			}
			e, have := view(pair{ServerName: sv.Name, KeyID: pl.keyID})
			if !have {
				why = "unknown_key_id"
				continue
			}
			if pl.signer == nil || string(e.Key) != string(pl.signer.Pub) {
				why = "wrong_key"
				continue
			}
			if !recordValid(e, ts, t1, isStrict(c.ver)) {
				if e.ExpiredTS != 0 {
					why = "key_expired_before_event"
				} else {
					why = "beyond_valid_until"
				}
				continue
			}
			ok = true
		}
		if !ok {
			return false, fmt.Sprintf("%s: required server %s has no valid signature", why, sv.Name)
		}
	}
	return true, "all required signers valid"
}

// ringShim passes VerifyJSONs through to the real key ring and records, per
// call, which servers were asked for and which the key client really answered
// for during the call.
type ringShim struct {
	w     *kworld
	ring  *gmsl.KeyRing
	calls []ringCall
}

type ringCall struct {
	servers map[spec.ServerName]bool
	fetched map[spec.ServerName]bool
}

func (s *ringShim) VerifyJSONs(ctx context.Context, reqs []gmsl.VerifyJSONRequest) ([]gmsl.VerifyJSONResult, error) {
	s.w.client.mu.Lock()
	from := len(s.w.client.answered)
	s.w.client.mu.Unlock()
	res, err := s.ring.VerifyJSONs(ctx, reqs)
	c := ringCall{servers: map[spec.ServerName]bool{}, fetched: map[spec.ServerName]bool{}}
	for _, q := range reqs {
		c.servers[q.ServerName] = true
	}
	s.w.client.mu.Lock()
	for _, n := range s.w.client.answered[from:] {
		c.fetched[n] = true
	}
	s.w.client.mu.Unlock()
	s.calls = append(s.calls, c)
	return res, err
}

// flowExpect says, event by event, what the real key ring may and must
// answer. The verifier has no ground truth: it knows what its database held
// (db0, then whatever earlier calls fetched and stored) and what the call at
// hand fetched (honest, reachable servers: the ledger as of t1). An event may
// be accepted if every required server has a signature that is valid under
// the record the ring held or under the record it fetched; it must be
// accepted if every required server has one that is valid under what the
// ring ends the call with (fetched where it fetched, held otherwise). Which
// of two obtained records the ring prefers when it did not have to decide is
// left to it.
func (w *kworld) flowExpect(cs []*evCase, db0 map[pair]entry, t1 time.Time, calls []ringCall) (can, must []bool, why []string) {
	db := map[pair]entry{}
	for p, e := range db0 {
		db[p] = e
	}
	can, must, why = make([]bool, len(cs)), make([]bool, len(cs)), make([]string, len(cs))
	k := 0
	for i, c := range cs {
		// the call made for this event: the next one whose servers are the
		// event's required servers (events without any usable signature of a
		// required server still make the call; one that fails before it does not)
		var call *ringCall
		if k < len(calls) {
			match := len(calls[k].servers) == len(c.required)
			for _, sv := range c.required {
				if !calls[k].servers[sv.Name] {
					match = false
				}
			}
			if match {
				call = &calls[k]
				k++
			}
		}
		fetched := map[spec.ServerName]bool{}
		if call != nil {
			fetched = call.fetched
		}
		held := func(p pair) (entry, bool) { e, ok := db[p]; return e, ok }
		ended := func(p pair) (entry, bool) {
			if fetched[p.ServerName] {
				if sv := w.srv(p.ServerName); sv != nil {
					return truthRecord(sv, p.KeyID, t1)
				}
				return entry{}, false
			}
			return held(p)
		}
		okEnded, whyEnded := w.passes(c, t1, ended)
		must[i] = okEnded
		// may accept: per required server, valid under the held or the ended record
		can[i] = true
		for _, sv := range c.required {
			one := &evCase{required: []*world.Server{sv}, plans: c.plans, ts: c.ts, ver: c.ver}
			a, _ := w.passes(one, t1, held)
			b, wb := w.passes(one, t1, ended)
			if !a && !b {
				can[i], why[i] = false, wb
				break
			}
		}
		if can[i] {
			why[i] = whyEnded
		}
		if len(fetched) > 0 {
			w.r.Probe("c06_decided_after_fetch")
		} else if okEnded {
			w.r.Probe("c06_accept_with_cached_keys")
		}
		// what the call leaves in the database
		for name := range fetched {
			if sv := w.srv(name); sv != nil {
				for _, key := range sv.Keys {
					if e, ok := truthRecord(sv, key.ID, t1); ok {
						db[pair{ServerName: name, KeyID: key.ID}] = e
					}
				}
			}
		}
	}
	return can, must, why
}
