package keysim

import (
	"context"
	"crypto/ed25519"
	"encoding/json"
	"fmt"
	"strings"
	"time"

	gmsl "github.com/matrix-org/gomatrixserverlib"
	"github.com/matrix-org/gomatrixserverlib/spec"

	"verifharness/sim"
	"verifharness/world"
)

// Pseudo-ID rooms (org.matrix.msc4014): the sender of an event is a per-room
// ed25519 public key, the event is signed by that key under the key ID
// "ed25519:1", an invite also by the invited key (its state key), and a join
// carries content.mxid_mapping {user_room_key, user_id, signatures} in which
// the server of user_id vouches for the key. The property's required signers
// read, for this version: the sender key; for invites the invited key; for
// joins the server of mxid_mapping.user_id over the mapping, with a key valid
// at the event's origin_server_ts. Signatures of anybody else, on the event or
// inside the mapping, never matter.
//
// Joins carrying join_authorised_via_users_server are left out in this
// version: the library reads the member as a user ID and then asks the
// self-verifier about its server name, so what is required is not defined.

const pseudoKeyID = gmsl.KeyID("ed25519:1")

type pseudoCase struct {
	ev   gmsl.PDU
	desc string
	ts   time.Time
	// why the event must be refused on grounds that need no key lookup ("" = none)
	refuse string
	// the mapping's required signer as an ordinary case (nil: no mapping needed)
	mapping *evCase
	// the sender key and room, so that a later event can come from the same key
	uk   ed25519.PrivateKey
	room string
}

func bodyC06Pseudo(r *sim.Run) {
	t := r.T
	s := sim.NewSched(r)
	now := time.Now()
	w := &kworld{r: r, s: s, led: world.NewLedger()}
	validFors := []time.Duration{24 * time.Hour, time.Hour, 8 * 24 * time.Hour, 30 * 24 * time.Hour}
	mk := func(n string) *world.Server {
		sv := world.NewServer(t, n, now)
		sv.ValidFor = sim.Pick(t, validFors)
		w.origins = append(w.origins, w.led.Add(sv))
		return sv
	}
	A, B, D := mk("a.example"), mk("b.example"), mk("d.example")
	w.local = w.led.Add(world.NewServer(t, "local.example", now))
	w.rogue = world.NewServer(t, "rogue.example", now)
	w.db = &simDB{w: w, durable: map[pair]entry{}, volatile: map[pair]entry{}}
	w.client = &simClient{w: w, handed: map[string][]*respRec{}}
	time.Sleep(time.Duration(t.Range(1, 100)) * time.Hour)
	for _, sv := range w.origins {
		for i := t.Weighted([]int{3, 3, 1}); i > 0; i-- {
			sv.Rotate(t, time.Now())
			time.Sleep(time.Duration(t.Range(1, 30)) * time.Hour)
		}
	}
	impl := gmsl.MustGetRoomVersion(gmsl.RoomVersionPseudoIDs)
	r.Probe("pseudo_id_room")
	var cases []*pseudoCase
	for i, n := 0, t.Range(1, 3); i < n; i++ {
		// a second join by a key that has joined before: its mapping is judged afresh
		var again *pseudoCase
		if i > 0 && t.Chance(400) {
			again = cases[i-1]
			r.Probe("pseudo_second_event_by_the_same_key")
		}
		cases = append(cases, w.buildPseudo(impl, A, B, D, again))
	}
	if t.Chance(500) {
		d := time.Duration(sim.Pick(t, []int{1, 3600, 86400, 3 * 86400, 7 * 86400, 8 * 86400, 40 * 86400})) * time.Second
		time.Sleep(d)
		r.Fault("clock_jump")
		r.Nontriv = true
		r.Logf("t=%v advanced %v before verification", r.Now(), d)
		for _, sv := range w.origins {
			if t.Chance(250) {
				sv.Rotate(t, time.Now().Add(-time.Duration(t.Range(0, int(d/time.Second)))*time.Second))
				r.Fault("key_rotate")
				r.Logf("  %s rotated during the gap", sv.Name)
			}
		}
	}
	useRing := t.Chance(600)
	var verifier gmsl.JSONVerifier
	if useRing {
		verifier = &gmsl.KeyRing{KeyDatabase: w.db, KeyFetchers: []gmsl.KeyFetcher{&gmsl.DirectKeyFetcher{
			Client:            w.client,
			IsLocalServerName: func(n spec.ServerName) bool { return n == w.local.Name },
			LocalPublicKey:    spec.Base64Bytes(w.local.Keys[0].Pub),
		}}}
		r.Probe("verifier_real_keyring")
	} else {
		verifier = &world.Verifier{L: w.led}
		r.Probe("verifier_ledger")
	}
	uid := func(roomID spec.RoomID, sender spec.SenderID) (*spec.UserID, error) {
		return spec.NewUserID("@u:"+string(A.Name), true)
	}
	s.Go("verifier", func() {
		ctx := sim.WithTask(context.Background(), "verifier")
		t1 := time.Now()
		for i, c := range cases {
			r.Op()
			err := gmsl.VerifyEventSignatures(ctx, c.ev, verifier, uid)
			want, why := c.refuse == "", c.refuse
			if want && c.mapping != nil {
				want, why = w.expect(c.mapping, t1, useRing)
				if !want {
					why = "mxid_mapping " + why
				}
			}
			r.Logf("t=%v verify #%d %s -> %v (expected ok=%v: %s)", r.Now(), i, c.desc, err, want, why)
			if err == nil && !want {
				r.Violate("C06", "soundness", "pseudo_"+whyTag(why), "pseudo-ID event %s verified although %s", c.desc, why)
			}
			if err != nil && want {
				r.Violate("C06", "completeness", "pseudo_all_required_valid", "pseudo-ID event %s refused (%v) although the sender key%s validly signed it", c.desc, err,
					map[bool]string{true: ", and the user's server the mapping,", false: ""}[c.mapping != nil])
			}
		}
	})
	s.RunAll()
}

// keyPlan signs (or not) obj under a pseudo-ID's name and returns why the
// signature is not acceptable ("" if it is).
func (w *kworld) keyPlan(obj []byte, who string, id string, priv ed25519.PrivateKey, other ed25519.PrivateKey, home *world.Server) ([]byte, string) {
	r, t := w.r, w.r.T
	sign := func(name string, kid gmsl.KeyID, k ed25519.PrivateKey) []byte {
		out, err := gmsl.SignJSON(name, kid, k, obj)
		if err != nil {
			r.Violate("C06", "build", "sign", "SignJSON failed: %v", err)
		}
		return out
	}
	bad := ""
	switch t.Weighted([]int{10, 2, 2, 2, 2, 2}) {
	case 0:
		return sign(id, pseudoKeyID, priv), ""
	case 1:
		bad = "absent: " + who + " key has not signed"
	case 2:
		obj = sign(id, pseudoKeyID, priv)
		var m map[string]json.RawMessage
		json.Unmarshal(obj, &m)
		sigs := map[string]map[string]string{}
		json.Unmarshal(m["signatures"], &sigs)
		var b spec.Base64Bytes
		b.Decode(sigs[id][string(pseudoKeyID)])
		b[t.Intn(len(b))] ^= 1 << uint(t.Intn(8))
		sigs[id][string(pseudoKeyID)] = b.Encode()
		m["signatures"], _ = json.Marshal(sigs)
		obj, _ = json.Marshal(m)
		bad = "corrupt: signature of the " + who + " key damaged"
	case 3:
		obj = sign(id, pseudoKeyID, other)
		bad = "wrong_key: signature under the " + who + " key's name made with another key"
	case 4:
		obj = sign(id, "ed25519:2", priv)
		bad = "unknown_key_id: " + who + " key signed under a key ID other than ed25519:1"
	case 5: // the user's server signs in place of the key
		obj = sign(string(home.Name), home.Current().ID, home.Current().Priv)
		bad = "absent: signed by the " + who + "'s server but not by the " + who + " key"
	}
	r.Fault("sig_" + whyTag(bad))
	r.Nontriv = true
	return obj, bad
}

func (w *kworld) buildPseudo(impl gmsl.IRoomVersion, A, B, D *world.Server, again *pseudoCase) *pseudoCase {
	r, t := w.r, w.r.T
	c := &pseudoCase{}
	uk := ed25519.NewKeyFromSeed(t.Bytes(32))
	if again != nil {
		uk = again.uk
	}
	ik := ed25519.NewKeyFromSeed(t.Bytes(32))
	ok := ed25519.NewKeyFromSeed(t.Bytes(32)) // somebody else's key
	sender := string(spec.SenderIDFromPseudoIDKey(uk))
	invitee := string(spec.SenderIDFromPseudoIDKey(ik))
	// a sender ID that is not a 32-byte key can have signed nothing
	malformed := ""
	if again == nil && t.Chance(120) {
		pub := uk.Public().(ed25519.PublicKey)
		malformed = sim.Pick(t, []string{"abcd", "@u:" + string(A.Name), spec.Base64Bytes(pub[:31]).Encode(), spec.Base64Bytes(append(append([]byte{}, pub...), 7)).Encode(), "AA", string(A.Name)})
		sender = malformed
		r.Probe("pseudo_malformed_sender_id")
		r.Nontriv = true
	}
	p := world.Proto{RoomID: world.FakeRoomID(t, impl, A.Name), Sender: sender, Depth: int64(t.Range(1, 50)),
		Prev: []string{world.FakeEventID(t, impl, A.Name)}, Auth: []string{world.FakeEventID(t, impl, A.Name)}}
	if again != nil {
		p.RoomID = again.room
	}
	c.uk, c.room = uk, p.RoomID
	needInvitee, join := false, false
	kind := t.Weighted([]int{2, 1, 4, 3, 1, 1})
	if again != nil {
		kind = 2
	}
	switch kind {
	case 0:
		p.Type, p.Content = "m.room.message", map[string]any{"body": "hi", "msgtype": "m.text"}
		c.desc = "message"
	case 1:
		p.Type, p.StateKey, p.Content = "m.room.topic", world.Str(""), map[string]any{"topic": "x"}
		c.desc = "topic"
	case 2:
		join = true
		p.Type, p.StateKey = spec.MRoomMember, world.Str(sender)
		c.desc = "join"
	case 3:
		needInvitee = true
		if malformed != "" && t.Bool() {
			// a well-formed sender inviting a malformed key
			sender, malformed = string(spec.SenderIDFromPseudoIDKey(uk)), ""
			p.Sender = sender
			invitee = sim.Pick(t, []string{"abcd", "@t:" + string(B.Name), "AA"})
			c.refuse = "absent: the invited state key " + invitee + " is not a 32-byte key"
			r.Probe("pseudo_malformed_invitee")
		}
		p.Type, p.StateKey, p.Content = spec.MRoomMember, world.Str(invitee), map[string]any{"membership": "invite"}
		c.desc = "invite"
	case 4:
		p.Type, p.StateKey, p.Content = spec.MRoomMember, world.Str(invitee), map[string]any{"membership": "ban"}
		c.desc = "ban"
	case 5:
		p.Type, p.StateKey, p.Content = spec.MRoomMember, world.Str(sender), map[string]any{"membership": sim.Pick(t, []string{"leave", "knock"})}
		c.desc = "leave/knock"
	}
	if malformed != "" {
		c.refuse = "absent: the sender ID " + malformed + " is not a 32-byte key"
	}
	// timestamp around the boundaries of the user's server's keys
	now := time.Now()
	fk := sim.Pick(t, A.Keys)
	switch t.Intn(7) {
	case 0:
		c.ts = now
	case 1:
		if fk.Current() {
			c.ts = now
		} else {
			c.ts = fk.ExpiredAt
		}
	case 2:
		c.ts = now.Add(A.ValidFor)
	case 3:
		c.ts = now.Add(7 * 24 * time.Hour)
	case 4:
		c.ts = now.Add(-time.Duration(t.Range(1, 200)) * time.Hour)
	case 5:
		c.ts = fk.From
	default:
		c.ts = now.Add(time.Duration(t.Range(-50, 250)) * time.Hour)
	}
	c.ts = c.ts.Add(time.Duration(t.Range(-1, 1)) * time.Millisecond)
	if c.ts.Before(time.Unix(1, 0)) {
		c.ts = time.Unix(1, 0)
	}
	if join {
		content := map[string]any{"membership": "join"}
		switch t.Weighted([]int{8, 1, 1}) {
		case 0:
			m, mc := w.buildMapping(sender, A, B, D, c.ts)
			content["mxid_mapping"] = m
			c.mapping = mc
			c.desc += " " + mc.desc
		case 1:
			if c.refuse == "" {
				c.refuse = "absent: the join carries no mxid_mapping"
			}
			c.desc += " without mxid_mapping"
			r.Probe("pseudo_join_without_mapping")
			r.Nontriv = true
		case 2:
			content["mxid_mapping"] = nil
			if c.refuse == "" {
				c.refuse = "absent: the join carries mxid_mapping null"
			}
			c.desc += " with mxid_mapping null"
			r.Nontriv = true
		}
		p.Content = content
	}
	ev, err := world.Build(impl, p, c.ts, spec.ServerName(sender), &world.Key{ID: pseudoKeyID, Priv: uk})
	if err != nil {
		r.Violate("C06", "build", "error", "EventBuilder.Build failed for pseudo-ID %s: %v", c.desc, err)
	}
	var obj map[string]json.RawMessage
	json.Unmarshal(ev.JSON(), &obj)
	delete(obj, "signatures")
	base, _ := json.Marshal(obj)
	un, err := impl.NewEventFromTrustedJSON(base, false)
	if err != nil {
		r.Violate("C06", "build", "reparse", "re-parse of unsigned pseudo-ID event failed: %v", err)
	}
	// signatures go over the redacted event: sign that, then graft the
	// signatures onto the full event
	red, err := impl.RedactEventJSON(un.JSON())
	if err != nil {
		r.Violate("C06", "build", "redact", "RedactEventJSON failed: %v", err)
	}
	var bad string
	red, bad = w.keyPlan(red, "sender", sender, uk, ok, A)
	if c.refuse == "" {
		c.refuse = bad
	}
	plans := []string{"sender=" + orValid(bad)}
	if needInvitee {
		red, bad = w.keyPlan(red, "invited", invitee, ik, ok, B)
		if c.refuse == "" {
			c.refuse = bad
		}
		plans = append(plans, "invited="+orValid(bad))
	}
	// unrelated signatures: a server's, and another key's
	if t.Chance(300) {
		red, _ = gmsl.SignJSON(string(D.Name), D.Current().ID, sim.Pick(t, []ed25519.PrivateKey{D.Current().Priv, uk}), red)
		r.Probe("unrelated_signature")
	}
	if t.Chance(150) {
		red, _ = gmsl.SignJSON(string(spec.SenderIDFromPseudoIDKey(ok)), pseudoKeyID, sim.Pick(t, []ed25519.PrivateKey{ok, uk}), red)
		r.Probe("unrelated_pseudo_id_signature")
	}
	var redObj map[string]json.RawMessage
	json.Unmarshal(red, &redObj)
	if sg, have := redObj["signatures"]; have {
		obj["signatures"] = sg
	}
	raw, _ := json.Marshal(obj)
	c.ev, err = impl.NewEventFromTrustedJSON(raw, false)
	if err != nil {
		r.Violate("C06", "build", "reparse", "re-parse of signed pseudo-ID event failed: %v", err)
	}
	c.desc = fmt.Sprintf("%s (v%s) ts=%d signers[%s]", c.desc, impl.Version(), spec.AsTimestamp(c.ts), strings.Join(plans, " "))
	r.Logf("t=%v built %s", r.Now(), c.desc)
	return c
}

func orValid(bad string) string {
	if bad == "" {
		return "valid"
	}
	return whyTag(bad)
}

// buildMapping makes content.mxid_mapping for the sender key: the user ID of
// a.example (or, sometimes, of another server), signed according to a
// tape-chosen plan by the server of that user ID, and maybe by others.
func (w *kworld) buildMapping(sender string, A, B, D *world.Server, ts time.Time) (json.RawMessage, *evCase) {
	r, t := w.r, w.r.T
	home := A
	userID := "@u:" + string(A.Name)
	mc := &evCase{ver: gmsl.RoomVersionPseudoIDs, plans: map[spec.ServerName][]sigPlan{}, ts: ts, unrel: D}
	signers := []*world.Server{A}
	switch t.Weighted([]int{10, 2, 1}) {
	case 1: // the mapping names a user of b.example but only a.example vouches
		home, userID = B, "@victim:"+string(B.Name)
		r.Probe("pseudo_mapping_signed_by_other_server_only")
		r.Nontriv = true
	case 2: // nobody vouches
		signers = nil
		r.Probe("pseudo_mapping_unsigned")
		r.Nontriv = true
	}
	mc.required = []*world.Server{home}
	raw, _ := json.Marshal(map[string]any{"user_room_key": sender, "user_id": userID})
	for _, sv := range signers {
		k := sv.Current()
		pl := sigPlan{server: sv, keyID: k.ID, priv: k.Priv, signer: k, kind: "current"}
		switch t.Weighted([]int{8, 3, 2, 2, 2, 1, 1}) {
		case 1:
			k = sim.Pick(t, sv.Keys)
			pl = sigPlan{server: sv, keyID: k.ID, priv: k.Priv, signer: k, kind: "generation:" + string(k.ID)}
		case 2:
			pl.kind = "absent"
		case 3:
			pl.corrupt, pl.kind = true, "corrupt"
		case 4:
			pl.priv, pl.signer, pl.kind = D.Current().Priv, D.Current(), "wrong_key"
		case 5:
			pl.keyID, pl.kind = "ed25519:never_published", "unknown_key_id"
		case 6:
			pl.keyID, pl.kind = "rsa:1", "unsupported_algorithm"
		}
		if pl.kind != "current" {
			r.Fault("sig_" + strings.SplitN(pl.kind, ":", 2)[0])
			r.Nontriv = true
		}
		mc.plans[sv.Name] = append(mc.plans[sv.Name], pl)
		if pl.kind == "absent" {
			continue
		}
		raw, _ = gmsl.SignJSON(string(sv.Name), pl.keyID, pl.priv, raw)
		if pl.corrupt {
			raw = flipSignature(t, raw, string(sv.Name), string(pl.keyID))
		}
	}
	// others may have signed the mapping too; their signatures, good or bad, do not matter
	extra := ""
	if t.Chance(300) {
		raw, _ = gmsl.SignJSON(string(D.Name), D.Current().ID, D.Current().Priv, raw)
		extra = " +valid signature of " + string(D.Name)
		if t.Bool() {
			raw = flipSignature(t, raw, string(D.Name), string(D.Current().ID))
			extra = " +damaged signature of " + string(D.Name)
		}
		r.Probe("pseudo_mapping_extra_signature")
		r.Nontriv = true
	}
	var ps []string
	for _, n := range sortedNames(mc.plans) {
		for _, pl := range mc.plans[spec.ServerName(n)] {
			ps = append(ps, n+"="+pl.kind)
		}
	}
	mc.desc = fmt.Sprintf("mapping{%s signers[%s]%s}", userID, strings.Join(ps, " "), extra)
	return raw, mc
}

func flipSignature(t *sim.Tape, raw []byte, name, keyID string) []byte {
	var m map[string]json.RawMessage
	json.Unmarshal(raw, &m)
	sigs := map[string]map[string]string{}
	json.Unmarshal(m["signatures"], &sigs)
	var b spec.Base64Bytes
	b.Decode(sigs[name][keyID])
	if len(b) == 0 {
		return raw
	}
	b[t.Intn(len(b))] ^= 1 << uint(t.Intn(8))
	sigs[name][keyID] = b.Encode()
	m["signatures"], _ = json.Marshal(sigs)
	out, _ := json.Marshal(m)
	return out
}
