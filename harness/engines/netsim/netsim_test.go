package netsim

import (
	"context"
	"errors"
	"net"
	"os"
	"testing"

	"github.com/matrix-org/gomatrixserverlib/verifrt"

	"verifharness/sim"
)

func body(r *sim.Run) {
	t := r.T
	verifrt.SetSalt(uint64(t.Intn(4)))
	r.Defer(func() { verifrt.SetSalt(0) })
	// NETSIM_WORKLOAD pins the workload (throughput measurements only; the
	// driver never sets it)
	switch os.Getenv("NETSIM_WORKLOAD") {
	case "resolve":
		bodyResolve(r)
		return
	case "dial":
		bodyDial(r)
		return
	case "dnscache":
		bodyDNSCache(r)
		return
	case "transports":
		bodyTransports(r)
		return
	}
	if r.Prop == "C19" {
		switch t.Weighted([]int{4, 1}) {
		case 0:
			r.Logf("workload dnscache")
			bodyDNSCache(r)
		default:
			r.Logf("workload transports")
			bodyTransports(r)
		}
		return
	}
	switch t.Weighted([]int{4, 1}) {
	case 0:
		r.Logf("workload resolve")
		bodyResolve(r)
	default:
		r.Logf("workload dial")
		bodyDial(r)
	}
}

const ruleC16 = "one run = a world of 5 DNS names (each: well-known absent / status / document shape / size around 50 KiB / Content-Length present, absent or lying / Cache-Control and Expires variants / body delivered whole, bytewise, reset or paused; _matrix-fed and _matrix SRV: NXDOMAIN, NODATA, 1-3 records, SERVFAIL, timeout) and either (80%) 2-6 operations ResolveServer / LookupWellKnown over server names of every syntactic class (DNS, IPv4, IPv6, with port, rooted, invalid, dubious) compared with the reference resolver, with world changes and clock jumps between them, or (20%) 2-5 GETs through a real fclient.Client (destinationTripper, net/http, crypto/tls, optional DNSCache) over a simulated IP network with hosts, listeners, A/AAAA records and allow/deny CIDR lists (empty, v4, v6, overlapping, unparsable entries, edge addresses, IPv4-mapped); non-trivial = >=1 fired fault (DNS, HTTP, body, refused / denied dial, clock jump); distinct = distinct event-log hash"

const ruleC19 = "one run = 2-4 tasks x 2-6 operations on ONE fclient.DNSCache (size 1-4, lifetime 2-60 s) with a scripted resolver that yields to the scheduler inside the unlock/lookup/lock window (unique address per answer, occasional errors and latency), lookups and DialContext over 2-5 overlapping hosts with sleeps around expiry (80%), or 2-3 tasks x 2-4 round trips through one client's destinationTripper to overlapping destinations while the clock passes the 1-minute reaper and 5-minute lifetime (20%); the tape picks which parked task runs next; non-trivial = >=2 tasks interleaved or >=1 fired fault; distinct = distinct event-log hash"

func TestEngine(t *testing.T) {
	// Initialise lazily-created process-wide state of the pure-Go resolver
	// outside any bubble (its semaphore channel would otherwise belong to the
	// first bubble and be unusable from the next).
	(&net.Resolver{PreferGo: true, Dial: func(ctx context.Context, network, addr string) (net.Conn, error) {
		return nil, errors.New("warm-up")
	}}).LookupHost(context.Background(), "warmup.invalid")
	initTLS()
	sim.Main(t, &sim.Engine{
		Name: "netsim",
		Body: body,
		Rule: func(p string) string {
			if p == "C19" {
				return ruleC19
			}
			return ruleC16
		},
		Real: []string{"fclient.ResolveServer", "fclient.LookupWellKnown", "spec.ParseAndValidateServerName", "fclient.Client / destinationTripper (RoundTrip, getTransport, reaper)", "allowDenyNetworksControl / isAllowed / inRange", "fclient.DNSCache (lookup, DialContext)", "net/http client and server", "crypto/tls", "Go's pure DNS resolver (wire protocol)"},
		Stub: []string{"DNS server (miekg/dns responder over net.Pipe)", "http.DefaultTransport (well-known endpoint, workload 1)", "IP network (verifrt.DialHook: listeners, refused / black-holed addresses, net.Pipe connections)", "HTTPS servers (in-process http.Server over pipes)", "DNSCache resolver (scripted, workload 3)", "clock (synctest)", "goroutine choice (token scheduler at resolver / dial / operation boundaries)"},
		Assumptions: []string{"testing/synctest fake clock and quiescence (Go 1.26.8)", "interleavings explored at stub (resolver, dial, operation) granularity, and at lock-boundary granularity (instrumented Lock / Unlock of package fclient) in the transport-cache workload and in half of the DNS-cache runs",
			"the dial hook reproduces the kernel path of net.Dialer: resolve, then per candidate address the dialer's ControlContext with network tcp4/tcp6 and the literal ip:port, IPv4-mapped addresses dialled as IPv4",
			"SRV records of equal priority may be used in any order; SRV lookup errors other than not-found may either fall back to port 8448 or continue with the next SRV service"},
	})
}
