package netsim

import (
	"context"
	"errors"
	"fmt"
	"net"
	"net/netip"
	"sort"
	"strings"
	"sync"
	"time"

	"github.com/matrix-org/gomatrixserverlib/fclient"
	"github.com/matrix-org/gomatrixserverlib/verifrt"

	"verifharness/ref"
	"verifharness/sim"
)

// ---- workload 3a: one DNSCache, k tasks, scripted resolver ----------------------

type cacheOp struct {
	kind  string // lookup | dial | sleep
	host  string
	sleep time.Duration
}

type opState struct {
	kind      string
	host      string
	begin     time.Time
	expectHit bool
	expect    ref.CacheEntry
	resolved  bool
	resolveEr bool
	retried   bool
	dialed    []string
	failed    int
	connected bool
	// fine mode: the resolver's answer, stored in the model when the second
	// critical section of the lookup begins
	pending []string
}

type ctask struct {
	name     string
	ops      []cacheOp
	calls    int
	dials    int
	op       *opState
	released int // scheduler step at which a stub of this task last returned into the library (0: none pending)
	// fine mode: the next critical section of lookup is the inserting one
	afterResolver bool
	sawCS1        bool
}

type answerInfo struct {
	host string
	up   bool
}

type cacheWorld struct {
	fine  bool // lock boundaries of lookup are yield points (see bodyDNSCache)
	r     *sim.Run
	s     *sim.Sched
	cache *fclient.DNSCache
	model *ref.DNSCacheModel
	size  int
	life  time.Duration
	allow []string
	deny  []string

	mu         sync.Mutex // everything below (tasks run one at a time; the mutex is for the race detector's sake)
	tasks      map[string]*ctask
	gen        int
	owner      map[string]answerInfo // address -> the host it was produced for
	inResolver map[string]int
	errRate    int
	latRate    int
	downRate   int
	v6Rate     int
	conns      []net.Conn
	everFull   bool
	native     bool // VERIF_MODE=native (race audit): order-dependent oracles are off
}

func (w *cacheWorld) snapshot() map[string]ref.CacheEntry {
	out := map[string]ref.CacheEntry{}
	for k, e := range w.cache.VerifEntries() {
		var as []string
		for _, a := range e.Addrs {
			as = append(as, a.String())
		}
		out[k] = ref.CacheEntry{Addrs: as, Expires: e.Expires}
	}
	return out
}

// settle reconciles model and cache; called at every harness event and after
// every scheduler step.
func (w *cacheWorld) settle(where string) {
	snap := w.snapshot()
	r := w.r
	r.Check(len(snap) <= w.cache.VerifSize(), "C19", "cache_size", "over_size", "%s: DNS cache holds %d entries, configured size is %d", where, len(snap), w.cache.VerifSize())
	hosts := make([]string, 0, len(snap))
	for h := range snap {
		hosts = append(hosts, h)
	}
	sort.Strings(hosts)
	for _, h := range hosts {
		for _, a := range snap[h].Addrs {
			o, ok := w.owner[a]
			r.Check(ok && o.host == h, "C19", "foreign_address", "in_cache", "%s: cache entry for %q holds address %s which the resolver produced for %q", where, h, a, o.host)
		}
	}
	if len(snap) == w.size {
		w.everFull = true
	}
	if w.native {
		return
	}
	class, msg := w.model.Settle(snap)
	switch class {
	case "":
	case "over_size":
		r.Violate("C19", "cache_size", class, "%s: %s", where, msg)
	default:
		r.Violate("C19", "cache_state", class, "%s: %s", where, msg)
	}
}

func (w *cacheWorld) task(name string) *ctask {
	t := w.tasks[name]
	if t == nil {
		// a goroutine that is not one of ours reached a stub
		w.r.Violate("C19", "harness", "unknown_task", "stub reached by unknown task %q", name)
	}
	return t
}

// LookupIPAddr is the scripted resolver: it parks the calling task inside the
// cache's unlock / lookup / lock window and answers with fresh, unique
// addresses (or an error).
func (w *cacheWorld) locked(f func()) {
	w.mu.Lock()
	defer w.mu.Unlock()
	f()
}

func (w *cacheWorld) LookupIPAddr(ctx context.Context, host string) ([]net.IPAddr, error) {
	name := sim.TaskName(ctx)
	r := w.r
	var ts *ctask
	var op *opState
	var n int
	w.locked(func() {
		ts = w.task(name)
		ts.released = 0
		ts.calls++
		n = ts.calls
		w.settle("resolver entry")
		op = ts.op
		if op == nil || op.host != host {
			r.Violate("C19", "foreign_address", "resolver_asked_for_other_host", "task %s operating on %v caused a resolver query for %q", name, op, host)
		}
		if w.native {
			return
		}
		if op.expectHit {
			if op.kind == "dial" && !op.retried && !op.connected && op.failed == len(op.expect.Addrs) {
				// every cached address was dead: the entry is dropped (seen
				// by settle above) and looked up afresh
				op.retried = true
				op.expectHit = false
				r.Probe("dial_retry_after_dead_cached_entry")
			} else {
				r.Violate("C19", "seq_equiv", "miss_despite_valid_entry", "task %s: lookup of %q at %v consulted the resolver although the cache held %s (a sequential execution answers from the cache)", name, host, r.Now(), op.expect)
			}
		} else if op.resolved {
			r.Probe("second_resolver_call_in_one_operation")
		}
		w.inResolver[host]++
		if w.inResolver[host] > 1 {
			r.Probe("concurrent_miss_same_host")
		}
		if len(w.inResolverHosts()) > 1 {
			r.Probe("concurrent_misses_different_hosts")
		}
	})
	r.Logf("t=%v %s: resolver asked for %s (#%d)", r.Now(), name, host, n)

	w.s.Yield(name, fmt.Sprintf("resolve#%d:%s", n, host))

	t := r.T
	if t.Chance(w.latRate) {
		d := sim.Pick(t, []time.Duration{time.Millisecond, w.life / 2, w.life, w.life + time.Millisecond})
		r.Fault("delay")
		w.s.Sleep(ctx, name, fmt.Sprintf("resolve#%d:latency", n), d)
	}
	w.mu.Lock()
	defer w.mu.Unlock()
	if !w.native {
		w.inResolver[host]--
	}
	ts.released = w.s.Steps
	op.resolved = true
	if t.Chance(w.errRate) {
		r.Fault("resolver_error")
		op.resolveEr = true
		r.Logf("t=%v %s: resolver -> error for %s", r.Now(), name, host)
		return nil, errors.New("simdns: SERVFAIL")
	}
	w.gen++
	na := 1 + t.Weighted([]int{3, 1})
	v6 := t.Chance(w.v6Rate)
	var addrs []string
	var out []net.IPAddr
	var ups []string
	for k := 0; k < na; k++ {
		var a netip.Addr
		if v6 {
			a = netip.AddrFrom16([16]byte{0xfd, 0, 0, 0, 0, 0, 0, 0, 0, 0, 0, 0, 0, byte(w.gen), 0, byte(k + 1)})
		} else {
			a = netip.AddrFrom4([4]byte{10, 0, byte(w.gen), byte(k + 1)})
		}
		up := !t.Chance(w.downRate)
		w.owner[a.String()] = answerInfo{host: host, up: up}
		addrs = append(addrs, a.String())
		out = append(out, net.IPAddr{IP: net.IP(a.AsSlice())})
		ups = append(ups, fmt.Sprintf("%s(up=%v)", a, up))
	}
	now := time.Now()
	// evidence: the shape that made the eviction loop spin (full cache whose
	// entries all expire exactly at now+lifetime)
	if len(w.model.Entries) >= w.size {
		all := true
		for _, e := range w.model.Entries {
			if !e.Expires.Equal(now.Add(w.life)) {
				all = false
			}
		}
		if all {
			r.Probe("insert_into_full_cache_all_expiring_at_now_plus_lifetime")
		}
		r.Probe("evict_on_insert")
	}
	if e, ok := w.model.Entries[host]; ok {
		if now.Before(e.Expires) {
			r.Probe("insert_over_valid_entry_of_same_host")
		}
	}
	if w.fine && ts.sawCS1 {
		// the entry is stored (and gets its expiry) when the inserting
		// critical section runs, which other tasks and the clock may precede
		op.pending = addrs
		ts.afterResolver = true
	} else {
		op.expect = w.model.Insert(host, addrs, now)
	}
	op.expectHit = false
	op.dialed, op.failed = nil, 0
	r.Logf("t=%v %s: resolver -> %s for %s", r.Now(), name, strings.Join(ups, ","), host)
	return out, nil
}

func (w *cacheWorld) inResolverHosts() []string {
	var hs []string
	for h, n := range w.inResolver {
		if n > 0 {
			hs = append(hs, h)
		}
	}
	return hs
}

// dial is the simulated network behind the cache's own dialer.
func (w *cacheWorld) dial(d *net.Dialer, ctx context.Context, network, addr string) (net.Conn, error) {
	name := sim.TaskName(ctx)
	r := w.r
	var ts *ctask
	var op *opState
	var n int
	var o answerInfo
	host, _, splitErr := net.SplitHostPort(addr)
	w.locked(func() {
		ts = w.task(name)
		ts.released = 0
		ts.dials++
		n = ts.dials
		w.settle("dial")
		op = ts.op
		if op == nil || op.kind != "dial" {
			r.Violate("C19", "harness", "dial_outside_operation", "task %s dialled %s outside a DialContext operation", name, addr)
		}
		if splitErr != nil {
			op.dialed = append(op.dialed, "?")
			op.failed++
			ts.released = w.s.Steps
			return
		}
		var known bool
		o, known = w.owner[host]
		r.Check(known && o.host == op.host, "C19", "foreign_address", "dialled", "task %s: DialContext(%q) dialled %s, an address the resolver produced for %q", name, op.host, host, o.host)
		if w.native {
			return
		}
		if !op.expectHit && !op.resolved {
			// the model saw a miss, yet the cache served something without
			// asking the resolver: an expired (or removed) entry
			r.Violate("C19", "expiry", "served_expired_entry", "task %s: DialContext(%q) at %v used cached address %s although no unexpired entry existed", name, op.host, r.Now(), host)
		}
		idx := len(op.dialed)
		if (idx >= len(op.expect.Addrs) || op.expect.Addrs[idx] != host) && op.failed == len(op.dialed) && op.failed >= len(op.expect.Addrs) {
			// Every address of the entry the operation started from was dead. A
			// client that looks again may find, without asking the resolver, an
			// entry another task has put there in the meantime: that entry is
			// then the one in force. (The resolver-asking variant of the retry
			// is followed in LookupIPAddr.)
			if e, ok := w.cache.VerifEntries()[op.host]; ok && e.Expires.After(time.Now()) {
				var addrs []string
				for _, a := range e.Addrs {
					addrs = append(addrs, a.IP.String())
				}
				if len(addrs) > 0 && addrs[0] == host {
					op.expect = ref.CacheEntry{Addrs: addrs, Expires: e.Expires, Stored: time.Now()}
					op.dialed, op.failed, op.retried = nil, 0, true
					idx = 0
					r.Probe("dial_retry_found_another_tasks_entry")
				}
			}
		}
		if idx >= len(op.expect.Addrs) || op.expect.Addrs[idx] != host {
			r.Violate("C19", "seq_equiv", "unexpected_address", "task %s: DialContext(%q) dialled %s as attempt %d; the entry in force is %s", name, op.host, host, idx+1, op.expect)
		}
		op.dialed = append(op.dialed, host)
	})
	if splitErr != nil {
		// what the real dialer answers to "fd00::1:8448"
		r.Probe("dnscache_dials_unbracketed_ipv6")
		return nil, &net.OpError{Op: "dial", Net: network, Err: &net.AddrError{Err: "too many colons in address", Addr: addr}}
	}

	w.s.Yield(name, fmt.Sprintf("dial#%d:%s", n, host))

	w.mu.Lock()
	defer w.mu.Unlock()
	ts.released = w.s.Steps
	ip, _ := netip.ParseAddr(host)
	nw := "tcp4"
	if ip.Is6() && !ip.Is4In6() {
		nw = "tcp6"
	}
	if d.ControlContext != nil {
		if err := d.ControlContext(ctx, nw, addr, nil); err != nil {
			op.failed++
			r.Fault("dial_denied")
			r.Logf("t=%v %s: dial %s denied by control", r.Now(), name, addr)
			return nil, &net.OpError{Op: "dial", Net: nw, Err: err}
		}
	}
	if !o.up {
		op.failed++
		r.Fault("conn_refused")
		r.Logf("t=%v %s: dial %s refused", r.Now(), name, addr)
		return nil, &net.OpError{Op: "dial", Net: nw, Err: errors.New("connection refused")}
	}
	r.Check(ref.DialPermitted(ip, w.allow, w.deny), "C16", "dial_policy", "dnscache_dialer", "DNS cache dialer connected to %s with allow=%v deny=%v", addr, w.allow, w.deny)
	a, b := net.Pipe()
	w.conns = append(w.conns, b)
	op.connected = true
	r.Logf("t=%v %s: dial %s connected", r.Now(), name, addr)
	return a, nil
}

func (w *cacheWorld) beginOp(ts *ctask, kind, host string) *opState {
	w.mu.Lock()
	defer w.mu.Unlock()
	w.settle("operation start")
	now := time.Now()
	if e, ok := w.model.Entries[host]; ok && !now.Before(e.Expires) {
		if now.Equal(e.Expires) {
			w.r.Probe("lookup_exactly_at_expiry")
		} else {
			w.r.Probe("lookup_after_expiry")
		}
	}
	e, hit := w.model.Begin(host, now)
	op := &opState{kind: kind, host: host, begin: now, expectHit: hit, expect: e}
	if hit && now.Add(time.Millisecond).After(e.Expires) {
		w.r.Probe("hit_within_1ms_of_expiry")
	}
	ts.op = op
	ts.released = w.s.Steps
	return op
}

func (w *cacheWorld) doLookup(ts *ctask, i int, host string) {
	r := w.r
	ctx := sim.WithTask(context.Background(), ts.name)
	op := w.beginOp(ts, "lookup", host)
	addrs, expires, cached, ok := w.cache.VerifLookup(ctx, host)
	w.mu.Lock()
	defer w.mu.Unlock()
	ts.released = 0
	ts.op = nil
	w.settle("lookup return")
	var as []string
	for _, a := range addrs {
		as = append(as, a.String())
	}
	r.Logf("t=%v %s: lookup#%d %s -> %v cached=%v ok=%v expires=+%v", r.Now(), ts.name, i, host, as, cached, ok, expires.Sub(op.begin))
	if !ok {
		r.Check(op.resolveEr || w.native, "C19", "seq_equiv", "lookup_failed_without_resolver_error", "lookup of %q failed although the resolver did not fail (model: hit=%v)", host, op.expectHit)
		r.Probe("lookup_failed")
		return
	}
	for _, a := range as {
		o, known := w.owner[a]
		r.Check(known && o.host == host, "C19", "foreign_address", "returned", "lookup of %q returned %s, an address the resolver produced for %q", host, a, o.host)
	}
	if ok && (cached || !op.resolved || op.resolveEr) && !w.native {
		// the answer came out of the cache: never at or after its expiry instant
		r.Check(expires.After(op.begin), "C19", "expiry", "served_at_or_after_expiry", "lookup of %q at %v (cached=%v) was answered from the cache with an entry that expired %v before the call", host, r.Now(), cached, op.begin.Sub(expires))
	}
	if w.native {
		r.Check(!cached || expires.After(op.begin), "C19", "expiry", "served_at_or_after_expiry", "lookup of %q was answered from the cache with an entry that expired %v before the call", host, op.begin.Sub(expires))
		return
	}
	if cached {
		r.Probe("cache_hit")
		// never served at or after its expiry instant
		r.Check(expires.After(op.begin), "C19", "expiry", "served_at_or_after_expiry", "lookup of %q at %v was answered from the cache with an entry that expired %v earlier", host, r.Now(), op.begin.Sub(expires))
		r.Check(op.expectHit, "C19", "seq_equiv", "hit_without_entry", "lookup of %q reported cached=true but no unexpired entry existed at the call (returned %v)", host, as)
		r.Check(sameStrings(as, op.expect.Addrs) && expires.Equal(op.expect.Expires), "C19", "seq_equiv", "hit_returned_other_entry", "lookup of %q returned %v expiring %v; the entry in the cache was %s", host, as, expires, op.expect)
		return
	}
	r.Probe("cache_miss")
	r.Check(!op.expectHit, "C19", "seq_equiv", "miss_despite_valid_entry", "lookup of %q reported cached=false although %s was cached", host, op.expect)
	r.Check(op.resolved && !op.resolveEr, "C19", "seq_equiv", "result_without_resolver", "lookup of %q returned %v uncached without a successful resolver call", host, as)
	r.Check(sameStrings(as, op.expect.Addrs) && expires.Equal(op.expect.Expires), "C19", "seq_equiv", "miss_returned_other_answer", "lookup of %q returned %v expiring %v; its resolver call answered %s", host, as, expires, op.expect)
}

func sameStrings(a, b []string) bool {
	if len(a) != len(b) {
		return false
	}
	for i := range a {
		if a[i] != b[i] {
			return false
		}
	}
	return true
}

func (w *cacheWorld) doDial(ts *ctask, i int, host string) {
	r := w.r
	ctx := sim.WithTask(context.Background(), ts.name)
	op := w.beginOp(ts, "dial", host)
	conn, err := w.cache.DialContext(ctx, "tcp", net.JoinHostPort(host, "8448"))
	w.mu.Lock()
	defer w.mu.Unlock()
	ts.released = 0
	ts.op = nil
	w.settle("dial return")
	r.Logf("t=%v %s: dial#%d %s -> ok=%v tried=%v retried=%v", r.Now(), ts.name, i, host, err == nil, op.dialed, op.retried)
	if conn != nil {
		conn.Close()
	}
	if w.native {
		return
	}
	r.Check((err == nil) == op.connected, "C19", "seq_equiv", "dial_result", "DialContext(%q) returned err=%v but the network connected=%v", host, err, op.connected)
	if err != nil {
		r.Probe("dialcontext_failed")
		// every address of the entry in force was tried unless the resolver failed
		if !op.resolveEr && op.resolved {
			r.Check(len(op.dialed) == len(op.expect.Addrs), "C19", "seq_equiv", "dial_gave_up_early", "DialContext(%q) failed after trying %v of %s", host, op.dialed, op.expect)
		}
	} else {
		r.Probe("dialcontext_connected")
	}
}

func bodyDNSCache(r *sim.Run) {
	if !fclient.VerifInternals {
		// the accessors this workload lives on (resolver seam, lookup, entries)
		// do not fit the tree under test: nothing here can be judged
		r.Probe("degraded_dnscache_workload_skipped")
		r.Logf("DNS-cache workload skipped: in-package accessors unavailable on this tree")
		return
	}
	t := r.T
	s := sim.NewSched(r)
	w := &cacheWorld{r: r, s: s, tasks: map[string]*ctask{}, owner: map[string]answerInfo{}, inResolver: map[string]int{}, native: sim.NativeMode}
	w.size = t.Range(1, 4)
	w.life = sim.Pick(t, []time.Duration{2 * time.Second, 10 * time.Second, time.Minute})
	w.fine = !w.native && t.Bool()
	nhosts := t.Range(2, 5)
	hosts := []string{"h0.example", "h1.example", "h2.example", "h3.example", "h4.example"}[:nhosts]
	switch t.Weighted([]int{6, 2, 1}) {
	case 0:
		w.allow = []string{"10.0.0.0/8", "fd00::/8"}
	case 1:
		w.allow = []string{"10.0.0.0/8"}
		w.deny = []string{sim.Pick(t, []string{"10.0.2.0/23", "10.0.0.0/22", "nonsense", "10.0.4.1/32"}), "10.0.8.0/21"}
	case 2:
		r.Probe("dnscache_empty_allow_list_denies_everything")
	}
	if t.Chance(600) {
		w.errRate = sim.Pick(t, []int{50, 150, 400})
	}
	if t.Chance(500) {
		w.latRate = sim.Pick(t, []int{100, 300, 700})
	}
	w.downRate = sim.Pick(t, []int{0, 200, 500, 1000})
	w.v6Rate = sim.Pick(t, []int{0, 0, 0, 150})
	w.cache = fclient.NewDNSCache(w.size, w.life, w.allow, w.deny)
	w.cache.VerifSetResolver(w)
	w.model = ref.NewDNSCacheModel(w.size, w.life)
	verifrt.DialHook = w.dial
	r.Defer(func() {
		verifrt.DialHook = nil
		for _, c := range w.conns {
			c.Close()
		}
	})
	sleeps := []time.Duration{time.Millisecond, w.life / 2, w.life - time.Millisecond, w.life, w.life + time.Millisecond, 2 * w.life}
	ntasks := t.Range(2, 4)
	r.Logf("dnscache size=%d life=%v hosts=%d tasks=%d allow=%v deny=%v err=%d lat=%d down=%d v6=%d", w.size, w.life, nhosts, ntasks, w.allow, w.deny, w.errRate, w.latRate, w.downRate, w.v6Rate)
	for c := 0; c < ntasks; c++ {
		ts := &ctask{name: fmt.Sprintf("task%d", c)}
		n := t.Range(2, 6)
		for i := 0; i < n; i++ {
			switch t.Weighted([]int{5, 2, 3}) {
			case 0:
				ts.ops = append(ts.ops, cacheOp{kind: "lookup", host: sim.Pick(t, hosts)})
			case 1:
				ts.ops = append(ts.ops, cacheOp{kind: "dial", host: sim.Pick(t, hosts)})
			case 2:
				ts.ops = append(ts.ops, cacheOp{kind: "sleep", sleep: sim.Pick(t, sleeps)})
			}
		}
		w.tasks[ts.name] = ts
	}
	names := make([]string, 0, len(w.tasks))
	for n := range w.tasks {
		names = append(names, n)
	}
	sort.Strings(names)
	for _, n := range names {
		ts := w.tasks[n]
		s.Go(ts.name, func() {
			for i, op := range ts.ops {
				if r.Failed() {
					return
				}
				r.Op()
				switch op.kind {
				case "lookup":
					w.doLookup(ts, i, op.host)
				case "dial":
					w.doDial(ts, i, op.host)
				case "sleep":
					if op.sleep >= w.life {
						r.Fault("clock_jump")
					}
					r.Logf("t=%v %s: sleep %v", r.Now(), ts.name, op.sleep)
					s.Sleep(nil, ts.name, fmt.Sprintf("sleep#%d", i), op.sleep)
				}
				s.Yield(ts.name, fmt.Sprintf("op#%d", i))
			}
		})
	}
	s.AfterStep = func() {
		w.mu.Lock()
		defer w.mu.Unlock()
		w.settle("after step")
		// bounded progress: a task whose stub returned into the library must
		// reach its next stub or finish its operation within the same step
		for _, n := range names {
			ts := w.tasks[n]
			if ts.released != 0 && ts.op != nil && s.Steps > ts.released+2 {
				r.Violate("C19", "progress", "stuck_in_library", "task %s has been inside %s(%q) for %d scheduler steps without reaching a stub", n, ts.op.kind, ts.op.host, s.Steps-ts.released)
			}
		}
		var st []string
		now := time.Now()
		for _, h := range w.model.Keys() {
			e := w.model.Entries[h]
			st = append(st, fmt.Sprintf("%s:%v", h, now.Before(e.Expires)))
		}
		r.State(fmt.Sprintf("size=%d %s inres=%d", w.size, strings.Join(st, " "), len(w.inResolverHosts())))
	}
	if w.fine {
		// Lock boundaries of DNSCache.lookup are yield points. A lookup has
		// two critical sections (the check, and after the resolver call the
		// insert): the model's Begin / Insert are evaluated at the instant
		// each one starts. Lock sites of other functions, and goroutines
		// that are not tasks, pass through.
		verifrt.ResetYield()
		verifrt.YieldHook = func(site string) {
			name := s.CurrentTask()
			if name == "" || !strings.Contains(site, "(*DNSCache).lookup ") {
				return
			}
			ts := w.tasks[name]
			if ts == nil {
				return
			}
			r.Probe("lock_boundary_yield")
			w.locked(func() { ts.released = 0 })
			s.Yield(name, "lock "+site)
			w.locked(func() {
				defer func() { ts.released = s.Steps }()
				op := ts.op
				if op == nil || !strings.Contains(site, "before-") {
					return
				}
				now := time.Now()
				if ts.afterResolver {
					ts.afterResolver = false
					if op.pending != nil {
						op.expect = w.model.Insert(op.host, op.pending, now)
						op.pending = nil
					}
					return
				}
				w.settle("check section")
				e, hit := w.model.Begin(op.host, now)
				op.begin, op.expect, op.expectHit = now, e, hit
				// a new lookup round starts dialling from the first address of
				// whatever entry it finds (another task may have stored one
				// since this operation dropped a dead entry)
				if op.kind == "dial" && len(op.dialed) > 0 {
					op.retried = true
					op.dialed, op.failed = nil, 0
				}
				ts.sawCS1 = true
			})
		}
		r.Defer(func() { verifrt.YieldHook = nil })
	}
	s.RunAll()
	verifrt.YieldHook = nil
	r.Nontriv = true // >= 2 tasks always interleave here
	if w.everFull {
		r.Probe("cache_reached_configured_size")
	}
	if w.model.Evictions > 0 {
		r.Probe("eviction_observed")
	}
	if w.model.EvictedNotEarliest > 0 {
		r.Probe("evicted_entry_not_the_earliest_expiring")
	}
	if w.model.Vanished > 0 {
		r.Probe("entry_vanished_outside_insert")
	}
	if w.model.InsertLost > 0 {
		r.Probe("stored_answer_not_kept")
	}
}
