// netsim: DNS, well-known, SRV, TLS, dialer policy and the shared DNS /
// transport caches of the federation client under a seeded world, schedule
// and fault plan. Properties C16 and C19 (cache half).
package netsim

import (
	"context"
	"encoding/binary"
	"fmt"
	"io"
	"net"
	"net/netip"
	"sort"
	"strings"
	"sync"

	"github.com/miekg/dns"

	"verifharness/ref"
)

// ---- zone ---------------------------------------------------------------------

const (
	nfNXDomain = iota // name does not exist
	nfNoData          // name exists, no record of that type
)

const (
	errServfail = iota
	errTimeout  // the server never answers
)

type srvCfg struct {
	kind ref.SRVKind
	sub  int // nf* for SRVNotFound, err* for SRVError
	recs []ref.SRVRecord
}

func (s srvCfg) String() string {
	switch s.kind {
	case ref.SRVFound:
		var p []string
		for _, r := range s.recs {
			p = append(p, fmt.Sprintf("%d/%d %s:%d", r.Priority, r.Weight, r.Target, r.Port))
		}
		return "[" + strings.Join(p, ", ") + "]"
	case ref.SRVError:
		return []string{"SERVFAIL", "TIMEOUT"}[s.sub]
	}
	return []string{"NXDOMAIN", "NODATA"}[s.sub]
}

type hostCfg struct {
	name    string // lower case, no trailing dot
	a, aaaa []netip.Addr
	ipFault int // 0 none, 1 NXDOMAIN, 2 SERVFAIL
	fed     srvCfg
	old     srvCfg
	wk      wkCfg
}

// zone is the simulated DNS content. It is read by responder goroutines (one
// per resolver connection) and changed by the run's main goroutine / tasks
// only while no lookup is in flight.
type zone struct {
	mu    sync.Mutex
	hosts map[string]*hostCfg
	hits  map[string]bool // fault kinds that fired since the last drain (a set: order-free)
}

func newZone() *zone { return &zone{hosts: map[string]*hostCfg{}, hits: map[string]bool{}} }

func canon(n string) string { return strings.ToLower(strings.TrimSuffix(n, ".")) }

func (z *zone) host(n string) *hostCfg {
	z.mu.Lock()
	defer z.mu.Unlock()
	return z.hosts[canon(n)]
}

func (z *zone) names() []string {
	z.mu.Lock()
	defer z.mu.Unlock()
	ns := make([]string, 0, len(z.hosts))
	for n := range z.hosts {
		ns = append(ns, n)
	}
	sort.Strings(ns)
	return ns
}

func (z *zone) hit(kind string) {
	z.hits[kind] = true
}

// drainHits returns the fault kinds that fired, sorted.
func (z *zone) drainHits() []string {
	z.mu.Lock()
	defer z.mu.Unlock()
	ks := make([]string, 0, len(z.hits))
	for k := range z.hits {
		ks = append(ks, k)
	}
	sort.Strings(ks)
	z.hits = map[string]bool{}
	return ks
}

// SRV implements ref.NameWorld (ground truth for the reference resolver).
func (z *zone) srvTruth(service, hostname string) ref.SRVAnswer {
	h := z.host(hostname)
	if h == nil {
		return ref.SRVAnswer{Kind: ref.SRVNotFound}
	}
	c := h.old
	if service == "matrix-fed" {
		c = h.fed
	}
	return ref.SRVAnswer{Kind: c.kind, Records: c.recs}
}

// answer builds the reply to one query; nil means "do not answer" (timeout).
func (z *zone) answer(q *dns.Msg) *dns.Msg {
	m := new(dns.Msg)
	m.SetReply(q)
	m.Authoritative = true
	m.RecursionAvailable = true
	if len(q.Question) != 1 {
		m.Rcode = dns.RcodeFormatError
		return m
	}
	qu := q.Question[0]
	name := canon(qu.Name)
	z.mu.Lock()
	defer z.mu.Unlock()
	hdr := func(t uint16) dns.RR_Header {
		return dns.RR_Header{Name: qu.Name, Rrtype: t, Class: dns.ClassINET, Ttl: 60}
	}
	switch qu.Qtype {
	case dns.TypeSRV:
		var c *srvCfg
		var h *hostCfg
		if rest, ok := strings.CutPrefix(name, "_matrix-fed._tcp."); ok {
			if h = z.hosts[rest]; h != nil {
				c = &h.fed
			}
		} else if rest, ok := strings.CutPrefix(name, "_matrix._tcp."); ok {
			if h = z.hosts[rest]; h != nil {
				c = &h.old
			}
		}
		if c == nil {
			m.Rcode = dns.RcodeNameError
			return m
		}
		switch c.kind {
		case ref.SRVFound:
			for _, r := range c.recs {
				t := r.Target
				if !strings.HasSuffix(t, ".") {
					t += "."
				}
				m.Answer = append(m.Answer, &dns.SRV{Hdr: hdr(dns.TypeSRV), Priority: r.Priority, Weight: r.Weight, Port: r.Port, Target: t})
			}
			if len(c.recs) > 1 {
				z.hit("p:srv_several_records")
			}
		case ref.SRVError:
			if c.sub == errTimeout {
				z.hit("f:dns_timeout")
				return nil
			}
			z.hit("f:dns_servfail")
			m.Rcode = dns.RcodeServerFailure
		default:
			if c.sub == nfNXDomain {
				m.Rcode = dns.RcodeNameError
				z.hit("f:dns_nxdomain")
			} else {
				z.hit("p:dns_nodata")
			}
		}
		return m
	case dns.TypeA, dns.TypeAAAA:
		h := z.hosts[name]
		if h == nil || h.ipFault == 1 {
			if h != nil {
				z.hit("f:dns_nxdomain")
			}
			m.Rcode = dns.RcodeNameError
			return m
		}
		if h.ipFault == 2 {
			z.hit("f:dns_servfail")
			m.Rcode = dns.RcodeServerFailure
			return m
		}
		if qu.Qtype == dns.TypeA {
			for _, a := range h.a {
				m.Answer = append(m.Answer, &dns.A{Hdr: hdr(dns.TypeA), A: net.IP(a.AsSlice())})
			}
		} else {
			for _, a := range h.aaaa {
				b := a.As16()
				m.Answer = append(m.Answer, &dns.AAAA{Hdr: hdr(dns.TypeAAAA), AAAA: net.IP(b[:])})
			}
		}
		return m
	}
	return m // NODATA for every other type
}

// serve speaks DNS-over-stream (2-byte length framing) on one end of a pipe.
func (z *zone) serve(c net.Conn) {
	defer c.Close()
	for {
		var l [2]byte
		if _, err := io.ReadFull(c, l[:]); err != nil {
			return
		}
		buf := make([]byte, binary.BigEndian.Uint16(l[:]))
		if _, err := io.ReadFull(c, buf); err != nil {
			return
		}
		q := new(dns.Msg)
		if err := q.Unpack(buf); err != nil {
			return
		}
		m := z.answer(q)
		if m == nil {
			continue // never answered: the resolver times out and closes
		}
		out, err := m.Pack()
		if err != nil {
			return
		}
		binary.BigEndian.PutUint16(l[:], uint16(len(out)))
		if _, err := c.Write(append(l[:], out...)); err != nil {
			return
		}
	}
}

// resolver returns a pure-Go resolver whose every connection is a pipe to an
// in-process responder for this zone. Go's resolver uses stream framing on
// any conn that is not a net.PacketConn, whatever network it asked for.
func (z *zone) resolver() *net.Resolver {
	return &net.Resolver{
		PreferGo: true,
		Dial: func(ctx context.Context, network, address string) (net.Conn, error) {
			a, b := net.Pipe()
			go z.serve(b)
			return a, nil
		},
	}
}

// canonicalOrder sorts resolver results by textual address. Go's resolver
// asks for A and AAAA in parallel and keeps equally-ranked answers in arrival
// order, which the simulator does not control; the set of addresses is what
// the DNS exchange determined, their order is made canonical here.
func canonicalOrder(found []net.IPAddr) []net.IPAddr {
	out := append([]net.IPAddr(nil), found...)
	key := func(a net.IPAddr) string {
		ip, _ := netip.AddrFromSlice(a.IP)
		ip = ip.Unmap()
		fam := "4"
		if ip.Is6() {
			fam = "6"
		}
		b := ip.As16()
		return fam + string(b[:]) + a.IP.String()
	}
	sort.SliceStable(out, func(i, j int) bool { return key(out[i]) < key(out[j]) })
	return out
}

// orderedResolver wraps a resolver and canonicalises the order of its answers
// (used as the DNS cache's resolver).
type orderedResolver struct{ inner *net.Resolver }

func (o orderedResolver) LookupIPAddr(ctx context.Context, host string) ([]net.IPAddr, error) {
	found, err := o.inner.LookupIPAddr(ctx, host)
	if err != nil {
		return nil, err
	}
	return canonicalOrder(found), nil
}
