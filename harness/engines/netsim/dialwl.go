package netsim

import (
	"context"
	"crypto/tls"
	"fmt"
	"io"
	"log"
	"net"
	"net/http"
	"net/netip"
	"net/url"
	"os"
	"strconv"
	"strings"
	"testing/synctest"
	"time"

	"github.com/matrix-org/gomatrixserverlib/fclient"
	"github.com/matrix-org/gomatrixserverlib/verifrt"

	"verifharness/ref"
	"verifharness/sim"
)

var debugErrors = os.Getenv("NETSIM_DEBUG") != ""

func quietLogger() *log.Logger { return log.New(io.Discard, "", 0) }

// candidate addresses: inside, outside and on the edges of the ranges below
var addrPool = []string{
	"10.0.0.5", "10.255.255.255", "9.255.255.255", "11.0.0.0", "127.0.0.1", "192.168.1.1",
	"203.0.113.7", "203.0.113.127", "203.0.113.128", "203.0.113.255", "203.0.114.0",
	"198.51.100.9", "198.51.100.127", "198.51.100.128",
	"2001:db8::1", "2001:db8:dead::1", "2001:db8:dead:ffff:ffff:ffff:ffff:ffff", "2001:db8:deae::", "2001:db7:ffff:ffff:ffff:ffff:ffff:ffff",
	"fc00::1", "::1", "::ffff:10.0.0.5", "::ffff:203.0.113.7",
}

var (
	allowSets = [][]string{
		{"0.0.0.0/0"},
		{"0.0.0.0/0", "::/0"},
		{"203.0.113.0/24"},
		{"203.0.113.0/24", "198.51.100.0/25"},
		{"2001:db8::/32"},
		{"203.0.113.0/24", "2001:db8::/32", "203.0.113.0/25"},
		{},
		// IPv4 ranges written in IPv4-mapped IPv6 form denote the IPv4 range
		{"::ffff:203.0.113.0/120", "2001:db8::/32"},
		{"::ffff:0.0.0.0/96"},
	}
	denySets = [][]string{
		{"10.0.0.0/8", "127.0.0.0/8", "192.168.0.0/16"},
		{"10.0.0.0/8", "fc00::/7", "::1/128", "127.0.0.0/8"},
		{},
		{"203.0.113.128/25"},
		{"2001:db8:dead::/48"},
		{"203.0.113.128/25", "2001:db8:dead::/48", "10.0.0.0/8", "10.0.0.0/16"},
		{"203.0.113.7/32", "198.51.100.127/32"},
		{"::ffff:10.0.0.0/104", "::ffff:127.0.0.0/104", "192.168.0.0/16"},
		{"::ffff:203.0.113.128/121", "2001:db8:dead::/48"},
	}
	// entries that are not in CIDR form match nothing: among them bare
	// addresses of the pool and bare addresses that share a /32 (or /8) with them
	junkCIDRs = []string{"garbage", "", "10.0.0.0", "10.0.0.0/33", "300.0.0.0/8", "fe80::/129", "10.0.0.0/8/8",
		"203.0.113.7", "198.51.100.9", "10.0.0.5", "2001:db8::10", "2001:db8::1", "::2", "fc00::2", "::ffff:10.0.0.5"}
)

// withJunk inserts an unparsable entry before, after or between valid ones.
func withJunk(t *sim.Tape, list []string) ([]string, bool) {
	if !t.Chance(350) {
		return list, false
	}
	out := append([]string{}, list...)
	pos := 0
	switch t.Intn(3) {
	case 1:
		pos = len(out)
	case 2:
		pos = t.Intn(len(out) + 1)
	}
	j := sim.Pick(t, junkCIDRs)
	out = append(out[:pos], append([]string{j}, out[pos:]...)...)
	return out, true
}

type dialWorld struct {
	r      *sim.Run
	z      *zone
	n      *simNet
	client *fclient.Client
	cache  *fclient.DNSCache
	allow  []string
	deny   []string
	policy bool // lists configured
	// every address a name ever had in this run (the DNS cache may serve old ones)
	ever map[string]map[netip.Addr]bool
	wkTr *http.Transport
	nop  int
	ops  map[int]*getOp
	// server names already asked for in this run (canonical spelling): a
	// later request may be answered from the client's resolution cache
	asked map[string]bool
	lastDeleg string
	// two names whose only SRV record names the same target and port: one
	// destination, two TLS server names (a connection kept alive for one must
	// not carry the other's request)
	hosted     []string
	conns      map[int]attempt // every connection made so far, by id
	hostedTurn int
	// reqTimeout is the client's overall request timeout. A request that runs
	// into it ends the run: net/http then races its own cancellation against
	// dials it has just started, which the simulator cannot order.
	reqTimeout time.Duration
	stop       bool
}

type getOp struct {
	name           string
	want, wantNoWK ref.Resolution
	targets        []ref.Target
}

func (w *dialWorld) noteAddrs(h *hostCfg) {
	m := w.ever[h.name]
	if m == nil {
		m = map[netip.Addr]bool{}
		w.ever[h.name] = m
	}
	for _, a := range h.a {
		m[a.Unmap()] = true
	}
	for _, a := range h.aaaa {
		m[a.Unmap()] = true
	}
}

func genAddrs(t *sim.Tape, h *hostCfg) {
	h.a, h.aaaa = nil, nil
	n := t.Weighted([]int{1, 5, 3, 1})
	for i := 0; i < n; i++ {
		a := netip.MustParseAddr(sim.Pick(t, addrPool))
		if a.Is4() {
			h.a = append(h.a, a)
		} else {
			h.aaaa = append(h.aaaa, a)
		}
	}
}

func fmtAddrs(h *hostCfg) string {
	var p []string
	for _, a := range h.a {
		p = append(p, a.String())
	}
	for _, a := range h.aaaa {
		p = append(p, a.String())
	}
	return "[" + strings.Join(p, " ") + "]"
}

// wkHandler serves /.well-known/matrix/server the way the host's configuration
// says, as far as a real HTTP server can.
func (w *dialWorld) handle(rw http.ResponseWriter, q *http.Request, conn int) {
	if q.URL.Path != "/.well-known/matrix/server" {
		rw.Header().Set("Content-Type", "application/json")
		fmt.Fprintf(rw, `{"server":{"name":"netsim","version":"1"},"path":%s}`, strconv.Quote(q.URL.Path))
		return
	}
	hn := q.Host
	if h, _, err := net.SplitHostPort(q.Host); err == nil {
		hn = h
	}
	h := w.z.host(hn)
	if h == nil || h.wk.mode == wkAbsent {
		http.NotFound(rw, q)
		return
	}
	w.z.mu.Lock()
	c := h.wk
	w.z.mu.Unlock()
	if c.cc != "" {
		rw.Header().Set("Cache-Control", c.cc)
	}
	if c.expires != "" {
		rw.Header().Set("Expires", c.expires)
	}
	body := c.body()
	if c.cl == clCorrect {
		rw.Header().Set("Content-Length", strconv.Itoa(len(body)))
	}
	rw.WriteHeader(c.status)
	if c.status == 204 || c.status == 304 {
		return
	}
	if c.cl == clAbsent {
		if f, ok := rw.(http.Flusher); ok {
			f.Flush() // forces chunked transfer: no Content-Length
		}
	}
	rw.Write(body)
}

func bodyDial(r *sim.Run) {
	t := r.T
	z := newZone()
	w := &dialWorld{r: r, z: z, ever: map[string]map[netip.Addr]bool{}, ops: map[int]*getOp{}}
	w.n = newSimNet(r, z)
	w.n.handler = w.handle
	// hosts: resolution-relevant configuration is fixed for the run; addresses
	// and reachability change
	for _, nme := range dnsPool {
		h := genHost(t, nme, true)
		genAddrs(t, h)
		z.hosts[h.name] = h
		w.noteAddrs(h)
	}
	for _, nme := range []string{"srv1.example", "srv2.example", "srv3.example"} {
		h := &hostCfg{name: nme, wk: wkCfg{mode: wkAbsent}}
		genAddrs(t, h)
		z.hosts[nme] = h
		w.noteAddrs(h)
	}
	for _, a := range addrPool {
		w.n.setState(netip.MustParseAddr(a), t.Weighted([]int{7, 2, 1, 2}))
	}
	if t.Chance(150) {
		i := t.Intn(len(dnsPool))
		j := (i + 1 + t.Intn(len(dnsPool)-1)) % len(dnsPool)
		port := uint16(sim.Pick(t, []int{8448, 443, 4242}))
		for _, nme := range []string{dnsPool[i], dnsPool[j]} {
			h := z.hosts[canon(nme)]
			h.wk = wkCfg{mode: wkAbsent}
			h.fed = srvCfg{kind: ref.SRVFound, recs: []ref.SRVRecord{{Target: "srv1.example", Port: port, Priority: 10}}}
			w.hosted = append(w.hosted, nme)
		}
		for _, a := range z.hosts["srv1.example"].a {
			w.n.setState(a, ipUp)
		}
		for _, a := range z.hosts["srv1.example"].aaaa {
			w.n.setState(a, ipUp)
		}
		r.Probe("two_names_with_one_srv_target")
		r.Logf("hosting: %s and %s both publish SRV srv1.example:%d", dnsPool[i], dnsPool[j], port)
	}
	w.allow, _ = withJunk(t, sim.Pick(t, allowSets))
	var junk bool
	w.deny, junk = withJunk(t, sim.Pick(t, denySets))
	if junk {
		r.Probe("deny_list_with_unparsable_entry")
	}
	if t.Chance(120) {
		w.allow, w.deny = nil, nil
	}
	w.policy = len(w.allow) > 0 || len(w.deny) > 0

	// the process-wide seams: well-known goes out through a plain transport
	// (no dial policy of its own, like http.DefaultTransport) over the same
	// simulated network; names resolve through the simulated DNS
	// Durations chosen by the harness carry a fraction of a second that no sum
	// of the library's whole-second timeouts (5 s dial, 5 s DNS attempt, 30 s
	// well-known) can reach: two timers firing at one simulated instant would
	// run in an order the simulator does not control.
	plain := &net.Dialer{Timeout: 13700 * time.Millisecond}
	w.wkTr = &http.Transport{
		DialContext: func(ctx context.Context, network, addr string) (net.Conn, error) {
			return w.n.dial("wk", plain, ctx, network, addr)
		},
		TLSClientConfig:   &tls.Config{InsecureSkipVerify: true},
		DisableKeepAlives: true,
	}
	installGlobals(r, z, w.wkTr)
	verifrt.DialHook = func(d *net.Dialer, ctx context.Context, network, addr string) (net.Conn, error) {
		// the client dials through its federation dialer; a client limited to
		// allowed / denied networks fetches well-known documents through a
		// second dialer of its own instead of the process-wide transport
		tag := "fed"
		if fclient.VerifInternals && w.client != nil && d != w.client.VerifFederationDialer() && (w.cache == nil || d != w.cache.VerifDialer()) {
			tag = "wk"
			r.Probe("wellknown_fetched_through_the_clients_own_dialer")
		}
		return w.n.dial(tag, d, ctx, network, addr)
	}
	r.Defer(func() { verifrt.DialHook = nil })

	opts := []fclient.ClientOption{fclient.WithWellKnownSRVLookups(true), fclient.WithSkipVerify(true), fclient.WithAllowDenyNetworks(w.allow, w.deny)}
	keep := t.Bool()
	if !fclient.VerifInternals {
		// without the accessors the client's DNS cache cannot be given the
		// simulated resolver: no DNS cache; connections are told apart by
		// address. Kept-alive connections end when the simulated network is
		// torn down (every connection is closed from the server's side).
		r.Probe("degraded_dial_workload_without_internals")
	}
	opts = append(opts, fclient.WithKeepAlives(keep))
	reqTimeout := sim.Pick(t, []time.Duration{37300 * time.Millisecond, 20300 * time.Millisecond, 51300 * time.Millisecond})
	opts = append(opts, fclient.WithTimeout(reqTimeout))
	w.reqTimeout = reqTimeout
	cacheLife := time.Duration(0)
	if t.Chance(400) && fclient.VerifInternals {
		cacheLife = sim.Pick(t, []time.Duration{5 * time.Second, time.Minute, 10 * time.Minute})
		w.cache = fclient.NewDNSCache(t.Range(1, 3), cacheLife, w.allow, w.deny)
		w.cache.VerifSetResolver(orderedResolver{net.DefaultResolver})
		opts = append(opts, fclient.WithDNSCache(w.cache))
		r.Probe("client_with_dns_cache")
	}
	w.client = fclient.NewClient(opts...)
	r.Defer(func() {
		w.client.VerifCloseIdle()
		w.wkTr.CloseIdleConnections()
		w.n.close()
		synctest.Wait()
		// let what is still timing out (TLS close_notify deadlines, resolver
		// retries) run dry: time stops when the body returns
		time.Sleep(3 * time.Minute)
		synctest.Wait()
	})
	r.Logf("client allow=%q deny=%q keepalives=%v dnscache=%v timeout=%v", w.allow, w.deny, keep, cacheLife, reqTimeout)
	for _, nme := range z.names() {
		h := z.hosts[nme]
		r.Logf("world %s: addrs=%s wk{%s} fed=%s old=%s", nme, fmtAddrs(h), h.wk, h.fed, h.old)
	}
	var sts []string
	for _, a := range addrPool {
		ip := netip.MustParseAddr(a)
		if st := w.n.stateOf(ip); st != ipUp {
			sts = append(sts, a+"="+ipStateNames[st])
		}
	}
	r.Logf("network: not up: %s", strings.Join(sts, " "))

	nops := t.Range(2, 5)
	for i := 0; i < nops && !r.Failed() && !w.stop; i++ {
		r.Op()
		switch t.Weighted([]int{8, 2, 2, 1}) {
		case 0:
			w.opGet(w.pickTarget())
		case 1:
			h := z.hosts[sim.Pick(t, z.names())]
			z.mu.Lock()
			genAddrs(t, h)
			w.noteAddrs(h)
			z.mu.Unlock()
			r.Fault("dns_answer_change")
			r.Logf("t=%v change: %s now resolves to %s", r.Now(), h.name, fmtAddrs(h))
		case 2:
			ip := netip.MustParseAddr(sim.Pick(t, addrPool))
			st := t.Weighted([]int{5, 3, 1, 2})
			w.n.setState(ip, st)
			r.Logf("t=%v change: %s is now %s", r.Now(), ip, ipStateNames[st])
		case 3:
			d := time.Duration(sim.Pick(t, []int{1, 6, 61, 301, 601}))*time.Second + 100*time.Millisecond
			time.Sleep(d)
			synctest.Wait()
			r.Fault("clock_jump")
			r.Logf("t=%v advance %v", r.Now(), d)
		}
	}
	if len(r.Faults) > 0 {
		r.Nontriv = true
	}
}

// noWellKnown is the world as seen when no well-known document can be fetched.
type noWellKnown struct{ z *zone }

func (w noWellKnown) WellKnown(string) ref.WellKnownReply {
	return ref.WellKnownReply{NoResponse: true}
}
func (w noWellKnown) SRV(service, h string) ref.SRVAnswer { return w.z.srvTruth(service, h) }

func (w *dialWorld) pickTarget() string {
	t := w.r.T
	// sometimes the name that an earlier name's well-known document delegates
	// to: it is a server name in its own right, with its own document
	if w.lastDeleg != "" && t.Chance(300) {
		w.r.Probe("request_for_a_name_another_name_delegates_to")
		return w.lastDeleg
	}
	if len(w.hosted) == 2 && t.Chance(600) {
		w.hostedTurn++
		return w.hosted[w.hostedTurn%2]
	}
	switch t.Weighted([]int{8, 2, 2, 2, 1}) {
	case 1:
		return fmt.Sprintf("%s:%d", sim.Pick(t, dnsPool), sim.Pick(t, []int{8448, 443, 4242}))
	case 2:
		a := netip.MustParseAddr(sim.Pick(t, addrPool))
		if a.Is4() {
			return a.String()
		}
		return "[" + a.String() + "]"
	case 3:
		a := netip.MustParseAddr(sim.Pick(t, addrPool))
		if a.Is4() {
			return fmt.Sprintf("%s:%d", a, sim.Pick(t, []int{8448, 443}))
		}
		return fmt.Sprintf("[%s]:%d", a, sim.Pick(t, []int{8448, 443}))
	case 4:
		return sim.Pick(t, wrongPool[1:])
	}
	return sim.Pick(t, dnsPool)
}

// hostAddrs: the addresses a destination host may legitimately lead to.
func (w *dialWorld) hostAddrs(host string) map[netip.Addr]bool {
	h := strings.TrimSuffix(strings.TrimPrefix(host, "["), "]")
	if ip, err := netip.ParseAddr(h); err == nil {
		return map[netip.Addr]bool{ip.Unmap(): true}
	}
	return w.ever[canon(host)]
}

func splitDest(dest string) (string, int) {
	h, p, err := net.SplitHostPort(dest)
	if err != nil {
		return dest, -1
	}
	n, _ := strconv.Atoi(p)
	return h, n
}

func (w *dialWorld) opGet(name string) {
	r := w.r
	u := url.URL{Scheme: "matrix", Host: name, Path: "/_matrix/federation/v1/version"}
	req, err := http.NewRequest("GET", u.String(), nil)
	if err != nil {
		r.Logf("t=%v get %q: request cannot be built: %v", r.Now(), name, err != nil)
		r.Probe("get_unbuildable_url")
		return
	}
	// the server name the client is asked for is what the request carries
	// (net/http drops an empty port, for instance)
	if req.URL.Host != name {
		r.Probe("url_host_normalised_by_net_http")
		name = req.URL.Host
	}
	// The well-known document is only there if the host could be reached at
	// that moment (addresses, listeners), and the client may answer from its
	// resolution cache: targets of both readings are acceptable.
	want := ref.ResolveServerName(nameWorld{w.z}, name)
	wantNoWK := ref.ResolveServerName(noWellKnown{w.z}, name)
	w.nop++
	op := &getOp{name: name, want: want, wantNoWK: wantNoWK}
	for _, l := range append(append([][]ref.Target{}, want.Accept...), wantNoWK.Accept...) {
		op.targets = append(op.targets, l...)
	}
	w.ops[w.nop] = op
	status := 0
	began := r.Now()
	resp, err := w.client.DoHTTPRequest(withOp(context.Background(), w.nop), req)
	if err == nil {
		status = resp.StatusCode
		io.Copy(io.Discard, resp.Body)
		resp.Body.Close()
	}
	synctest.Wait()
	all, reqs := w.n.drain()
	// Which dialer object a connection was made with tells a well-known fetch
	// from a federation connection only as long as the client keeps two
	// dialers - an implementation detail (a client with one shared policy
	// dialer is as good). What does not depend on it: the fetch goes to port
	// 443 of the very host name asked for, and nothing but the well-known
	// document is requested over it.
	if wkHost := strings.TrimSuffix(strings.ToLower(want.WellKnownFor), "."); wkHost != "" {
		fedReq := map[int]bool{}
		for _, q := range reqs {
			if q.path != "/.well-known/matrix/server" {
				fedReq[q.conn] = true
			}
		}
		for i := range all {
			a := &all[i]
			if a.tag != "fed" {
				continue
			}
			vh, vp := splitDest(a.via)
			vh = strings.TrimSuffix(strings.ToLower(vh), ".")
			byName := vh == wkHost
			if ip, err := netip.ParseAddr(strings.Trim(vh, "[]")); err == nil && w.hostAddrs(wkHost)[ip.Unmap()] {
				byName = true // dialled through a resolver of the client's own (DNS cache)
			}
			if vp != 443 || !byName {
				continue
			}
			if a.outcome == "connected" && fedReq[a.conn] {
				continue
			}
			a.tag = "wk"
			r.Probe("wellknown_dial_told_by_its_address")
		}
	}
	// dials begun at or after the instant the client gave up are the racing
	// ones: kept for the policy oracle, left out of the log
	var as, late []attempt
	for _, a := range all {
		if a.op == w.nop && a.started >= began+w.reqTimeout {
			late = append(late, a)
		} else {
			as = append(as, a)
		}
	}
	if r.Now()-began >= w.reqTimeout {
		r.Probe("request_hit_client_timeout_run_ends")
		r.Fault("timeout")
		w.stop = true
	}
	// The well-known step may not be skipped: the first time a client is asked
	// for a host name without a port it has nothing cached under that name, so
	// it has to try to fetch the name's well-known document (whatever comes of
	// it) - also when some other name's document delegated to this host before.
	if w.asked == nil {
		w.asked = map[string]bool{}
	}
	if first := !w.asked[canon(name)]; first && want.WellKnownFor != "" && !want.Refused && !want.Unspecified {
		nwk := 0
		for _, a := range all {
			if a.tag == "wk" {
				nwk++
			}
		}
		for _, q := range reqs {
			if q.path == "/.well-known/matrix/server" {
				nwk++ // fetched over a connection that was already there
			}
		}
		r.Check(nwk > 0, "C16", "resolution", "wellknown_step_skipped", "first request for server name %q: no attempt was made to fetch its well-known document; the network saw %s", name, fmtAttempts(all))
		r.Probe("first_request_for_a_name_fetches_wellknown")
	}
	w.asked[canon(name)] = true
	if h := w.z.hosts[canon(name)]; h != nil && h.wk.mode != wkAbsent && h.wk.doc == docServer {
		for _, n := range dnsPool {
			if h.wk.mserver == n && canon(n) != canon(name) {
				w.lastDeleg = n
			}
		}
	}
	for _, a := range late {
		if a.outcome == "connected" && w.policy && a.tag == "fed" {
			r.Check(ref.DialPermitted(a.ip, w.allow, w.deny), "C16", "dial_policy", "after_client_timeout", "client with allow=%q deny=%q connected to %s:%d (dialled as %s)", w.allow, w.deny, a.ip, a.port, a.via)
		}
	}
	for _, k := range w.z.drainHits() {
		if strings.HasPrefix(k, "f:") {
			r.Fault(k[2:])
		} else {
			r.Probe(k[2:])
		}
	}
	if err != nil && debugErrors {
		r.Logf("  error: %v", err)
	}
	r.Logf("t=%v get %q -> status=%d err=%v | ref step=%s %s | %s", r.Now(), name, status, err != nil, want.Step, want.Corner, fmtAttempts(as))
	r.State(fmt.Sprintf("get step=%s ok=%v policy=%v cache=%v", want.Step, err == nil, w.policy, w.cache != nil))
	if err != nil {
		r.Probe("get_failed")
		// two rounds of dials but a single well-known fetch: the retry after
		// "all targets failed" re-used the first resolution (observation only)
		nwk, rounds := 0, map[string]int{}
		for _, a := range as {
			if a.tag == "wk" {
				nwk++
			} else if a.op == w.nop {
				rounds[a.via+" "+a.ip.String()]++
			}
		}
		twice := false
		for _, c := range rounds {
			if c >= 2 {
				twice = true
			}
		}
		if twice && nwk == 1 && want.WellKnownFor != "" && w.cache == nil {
			r.Probe("retry_after_failure_reused_first_resolution")
		}
	} else {
		r.Probe("get_ok")
	}
	byConn := map[int][]served{}
	for _, q := range reqs {
		byConn[q.conn] = append(byConn[q.conn], q)
	}
	// A request may travel on a connection an earlier operation dialled and the
	// client kept alive. It is judged like any other: the connection has to
	// lead to a target of THIS request and carry that target's TLS name.
	if w.conns == nil {
		w.conns = map[int]attempt{}
	}
	dialledNow := map[int]bool{}
	for _, a := range as {
		if a.outcome == "connected" {
			dialledNow[a.conn] = true
			w.conns[a.conn] = a
		}
	}
	if cur := w.ops[w.nop]; cur != nil && !cur.want.Unspecified && !cur.wantNoWK.Unspecified {
		for _, q := range reqs {
			a, known := w.conns[q.conn]
			if dialledNow[q.conn] || !known || a.tag != "fed" || q.path == "/.well-known/matrix/server" {
				continue
			}
			r.Probe("request_on_a_connection_kept_alive")
			ok, reach := false, false
			for _, tg := range cur.targets {
				h, p := splitDest(tg.Destination)
				if p != a.port || !w.hostAddrs(h)[a.ip] {
					continue
				}
				reach = true
				wantSNI := strings.TrimSuffix(tg.TLSName, ".")
				if _, err := netip.ParseAddr(tg.TLSName); err == nil {
					wantSNI = ""
				}
				if q.host == tg.Host && q.sni == wantSNI {
					ok = true
				}
			}
			if !reach {
				r.Violate("C16", "target", cur.want.Step+":kept_alive", "request for %q travelled on a kept-alive connection to %s:%d; the specification's targets are %s", cur.name, a.ip, a.port, fmtTargets(cur.targets))
			}
			r.Check(ok, "C16", "target_headers", cur.want.Step+":kept_alive", "request for %q travelled on a kept-alive connection to %s:%d with Host %q, set up under TLS name %q; the specification prescribes %s", cur.name, a.ip, a.port, q.host, q.sni, fmtTargets(cur.targets))
		}
	}
	for _, a := range as {
		// judge every attempt against the request it was made for
		op := w.ops[a.op]
		if op == nil {
			r.Violate("C16", "harness", "untagged_dial", "dial %s carries no operation tag", a)
		}
		if a.op != w.nop {
			r.Probe("dial_finished_after_its_request")
		}
		name, want, wantNoWK, targets := op.name, op.want, op.wantNoWK, op.targets
		switch a.outcome {
		case "denied":
			r.Fault("dial_denied")
			r.Nontriv = true
		case "refused":
			r.Fault("conn_refused")
			r.Nontriv = true
		case "timeout":
			r.Fault("timeout")
			r.Nontriv = true
		case "noaddr":
			r.Probe("dial_name_without_address")
		}
		if a.ip.IsValid() && a.ip.Is4() && strings.Contains(a.via, "::ffff:") {
			r.Probe("ipv4_mapped_dialled_as_ipv4")
		}
		if a.outcome != "connected" {
			continue
		}
		r.Probe("connected_" + a.tag)
		// (c) dial policy: soundness, every connection
		if w.policy {
			permitted := ref.DialPermitted(a.ip, w.allow, w.deny)
			if a.tag == "wk" {
				if !permitted {
					r.Violate("C16", "dial_policy", "wellknown_fetch_ignores_lists", "client with allow=%q deny=%q connected to %s:%d (%s) to fetch the well-known document of %q", w.allow, w.deny, a.ip, a.port, a.via, name)
				}
			} else {
				sig := "denied_address"
				if !ref.InAnyRange(a.ip, w.deny) {
					sig = "address_not_allowed"
				}
				if w.cache != nil {
					sig += "_via_dnscache"
				}
				r.Check(permitted, "C16", "dial_policy", sig, "client with allow=%q deny=%q connected to %s:%d (dialled as %s) for server name %q", w.allow, w.deny, a.ip, a.port, a.via, name)
			}
		}
		if a.tag != "fed" {
			continue
		}
		if want.Refused {
			r.Violate("C16", "invalid_name", "connected", "a connection to %s:%d was made for the invalid server name %q", a.ip, a.port, name)
		}
		if want.Unspecified || wantNoWK.Unspecified {
			continue
		}
		// (a) the connection goes to a target the specification yields, with
		// the Host header and TLS name of that target
		var cands []ref.Target
		for _, tg := range targets {
			h, p := splitDest(tg.Destination)
			if p == a.port && w.hostAddrs(h)[a.ip] {
				cands = append(cands, tg)
			}
		}
		if len(cands) == 0 {
			r.Violate("C16", "target", want.Step, "request for %q connected to %s:%d (dialled as %s); the specification's targets are %s", name, a.ip, a.port, a.via, fmtTargets(targets))
		}
		for _, q := range byConn[a.conn] {
			ok := false
			for _, tg := range cands {
				wantSNI := strings.TrimSuffix(tg.TLSName, ".")
				if _, err := netip.ParseAddr(tg.TLSName); err == nil {
					wantSNI = "" // no SNI for IP literals (RFC 6066)
				}
				if q.host == tg.Host && q.sni == wantSNI {
					ok = true
				}
			}
			sig := want.Step + ":host"
			if len(cands) > 0 && q.host == cands[0].Host {
				sig = want.Step + ":sni"
			}
			r.Check(ok, "C16", "target_headers", sig, "request for %q reached %s:%d with Host %q and SNI %q; the specification prescribes %s", name, a.ip, a.port, q.host, q.sni, fmtTargets(cands))
			r.Probe("server_saw_request")
		}
	}
}
