package netsim

import (
	"context"
	"encoding/json"
	"fmt"
	"io"
	"net"
	"net/http"
	"net/netip"
	"net/url"
	"sort"
	"strconv"
	"strings"
	"sync"
	"testing/synctest"
	"time"

	"github.com/matrix-org/gomatrixserverlib/fclient"
	"github.com/matrix-org/gomatrixserverlib/verifrt"

	"verifharness/ref"
	"verifharness/sim"
)

// ---- workload 3b: one client's transport cache under concurrent round trips ------

// how long an unused transport may stay, and how often the reaper looks: the
// library's own figures (the property names none), read through the overlay
var tripperLifetime, tripperReapInterval = fclient.VerifTripperTimes()

type rtOp struct {
	dest  string
	sleep time.Duration
	get   string // TLS server name: get-or-create its transport directly
}

type rtTask struct {
	name     string
	ops      []rtOp
	connects int
	// log lines of this task since the last quiescent point. One released
	// connection attempt can complete two tasks' requests (the second rides on
	// the first one's keep-alive connection), so two tasks may run at once;
	// their lines are flushed in task order when the bubble is quiescent.
	buf []string
}

func (w *rtWorld) tlog(ts *rtTask, format string, a ...any) {
	line := fmt.Sprintf(format, a...)
	w.mu.Lock()
	ts.buf = append(ts.buf, line)
	w.mu.Unlock()
}

func (w *rtWorld) flush() {
	w.mu.Lock()
	defer w.mu.Unlock()
	names := make([]string, 0, len(w.tasks))
	for n := range w.tasks {
		names = append(names, n)
	}
	sort.Strings(names)
	for _, n := range names {
		for _, l := range w.tasks[n].buf {
			w.r.Logf("%s", l)
		}
		w.tasks[n].buf = nil
	}
}

type echo struct {
	Path string `json:"path"`
	Host string `json:"host"`
	SNI  string `json:"sni"`
	Addr string `json:"addr"`
}

type rtWorld struct {
	r      *sim.Run
	s      *sim.Sched
	z      *zone
	n      *simNet
	client *fclient.Client
	mu     sync.Mutex
	nop    int
	tasks  map[string]*rtTask
	used   map[string]time.Duration // TLS name -> last instant a round trip for it was started
	active int
	// handed: TLS name -> the transport last handed out for it and when
	handed map[string][]handedOut
	alias  map[string]string
}

type handedOut struct {
	id   string
	at   time.Duration // the call started
	end  time.Duration // the call returned
	task string
}

func bodyTransports(r *sim.Run) {
	if !fclient.VerifInternals {
		r.Probe("degraded_transport_workload_skipped")
		r.Logf("transport-cache workload skipped: in-package accessors unavailable on this tree")
		return
	}
	t := r.T
	s := sim.NewSched(r)
	z := newZone()
	w := &rtWorld{r: r, s: s, z: z, tasks: map[string]*rtTask{}, used: map[string]time.Duration{}, handed: map[string][]handedOut{}}
	w.n = newSimNet(r, z)
	hosts := map[string][]string{
		"t0.example": {"203.0.113.7"},
		"t1.example": {"203.0.113.127", "198.51.100.9"},
		"t2.example": {"2001:db8::1"},
	}
	for _, name := range []string{"t0.example", "t1.example", "t2.example"} {
		h := &hostCfg{name: name, wk: wkCfg{mode: wkAbsent}}
		for _, a := range hosts[name] {
			ip := netip.MustParseAddr(a)
			if ip.Is4() {
				h.a = append(h.a, ip)
			} else {
				h.aaaa = append(h.aaaa, ip)
			}
			w.n.setState(ip, ipUp)
		}
		z.hosts[name] = h
	}
	if t.Chance(300) {
		w.n.setState(netip.MustParseAddr("203.0.113.127"), ipRefused)
		r.Logf("network: 203.0.113.127 refuses connections")
	}
	if t.Chance(300) {
		// a listener that comes up just too late for the first attempt: if the
		// client tries again (the library does, once, with a fresh resolution)
		// it must get there under the same Host and TLS name; if it gives up,
		// that is a failed round trip after a fault, nothing more
		w.n.setState(netip.MustParseAddr("203.0.113.7"), ipRefusedOnce)
		r.Logf("network: 203.0.113.7 refuses the first connection attempt")
	}
	dests := []string{"t0.example:8448", "t0.example:443", "t1.example:8448", "t2.example:8448", "203.0.113.7:8448", "[2001:db8::1]:8448", "t0.example", "t0.example", "t2.example"}
	w.n.handler = func(rw http.ResponseWriter, q *http.Request, conn int) {
		sni := ""
		if q.TLS != nil {
			sni = q.TLS.ServerName
		}
		addr, _ := q.Context().Value(http.LocalAddrContextKey).(net.Addr)
		e := echo{Path: q.URL.Path, Host: q.Host, SNI: sni}
		if addr != nil {
			e.Addr = addr.String()
		}
		rw.Header().Set("Content-Type", "application/json")
		json.NewEncoder(rw).Encode(e)
	}
	w.n.beforeConnect = func(ctx context.Context, tag, literal string) {
		name := sim.TaskName(ctx)
		w.mu.Lock()
		ts := w.tasks[name]
		n := 0
		if ts != nil {
			ts.connects++
			n = ts.connects
		}
		w.mu.Unlock()
		if ts == nil {
			return // not one of ours (cannot happen: every request carries its task)
		}
		s.Yield(name, fmt.Sprintf("connect#%d:%s", n, literal))
	}
	installGlobals(r, z, &wkTransport{z: z})
	verifrt.DialHook = func(d *net.Dialer, ctx context.Context, network, addr string) (net.Conn, error) {
		return w.n.dial("fed", d, ctx, network, addr)
	}
	r.Defer(func() { verifrt.DialHook = nil })
	// Lock boundaries of the transport cache are yield points: a task (or the
	// reaper, the only other goroutine that takes that mutex) parks before
	// every Lock and after every Unlock and the seeded scheduler decides who
	// goes next. Goroutines net/http starts on its own carry no task identity
	// and pass through.
	verifrt.ResetYield()
	s.Urgent = map[string]bool{"reaper": true}
	verifrt.YieldHook = func(site string) {
		name := s.CurrentTask()
		if name == "" {
			if !strings.Contains(site, "reaper") {
				return
			}
			name = "reaper"
		}
		r.Probe("lock_boundary_yield")
		s.Yield(name, "lock "+site)
	}
	r.Defer(func() { verifrt.YieldHook = nil })
	keep := t.Bool()
	// a request timeout that no sequence of sleeps below can reach: a client
	// timeout in mid-dial makes net/http race its own cancellation
	w.client = fclient.NewClient(fclient.WithWellKnownSRVLookups(true), fclient.WithSkipVerify(true), fclient.WithKeepAlives(keep),
		fclient.WithTimeout(3*time.Hour+300*time.Millisecond))
	r.Defer(func() {
		w.client.VerifCloseIdle()
		w.n.close()
		synctest.Wait()
		time.Sleep(6 * time.Minute)
		synctest.Wait()
	})
	sleeps := []time.Duration{30100 * time.Millisecond, 61100 * time.Millisecond, 301100 * time.Millisecond, 421100 * time.Millisecond}
	ntasks := t.Range(2, 3)
	r.Logf("transports keepalives=%v tasks=%d", keep, ntasks)
	var names []string
	for c := 0; c < ntasks; c++ {
		ts := &rtTask{name: fmt.Sprintf("task%d", c)}
		n := t.Range(2, 4)
		for i := 0; i < n; i++ {
			if t.Chance(300) {
				ts.ops = append(ts.ops, rtOp{sleep: sim.Pick(t, sleeps)})
			} else if t.Chance(250) {
				ts.ops = append(ts.ops, rtOp{get: sim.Pick(t, []string{"t0.example", "t1.example", "fresh.example"})})
			} else {
				ts.ops = append(ts.ops, rtOp{dest: sim.Pick(t, dests)})
			}
		}
		w.tasks[ts.name] = ts
		names = append(names, ts.name)
	}
	for _, nme := range names {
		ts := w.tasks[nme]
		s.Go(ts.name, func() {
			for i, op := range ts.ops {
				if r.Failed() {
					return
				}
				r.Op()
				if op.get != "" {
					w.getTransport(ts, i, op.get)
				} else if op.dest == "" {
					if op.sleep > tripperLifetime {
						r.Fault("clock_jump")
					}
					w.tlog(ts, "t=%v %s: sleep %v", r.Now(), ts.name, op.sleep)
					s.Sleep(nil, ts.name, fmt.Sprintf("sleep#%d", i), op.sleep)
				} else {
					w.roundTrip(ts, i, op.dest)
				}
				s.Yield(ts.name, fmt.Sprintf("op#%d", i))
			}
		})
	}
	s.AfterStep = func() {
		w.flush()
		w.checkTransports("after step")
	}
	s.RunAll()
	verifrt.YieldHook = nil // the scheduler loop is over: nobody would release a parked reaper
	w.flush()
	r.Nontriv = true
	if r.Failed() {
		return
	}
	// liveness of the reaper: unused for lifetime + two reap intervals, the
	// cache must be empty
	time.Sleep(tripperLifetime + 2*tripperReapInterval + 100*time.Millisecond)
	synctest.Wait()
	left := w.client.VerifTransports()
	var ks []string
	for k := range left {
		ks = append(ks, k)
	}
	sort.Strings(ks)
	r.Logf("t=%v idle for %v: transports left %v", r.Now(), tripperLifetime+2*tripperReapInterval, ks)
	r.Check(len(left) == 0, "C19", "transport_reap", "never_reaped", "transports for %v are still cached %v after their last use", ks, tripperLifetime+2*tripperReapInterval)
}

// checkTransports is the invariant on the transport cache.
func (w *rtWorld) checkTransports(where string) {
	r := w.r
	now := time.Now()
	tr := w.client.VerifTransports()
	ks := make([]string, 0, len(tr))
	for k := range tr {
		ks = append(ks, k)
	}
	sort.Strings(ks)
	w.mu.Lock()
	defer w.mu.Unlock()
	for _, k := range ks {
		last := tr[k]
		_, known := w.used[k]
		r.Check(known, "C19", "transport_cache", "phantom_transport", "%s: a transport for TLS name %q is cached but no round trip for that name was ever started", where, k)
		r.Check(!last.IsZero(), "C19", "transport_cache", "unstamped_transport", "%s: the transport for %q is in the cache without a last-used time: the reaper, which reads it under the same mutex, would fail on it", where, k)
		r.Check(!last.After(now), "C19", "transport_cache", "last_used_in_future", "%s: transport %q last used %v in the future", where, k, last.Sub(now))
		// a reaper pass happens every interval; an entry unused for longer than
		// lifetime + 2 intervals has survived at least one pass it should not have
		if now.Sub(last) > tripperLifetime+2*tripperReapInterval {
			r.Violate("C19", "transport_reap", "stale_entry", "%s: transport %q was last used %v ago and is still cached (lifetime %v, reaped every %v)", where, k, now.Sub(last), tripperLifetime, tripperReapInterval)
		}
	}
	r.State(fmt.Sprintf("transports=%s active=%d", strings.Join(ks, ","), w.active))
	if len(ks) >= 3 {
		r.Probe("three_or_more_transports_cached")
	}
}

// getTransport asks the cache for the transport of one TLS name, as every
// round trip does first. Sequentially, two such calls closer together than
// the cache's lifetime are handed the same transport; so must concurrent ones.
//
// The cache stamps the transport at some instant between the start of the
// call and its return (a task may sit parked at a lock boundary inside the
// call, before or after the stamp, while the simulated clock advances), and
// an entry is reaped only once its stamp is older than the lifetime. So two
// calls were certainly not separated by a reap if everything from the earlier
// start to the later return fits into one lifetime; only then are different
// transports a violation.
func (w *rtWorld) getTransport(ts *rtTask, i int, name string) {
	r := w.r
	w.mu.Lock()
	w.used[name] = r.Now()
	w.mu.Unlock()
	start := r.Now()
	id := w.client.VerifGetTransport(name)
	end := r.Now()
	w.mu.Lock()
	// addresses differ from process to process: name transports in order of appearance
	if w.alias == nil {
		w.alias = map[string]string{}
	}
	if _, ok := w.alias[id]; !ok {
		w.alias[id] = fmt.Sprintf("transport#%d", len(w.alias)+1)
	}
	id = w.alias[id]
	earlier := append([]handedOut{}, w.handed[name]...)
	w.handed[name] = append(w.handed[name], handedOut{id: id, at: start, end: end, task: ts.name})
	w.mu.Unlock()
	w.tlog(ts, "t=%v %s: get#%d transport for %q (asked at %v) -> %s", end, ts.name, i, name, start, id)
	r.Probe("transport_get_or_create")
	for _, prev := range earlier {
		lo, hi := prev.at, prev.end
		if start < lo {
			lo = start
		}
		if end > hi {
			hi = end
		}
		if prev.id != id && hi-lo < tripperLifetime {
			r.Violate("C19", "transport_cache", "two_transports_for_one_name", "%s (asking from %v to %v) was handed %s for %q and %s (asking from %v to %v) was handed %s, all within %v: a sequential execution hands out one transport per name until it is reaped", ts.name, start, end, id, name, prev.task, prev.at, prev.end, prev.id, hi-lo)
		}
	}
}

func (w *rtWorld) roundTrip(ts *rtTask, i int, dest string) {
	r := w.r
	want := ref.ResolveServerName(noWellKnown{w.z}, dest)
	tg := want.Accept[0][0]
	path := fmt.Sprintf("/rt/%s/%d", ts.name, i)
	u := url.URL{Scheme: "matrix", Host: dest, Path: path}
	req, err := http.NewRequest("GET", u.String(), nil)
	if err != nil {
		r.Violate("C19", "harness", "bad_url", "cannot build request for %q: %v", dest, err)
	}
	w.mu.Lock()
	w.used[tg.TLSName] = r.Now()
	w.nop++
	opID := w.nop
	w.active++
	if w.active > 1 {
		r.Probe("concurrent_round_trips")
	}
	before := w.client.VerifTransports()
	if _, ok := before[tg.TLSName]; ok {
		r.Probe("transport_reused")
	} else {
		r.Probe("transport_created")
	}
	w.mu.Unlock()
	ctx := withOp(sim.WithTask(context.Background(), ts.name), opID)
	resp, err := w.client.DoHTTPRequest(ctx, req)
	var body []byte
	status := 0
	if err == nil {
		status = resp.StatusCode
		body, _ = io.ReadAll(resp.Body)
		resp.Body.Close()
	}
	w.mu.Lock()
	w.active--
	w.mu.Unlock()
	var e echo
	json.Unmarshal(body, &e)
	mine := w.n.takeOp(opID)
	faulted := false
	for _, a := range mine {
		switch a.outcome {
		case "expired", "timeout":
			faulted = true
			r.Fault("timeout")
		case "refused":
			// a round trip that met a refused connection may fail: whether the
			// client tries again is its own business, not the property's
			faulted = true
			r.Fault("conn_refused")
		}
	}
	w.tlog(ts, "t=%v %s: roundtrip#%d %s -> status=%d err=%v served_by=%s host=%q sni=%q | %s", r.Now(), ts.name, i, dest, status, err != nil, e.Addr, e.Host, e.SNI, fmtAttempts(mine))
	// what a sequential execution gives: the request is answered by a server
	// of that destination, with that destination's Host header and TLS name,
	// and the answer is the one to THIS request
	h, port := splitDest(tg.Destination)
	reachable := false
	var addrs []netip.Addr
	if ip, perr := netip.ParseAddr(strings.Trim(h, "[]")); perr == nil {
		addrs = []netip.Addr{ip}
	} else if hc := w.z.host(h); hc != nil {
		addrs = append(append(addrs, hc.a...), hc.aaaa...)
	}
	for _, a := range addrs {
		if w.n.stateOf(a) == ipUp {
			reachable = true
		}
	}
	if err != nil {
		r.Probe("roundtrip_failed")
		r.Check(!reachable || faulted, "C19", "seq_equiv", "roundtrip_failed", "round trip to %s failed (%v) although the destination is reachable and no fault was injected", dest, err)
		return
	}
	r.Probe("roundtrip_ok")
	r.Check(status == 200 && e.Path == path, "C19", "seq_equiv", "foreign_response", "round trip %s to %s was answered with status %d for path %q", path, dest, status, e.Path)
	wantSNI := tg.TLSName
	if _, perr := netip.ParseAddr(tg.TLSName); perr == nil {
		wantSNI = ""
	}
	r.Check(e.Host == tg.Host && e.SNI == wantSNI, "C19", "seq_equiv", "wrong_host_or_sni", "round trip to %s arrived with Host %q SNI %q, expected Host %q SNI %q", dest, e.Host, e.SNI, tg.Host, wantSNI)
	ok := false
	for _, a := range addrs {
		if e.Addr == netip.AddrPortFrom(a, uint16(port)).String() {
			ok = true
		}
	}
	r.Check(ok, "C19", "seq_equiv", "wrong_server", "round trip to %s was served by %s, the destination's addresses are %v port %s", dest, e.Addr, addrs, strconv.Itoa(port))
}
