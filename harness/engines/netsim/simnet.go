package netsim

import (
	"context"
	"crypto/ed25519"
	"crypto/sha256"
	"crypto/tls"
	"crypto/x509"
	"crypto/x509/pkix"
	"errors"
	"fmt"
	"io"
	"math/big"
	"net"
	"net/http"
	"net/netip"
	"sort"
	"strconv"
	"strings"
	"sync"
	"time"

	"verifharness/sim"
)

// ---- TLS identity of every simulated server (one per process) --------------------

var serverCert tls.Certificate

type zeroReader struct{}

func (zeroReader) Read(p []byte) (int, error) {
	for i := range p {
		p[i] = 0
	}
	return len(p), nil
}

// initTLS builds a self-signed ed25519 certificate from a fixed seed. It runs
// outside any bubble. Clients skip verification (WithSkipVerify), as the
// federation client of a test deployment does; what is observed is the SNI.
func initTLS() {
	seed := sha256.Sum256([]byte("verif netsim tls identity"))
	priv := ed25519.NewKeyFromSeed(seed[:])
	tmpl := &x509.Certificate{
		SerialNumber: big.NewInt(1),
		Subject:      pkix.Name{CommonName: "netsim"},
		NotBefore:    time.Date(1999, 1, 1, 0, 0, 0, 0, time.UTC),
		NotAfter:     time.Date(2100, 1, 1, 0, 0, 0, 0, time.UTC),
		KeyUsage:     x509.KeyUsageDigitalSignature,
		ExtKeyUsage:  []x509.ExtKeyUsage{x509.ExtKeyUsageServerAuth},
		DNSNames:     []string{"*.example", "*.example.org"},
	}
	der, err := x509.CreateCertificate(zeroReader{}, tmpl, tmpl, priv.Public(), priv)
	if err != nil {
		panic(err)
	}
	serverCert = tls.Certificate{Certificate: [][]byte{der}, PrivateKey: priv}
}

// ---- simulated IP network ---------------------------------------------------------

const (
	ipUp          = iota // something listens on every port of the address
	ipRefused            // host up, nothing listens
	ipBlackhole          // packets vanish
	ipRefusedOnce        // refuses the next connection attempt, then is up
)

var ipStateNames = []string{"up", "refused", "blackhole", "refused-once"}

// attempt is one connection attempt the network saw.
type attempt struct {
	at      time.Duration
	tag     string // which party dialled: "fed" (the client under test), "wk" (default transport)
	via     string // address string the dialer was given
	ip      netip.Addr
	port    int
	network string
	outcome string        // connected | denied | refused | timeout | noaddr | badaddr
	conn    int           // connection id when connected
	started time.Duration // when the dial call began
	op      int           // the operation (request) on whose behalf the dial happened, 0 if unknown
}

func (a attempt) String() string {
	if !a.ip.IsValid() {
		return fmt.Sprintf("%s dial %s -> %s", a.tag, a.via, a.outcome)
	}
	return fmt.Sprintf("%s dial %s -> %s %s:%d %s", a.tag, a.via, a.network, a.ip, a.port, a.outcome)
}

// served is one request an HTTPS server saw.
type served struct {
	conn int
	host string
	sni  string
	path string
}

type pipeListener struct {
	ch     chan net.Conn
	done   chan struct{}
	closer sync.Once
}

func (l *pipeListener) Accept() (net.Conn, error) {
	select {
	case c := <-l.ch:
		return c, nil
	case <-l.done:
		return nil, net.ErrClosed
	}
}

func (l *pipeListener) Close() error   { l.closer.Do(func() { close(l.done) }); return nil }
func (l *pipeListener) Addr() net.Addr { return simAddr("0.0.0.0:0") }

type simAddr string

func (a simAddr) Network() string { return "tcp" }
func (a simAddr) String() string  { return string(a) }

// simConn is a pipe end that knows which simulated connection it belongs to.
type simConn struct {
	net.Conn
	id            int
	local, remote simAddr
}

func (c *simConn) LocalAddr() net.Addr  { return c.local }
func (c *simConn) RemoteAddr() net.Addr { return c.remote }

type connKey struct{}

// opKey tags a request context with the number of the harness operation, so
// that dials finishing late are still judged against their own request.
type opKey struct{}

func withOp(ctx context.Context, op int) context.Context { return context.WithValue(ctx, opKey{}, op) }

// synTimeout is how long the simulated kernel keeps retrying a SYN that is
// never answered (Linux: about 127 s) when the dialer sets no deadline.
const synTimeout = 127100 * time.Millisecond

type simNet struct {
	r  *sim.Run
	z  *zone
	mu sync.Mutex

	state      map[netip.Addr]int // default: refused
	attempts   []attempt
	requests   []served
	nconn      int
	serverEnds []net.Conn

	ln   *pipeListener
	srv  *http.Server
	down chan struct{} // closed at teardown: pending black-holed dials give up
	// handler answers the requests that reach a simulated server.
	handler func(w http.ResponseWriter, r *http.Request, connID int)
	// beforeConnect, if set, runs in the dialling goroutine before each
	// address is tried (workload 3b parks the task there).
	beforeConnect func(ctx context.Context, tag, literal string)
}

func newSimNet(r *sim.Run, z *zone) *simNet {
	n := &simNet{r: r, z: z, state: map[netip.Addr]int{}}
	n.ln = &pipeListener{ch: make(chan net.Conn), done: make(chan struct{})}
	n.down = make(chan struct{})
	n.srv = &http.Server{
		Handler: http.HandlerFunc(func(w http.ResponseWriter, q *http.Request) {
			id, _ := q.Context().Value(connKey{}).(int)
			sni := ""
			if q.TLS != nil {
				sni = q.TLS.ServerName
			}
			n.mu.Lock()
			n.requests = append(n.requests, served{conn: id, host: q.Host, sni: sni, path: q.URL.Path})
			h := n.handler
			n.mu.Unlock()
			if h != nil {
				h(w, q, id)
				return
			}
			w.Header().Set("Content-Type", "application/json")
			io.WriteString(w, `{"server":{"name":"netsim","version":"1"}}`)
		}),
		ConnContext: func(ctx context.Context, c net.Conn) context.Context {
			if tc, ok := c.(*tls.Conn); ok {
				c = tc.NetConn()
			}
			if sc, ok := c.(*simConn); ok {
				return context.WithValue(ctx, connKey{}, sc.id)
			}
			return ctx
		},
		// No session tickets: a TLS 1.3 server sends them in its first flight,
		// which a synchronous pipe cannot absorb while the client writes its
		// Finished (a TCP socket buffer would).
		TLSConfig:    &tls.Config{Certificates: []tls.Certificate{serverCert}, NextProtos: []string{"http/1.1"}, SessionTicketsDisabled: true},
		TLSNextProto: map[string]func(*http.Server, *tls.Conn, http.Handler){},
		ErrorLog:     nil,
	}
	n.srv.ErrorLog = quietLogger()
	go n.srv.Serve(tls.NewListener(n.ln, n.srv.TLSConfig))
	return n
}

// close tears the server side down: listener first, then the server and every
// connection it still holds.
func (n *simNet) close() {
	close(n.down)
	n.ln.Close()
	n.srv.Close()
	n.mu.Lock()
	ends := n.serverEnds
	n.serverEnds = nil
	n.mu.Unlock()
	for _, c := range ends {
		c.Close()
	}
}

func (n *simNet) setState(ip netip.Addr, st int) {
	n.mu.Lock()
	n.state[ip.Unmap()] = st
	n.mu.Unlock()
}

func (n *simNet) stateOf(ip netip.Addr) int {
	n.mu.Lock()
	defer n.mu.Unlock()
	st, ok := n.state[ip.Unmap()]
	if !ok {
		return ipRefused
	}
	return st
}

func (n *simNet) note(ctx context.Context, a attempt) {
	a.at = n.r.Now()
	a.op, _ = ctx.Value(opKey{}).(int)
	n.mu.Lock()
	n.attempts = append(n.attempts, a)
	n.mu.Unlock()
}

// drain returns what happened since the last drain: attempts in a canonical
// order (time, then text) and the requests servers saw.
func (n *simNet) drain() ([]attempt, []served) {
	n.mu.Lock()
	as, rs := n.attempts, n.requests
	n.attempts, n.requests = nil, nil
	n.mu.Unlock()
	sort.SliceStable(as, func(i, j int) bool {
		if as[i].at != as[j].at {
			return as[i].at < as[j].at
		}
		return as[i].String() < as[j].String()
	})
	return as, rs
}

// takeOp removes and returns the attempts made for one operation.
func (n *simNet) takeOp(op int) []attempt {
	n.mu.Lock()
	defer n.mu.Unlock()
	var mine, rest []attempt
	for _, a := range n.attempts {
		if a.op == op {
			mine = append(mine, a)
		} else {
			rest = append(rest, a)
		}
	}
	n.attempts = rest
	return mine
}

type timeoutErr struct{}

func (timeoutErr) Error() string   { return "i/o timeout" }
func (timeoutErr) Timeout() bool   { return true }
func (timeoutErr) Temporary() bool { return true }

// dial does what the kernel path of net.Dialer does, on the simulated network:
// resolve the host through net.DefaultResolver, then per candidate address run
// the dialer's control function with the concrete network ("tcp4" / "tcp6")
// and the literal ip:port, and connect if it agrees.
func (n *simNet) dial(tag string, d *net.Dialer, ctx context.Context, network, addr string) (net.Conn, error) {
	opErr := func(err error) error { return &net.OpError{Op: "dial", Net: network, Err: err} }
	started := n.r.Now()
	host, portStr, err := net.SplitHostPort(addr)
	if err != nil {
		n.note(ctx, attempt{started: started, tag: tag, via: addr, network: network, outcome: "badaddr"})
		return nil, opErr(err)
	}
	port, err := strconv.Atoi(portStr)
	if err != nil || port < 0 || port > 65535 {
		n.note(ctx, attempt{started: started, tag: tag, via: addr, network: network, outcome: "badaddr"})
		return nil, opErr(errors.New("invalid port " + strconv.Quote(portStr)))
	}
	if d.Timeout > 0 {
		var cancel context.CancelFunc
		ctx, cancel = context.WithTimeout(ctx, d.Timeout)
		defer cancel()
	}
	var ips []netip.Addr
	if ip, perr := netip.ParseAddr(host); perr == nil {
		ips = []netip.Addr{ip}
	} else {
		res := d.Resolver
		if res == nil {
			res = net.DefaultResolver
		}
		found, lerr := res.LookupIPAddr(ctx, host)
		found = canonicalOrder(found)
		if lerr != nil {
			n.note(ctx, attempt{started: started, tag: tag, via: addr, network: network, port: port, outcome: "noaddr"})
			return nil, opErr(lerr)
		}
		// primaries (family of the first address) before fallbacks, as the
		// dialer's serial path does
		var prim, fall []netip.Addr
		first4 := false
		for i, f := range found {
			ip, ok := netip.AddrFromSlice(f.IP)
			if !ok {
				continue
			}
			is4 := f.IP.To4() != nil
			if i == 0 {
				first4 = is4
			}
			if is4 == first4 {
				prim = append(prim, ip)
			} else {
				fall = append(fall, ip)
			}
		}
		ips = append(prim, fall...)
	}
	var last error = errors.New("no addresses")
	for _, ip := range ips {
		nw := "tcp6"
		if ip.Is4() || ip.Is4In6() {
			// an IPv4-mapped address is dialled as the IPv4 address it carries
			nw, ip = "tcp4", ip.Unmap()
		}
		if network == "tcp4" && nw != "tcp4" || network == "tcp6" && nw != "tcp6" {
			continue
		}
		literal := netip.AddrPortFrom(ip, uint16(port)).String()
		if n.beforeConnect != nil {
			n.beforeConnect(ctx, tag, literal)
		}
		if err := ctx.Err(); err != nil {
			// the dial deadline passed before the SYN could leave
			n.note(ctx, attempt{started: started, tag: tag, via: addr, ip: ip, port: port, network: nw, outcome: "expired"})
			return nil, opErr(err)
		}
		var cerr error
		switch {
		case d.ControlContext != nil:
			cerr = d.ControlContext(ctx, nw, literal, nil)
		case d.Control != nil:
			cerr = d.Control(nw, literal, nil)
		}
		if cerr != nil {
			n.note(ctx, attempt{started: started, tag: tag, via: addr, ip: ip, port: port, network: nw, outcome: "denied"})
			last = cerr
			continue
		}
		st := n.stateOf(ip)
		if st == ipRefusedOnce {
			n.setState(ip, ipUp)
			st = ipRefused
			n.r.Fault("conn_refused_once")
		}
		switch st {
		case ipRefused:
			n.note(ctx, attempt{started: started, tag: tag, via: addr, ip: ip, port: port, network: nw, outcome: "refused"})
			last = errors.New("connect: connection refused")
			continue
		case ipBlackhole:
			tm := time.NewTimer(synTimeout)
			select {
			case <-ctx.Done():
				tm.Stop()
			case <-tm.C:
			case <-n.down:
				tm.Stop()
				return nil, opErr(errors.New("connect: network is down"))
			}
			n.note(ctx, attempt{started: started, tag: tag, via: addr, ip: ip, port: port, network: nw, outcome: "timeout"})
			if err := ctx.Err(); err != nil && !errors.Is(err, context.DeadlineExceeded) {
				return nil, opErr(err)
			}
			return nil, opErr(timeoutErr{})
		}
		a, b := net.Pipe()
		n.mu.Lock()
		n.nconn++
		id := n.nconn
		n.mu.Unlock()
		cl := &simConn{Conn: a, id: id, local: simAddr("192.0.2.1:40000"), remote: simAddr(literal)}
		sv := &simConn{Conn: b, id: id, local: simAddr(literal), remote: simAddr("192.0.2.1:40000")}
		select {
		case n.ln.ch <- sv:
		case <-n.ln.done:
			a.Close()
			b.Close()
			return nil, opErr(errors.New("connect: network is down"))
		case <-ctx.Done():
			a.Close()
			b.Close()
			return nil, opErr(ctx.Err())
		}
		n.mu.Lock()
		n.serverEnds = append(n.serverEnds, b)
		n.mu.Unlock()
		n.note(ctx, attempt{started: started, tag: tag, via: addr, ip: ip, port: port, network: nw, outcome: "connected", conn: id})
		return cl, nil
	}
	return nil, opErr(last)
}

func fmtAttempts(as []attempt) string {
	var p []string
	for _, a := range as {
		p = append(p, a.String())
	}
	return strings.Join(p, "; ")
}
