package netsim

import (
	"context"
	"fmt"
	"net"
	"net/http"
	"net/netip"
	"strings"
	"time"

	"github.com/matrix-org/gomatrixserverlib/fclient"
	"github.com/matrix-org/gomatrixserverlib/spec"

	"verifharness/ref"
	"verifharness/sim"
)

// wellKnownClientTimeout is the deadline the specification-independent part of
// the world needs to know: a body slower than the client's patience is a
// failed transfer. The property names no timeout, so pauses are either a few
// seconds or many minutes and the model only assumes that the client's
// patience lies somewhere between (the library's constant is 30 s today; a
// property-preserving change of it must not trip the check).
const wellKnownClientTimeout = 60 * time.Second

var (
	dnsPool   = []string{"a.example", "b.example", "hs.a.example", "MiXed.example", "c-d.example.org"}
	v4Pool    = []string{"10.0.0.5", "192.168.1.1", "203.0.113.7", "127.0.0.1"}
	v6Pool    = []string{"[2001:db8::1]", "[::1]", "[fe80::1]", "[::ffff:10.0.0.5]", "[2001:DB8:0:0::7]"}
	portPool  = []int{8448, 443, 1, 65535, 4242}
	wrongPool = []string{
		"", "exa mple.com", "under_score.example", "[::1", "::1", "a.example:", "a.example:port",
		"a/b.example", "a.example:80:80", "[zz::1]", "m\u00fcnchen.example", "a.example:-1", "[::1]:",
		"[::1]x", "a.example:123456", "[]", "[1]", "a.example/", "a.example:80 ", " a.example", "a.example\n",
		"@a.example", "[2001:db8::1]:http", "a.example:+80", "[fe80::1%eth0]",
		// non-ASCII letters whose code point ends in the byte of an ASCII letter,
		// digit, dot or hyphen (U+0430 -> '0', U+0161 -> 'a', U+212E -> '.', U+4E2D -> '-')
		"ex\u0430mple.com", "\u0161.example", "a\u212eexample", "\u4e2d.example:8448",
	}
	dubiousPool = []string{"[10.0.0.1]", "[:::::]", "[1.2]", "[dead.beef]:8448"}
)

// nameWorld adapts zone + well-known configuration to ref.NameWorld.
type nameWorld struct{ z *zone }

func (w nameWorld) WellKnown(h string) ref.WellKnownReply {
	c := w.z.host(h)
	if c == nil {
		return ref.WellKnownReply{NoResponse: true}
	}
	w.z.mu.Lock()
	defer w.z.mu.Unlock()
	return c.wk.truth(wellKnownClientTimeout)
}

func (w nameWorld) SRV(service, h string) ref.SRVAnswer { return w.z.srvTruth(service, h) }

// ---- generators ---------------------------------------------------------------

func genSRV(t *sim.Tape, rich bool) srvCfg {
	w := []int{6, 3, 1, 1, 1}
	if !rich {
		w = []int{8, 2, 0, 0, 0}
	}
	switch t.Weighted(w) {
	case 1:
		n := t.Weighted([]int{5, 2, 2}) + 1
		c := srvCfg{kind: ref.SRVFound}
		for i := 0; i < n; i++ {
			tgt := sim.Pick(t, []string{"srv1.example", "srv2.example.", "hs.a.example.", "b.example", "Srv3.Example."})
			r := ref.SRVRecord{Target: tgt, Port: uint16(sim.Pick(t, portPool)), Priority: uint16(10 * (i + 1))}
			if t.Chance(300) {
				r.Weight = uint16(t.Range(1, 100)) // weights only matter inside one priority; priorities are distinct here
			}
			c.recs = append(c.recs, r)
		}
		if n > 1 && t.Chance(300) {
			// records listed out of priority order
			c.recs[0], c.recs[n-1] = c.recs[n-1], c.recs[0]
		}
		if n > 1 && t.Chance(200) {
			// one shared priority, weight 0: no order is prescribed among them
			for i := range c.recs {
				c.recs[i].Priority, c.recs[i].Weight = 5, 0
			}
		}
		return c
	case 2:
		return srvCfg{kind: ref.SRVNotFound, sub: nfNoData}
	case 3:
		return srvCfg{kind: ref.SRVError, sub: errServfail}
	case 4:
		return srvCfg{kind: ref.SRVError, sub: errTimeout}
	}
	return srvCfg{kind: ref.SRVNotFound, sub: nfNXDomain}
}

func httpDateOf(t time.Time) string { return t.UTC().Format("Mon, 02 Jan 2006 15:04:05") + " GMT" }

// genWK draws a well-known behaviour. simple=true restricts it to what a real
// HTTP server can be made to do (workload 2).
func genWK(t *sim.Tape, simple bool) wkCfg {
	c := wkCfg{mode: wkReply, status: 200}
	switch t.Weighted([]int{5, 2, 2}) {
	case 1:
		c.mode = wkAbsent
		return c
	case 2:
		c.status = sim.Pick(t, []int{404, 500, 503, 204, 201, 206, 304, 403})
	}
	c.doc = t.Weighted([]int{10, 1, 1, 1, 1, 1, 1})
	switch t.Weighted([]int{4, 2, 1, 1, 1, 1}) {
	case 0:
		c.mserver = sim.Pick(t, dnsPool)
	case 1:
		c.mserver = fmt.Sprintf("%s:%d", sim.Pick(t, dnsPool), sim.Pick(t, portPool))
	case 2:
		c.mserver = sim.Pick(t, v4Pool)
	case 3:
		c.mserver = fmt.Sprintf("%s:%d", sim.Pick(t, v4Pool), sim.Pick(t, portPool))
	case 4:
		c.mserver = sim.Pick(t, v6Pool)
		if t.Bool() {
			c.mserver = fmt.Sprintf("%s:%d", c.mserver, sim.Pick(t, portPool))
		}
	case 5:
		c.mserver = sim.Pick(t, append(append([]string{}, wrongPool[1:]...), dubiousPool...))
	}
	// size
	switch t.Weighted([]int{6, 1, 1, 2, 1, 1}) {
	case 1:
		c.size = ref.WellKnownMaxBytes - 1
	case 2:
		c.size = ref.WellKnownMaxBytes
	case 3:
		c.size = ref.WellKnownMaxBytes + 1
	case 4:
		c.size = ref.WellKnownMaxBytes + 2 + t.Intn(3000)
	case 5:
		c.size = 2*ref.WellKnownMaxBytes + t.Intn(20000)
	}
	if c.size != 0 {
		c.padAt = t.Weighted([]int{5, 1, 2})
	}
	c.cl = t.Weighted([]int{5, 4, 0, 0})
	if !simple {
		c.cl = t.Weighted([]int{5, 4, 1, 1})
	}
	// cache headers (relative to the bubble clock at generation time)
	now := time.Now()
	ages := []int{0, 1, 60, 3600, 86400, 172800}
	switch t.Weighted([]int{4, 3, 1, 1, 1, 1, 1}) {
	case 1:
		c.cc = fmt.Sprintf("max-age=%d", sim.Pick(t, ages))
	case 2:
		c.cc = fmt.Sprintf("public, max-age=%d", sim.Pick(t, ages))
	case 3:
		c.cc = fmt.Sprintf("max-age=%d, must-revalidate", sim.Pick(t, ages))
	case 4:
		c.cc = sim.Pick(t, []string{"no-store", "private", "max-age", "max-age=abc", "max-age=", "maxage=60", "max-age=1h"})
	case 5:
		c.cc = fmt.Sprintf("Max-Age=%d", sim.Pick(t, ages))
	case 6:
		c.cc = fmt.Sprintf("no-transform,max-age=%d,public", sim.Pick(t, ages))
	}
	switch t.Weighted([]int{4, 3, 1}) {
	case 1:
		off := sim.Pick(t, []int{-3600, 0, 60, 7200, 2 * 86400})
		c.expires = httpDateOf(now.Add(time.Duration(off) * time.Second))
	case 2:
		c.expires = sim.Pick(t, []string{"0", "-1", "never", "Sat, 01 Jan 2000 00:00:00", "2000-01-01T00:00:00Z"})
	}
	if !simple {
		switch t.Weighted([]int{8, 2, 1, 1}) {
		case 1:
			c.reader = rdOneByte
		case 2:
			c.reader = rdReset
			c.cutAt = t.Intn(1000)
		case 3:
			c.reader = rdSlow
			c.cutAt = t.Intn(1000)
			c.delay = time.Duration(sim.Pick(t, []int{1, 2, 4, 600, 1800, 3600})) * time.Second
		}
	}
	return c
}

func genHost(t *sim.Tape, name string, simple bool) *hostCfg {
	h := &hostCfg{name: canon(name)}
	h.fed = genSRV(t, !simple)
	h.old = genSRV(t, !simple)
	h.wk = genWK(t, simple)
	return h
}

// pickName draws a server name of every syntactic class.
func pickName(t *sim.Tape) (string, string) {
	switch t.Weighted([]int{12, 2, 1, 1, 1, 1, 3, 1, 1, 1}) {
	case 1:
		return fmt.Sprintf("%s:%d", sim.Pick(t, dnsPool), sim.Pick(t, portPool)), "dns:port"
	case 2:
		return sim.Pick(t, v4Pool), "ipv4"
	case 3:
		return fmt.Sprintf("%s:%d", sim.Pick(t, v4Pool), sim.Pick(t, portPool)), "ipv4:port"
	case 4:
		return sim.Pick(t, v6Pool), "ipv6"
	case 5:
		return fmt.Sprintf("%s:%d", sim.Pick(t, v6Pool), sim.Pick(t, portPool)), "ipv6:port"
	case 6:
		return sim.Pick(t, wrongPool), "invalid"
	case 7:
		return sim.Pick(t, dnsPool) + ".", "rooted"
	case 8:
		return fmt.Sprintf("%s:%d", sim.Pick(t, dnsPool), sim.Pick(t, []int{65536, 70000, 99999})), "port>65535"
	case 9:
		return sim.Pick(t, dubiousPool), "dubious"
	}
	return sim.Pick(t, dnsPool), "dns"
}

// ---- workload 1 -----------------------------------------------------------------

type resolveWorld struct {
	r  *sim.Run
	z  *zone
	rt *wkTransport
}

// installGlobals substitutes the process-wide seams the library's own tests
// substitute, and restores them at teardown.
func installGlobals(r *sim.Run, z *zone, rt http.RoundTripper) {
	oldRT, oldRes := http.DefaultTransport, net.DefaultResolver
	http.DefaultTransport = rt
	net.DefaultResolver = z.resolver()
	r.Defer(func() {
		http.DefaultTransport = oldRT
		net.DefaultResolver = oldRes
	})
}

func (w *resolveWorld) noteHits() {
	for _, k := range w.z.drainHits() {
		if strings.HasPrefix(k, "f:") {
			w.r.Fault(k[2:])
			w.r.Nontriv = true
		} else {
			w.r.Probe(k[2:])
		}
	}
}

func fmtTargets(ts []ref.Target) string {
	var p []string
	for _, t := range ts {
		p = append(p, "{"+t.String()+"}")
	}
	return "[" + strings.Join(p, " ") + "]"
}

func bodyResolve(r *sim.Run) {
	t := r.T
	z := newZone()
	for _, n := range dnsPool {
		z.hosts[canon(n)] = genHost(t, n, false)
	}
	// SRV targets exist as plain hosts (no well-known, no SRV)
	for _, n := range []string{"srv1.example", "srv2.example", "srv3.example"} {
		z.hosts[n] = &hostCfg{name: n, a: []netip.Addr{netip.MustParseAddr("198.51.100.9")}, wk: wkCfg{mode: wkAbsent}}
	}
	rt := &wkTransport{z: z}
	installGlobals(r, z, rt)
	w := &resolveWorld{r: r, z: z, rt: rt}
	for _, n := range z.names() {
		h := z.hosts[n]
		r.Logf("world %s: wk{%s} fed=%s old=%s", n, h.wk, h.fed, h.old)
	}
	nops := t.Range(2, 6)
	for i := 0; i < nops && !r.Failed(); i++ {
		r.Op()
		switch t.Weighted([]int{8, 3, 2, 1}) {
		case 0:
			name, class := pickName(t)
			w.opResolve(name, class)
		case 1:
			w.opWellKnown(sim.Pick(t, dnsPool))
		case 2:
			n := sim.Pick(t, dnsPool)
			h := genHost(t, n, false)
			z.mu.Lock()
			z.hosts[canon(n)] = h
			z.mu.Unlock()
			r.Logf("t=%v change %s: wk{%s} fed=%s old=%s", r.Now(), canon(n), h.wk, h.fed, h.old)
		case 3:
			d := time.Duration(sim.Pick(t, []int{1, 59, 3600, 86400})) * time.Second
			time.Sleep(d)
			r.Fault("clock_jump")
			r.Logf("t=%v advance %v", r.Now(), d)
		}
	}
}

func (w *resolveWorld) opResolve(name, class string) {
	r := w.r
	r.Probe("name_" + class)
	want := ref.ResolveServerName(nameWorld{w.z}, name)
	w.rt.drain()
	start := time.Now()
	got, err := fclient.ResolveServer(context.Background(), spec.ServerName(name))
	took := time.Since(start)
	reqs := w.rt.drain()
	w.noteHits()
	var gts []ref.Target
	for _, g := range got {
		gts = append(gts, ref.Target{Destination: g.Destination, Host: string(g.Host), TLSName: g.TLSServerName})
	}
	r.Logf("t=%v resolve %q (%s) -> %s err=%v took=%v wkfetches=%d | ref step=%s %s", r.Now(), name, class, fmtTargets(gts), err != nil, took, len(reqs), want.Step, want.Corner)
	r.State("resolve " + class + " " + want.Step)
	r.Probe("step_" + want.Step)
	if want.Corner != "" {
		r.Probe("corner: " + want.Corner)
	}
	refused := err != nil
	if want.Refused {
		r.Check(refused && len(got) == 0, "C16", "invalid_name", "accepted:"+class, "invalid server name %q was resolved to %s", name, fmtTargets(gts))
		r.Check(len(reqs) == 0, "C16", "wk_fetch", "for_invalid_name", "a well-known request was made for the invalid name %q", name)
		return
	}
	// well-known fetch discipline: at most once, only for the original
	// hostname, never for the delegated name, never for literals / ports
	for _, q := range reqs {
		ok := q.method == "GET" && q.scheme == "https" && q.path == "/.well-known/matrix/server" && q.host == want.WellKnownFor && want.WellKnownFor != ""
		sig := "wrong_request"
		if want.Verdict != nil && want.Verdict.Honoured && canon(q.host) == canon(ref.ParseServerName(want.Verdict.Server).Host) && q.host != want.WellKnownFor {
			sig = "second_lookup_for_delegated_name"
		} else if want.WellKnownFor == "" {
			sig = "lookup_for_literal_or_port"
		}
		r.Check(ok, "C16", "wk_fetch", sig, "resolving %q made the request %s %s://%s%s; only GET https://%s/.well-known/matrix/server is prescribed", name, q.method, q.scheme, q.host, q.path, want.WellKnownFor)
	}
	r.Check(len(reqs) <= 1, "C16", "wk_fetch", "more_than_once", "resolving %q fetched well-known %d times", name, len(reqs))
	if want.Unspecified {
		return
	}
	if !want.Matches(gts, refused) {
		sig := want.Step
		if want.Verdict != nil && !want.Verdict.Honoured && len(gts) == 1 && refWouldDelegate(want, gts) {
			sig = "honoured_inadmissible_wellknown:" + strings.SplitN(want.Verdict.Why, " ", 2)[0]
		}
		var acc []string
		for _, a := range want.Accept {
			acc = append(acc, fmtTargets(a))
		}
		r.Violate("C16", "resolution", sig, "server name %q resolved to %s (error=%v); the specification gives %s (step %s; well-known: %s)", name, fmtTargets(gts), err, strings.Join(acc, " or "), want.Step, verdictStr(want.Verdict))
	}
	if len(want.Accept) > 0 && len(want.Accept[0]) > 1 {
		r.Probe("srv_multi_target_result")
	}
}

// refWouldDelegate: the observed single target does not mention the original
// hostname, i.e. a delegation was followed although the reply was inadmissible.
func refWouldDelegate(want ref.Resolution, got []ref.Target) bool {
	return want.WellKnownFor != "" && got[0].Host != want.WellKnownFor
}

func verdictStr(v *ref.WellKnownVerdict) string {
	if v == nil {
		return "not consulted"
	}
	if v.Honoured {
		return "honoured m.server=" + v.Server
	}
	return "refused (" + v.Why + ")"
}

func (w *resolveWorld) opWellKnown(name string) {
	r := w.r
	h := w.z.host(name)
	w.z.mu.Lock()
	cfg := h.wk
	w.z.mu.Unlock()
	truth := cfg.truth(wellKnownClientTimeout)
	v := ref.JudgeWellKnown(truth)
	w.rt.drain()
	start := time.Now()
	res, err := fclient.LookupWellKnown(context.Background(), spec.ServerName(name))
	end := time.Now()
	reqs := w.rt.drain()
	w.noteHits()
	got := "error"
	if err == nil && res != nil {
		got = fmt.Sprintf("m.server=%q expires=%d", res.NewAddress, res.CacheExpiresAt)
	}
	r.Logf("t=%v wellknown %q {%s} -> %s took=%v | ref %s", r.Now(), name, cfg, got, end.Sub(start), verdictStr(&v))
	r.State(fmt.Sprintf("wk status=%d doc=%d over=%v cl=%d rd=%d hon=%v", cfg.status, cfg.doc, len(truth.Body) > ref.WellKnownMaxBytes, cfg.cl, cfg.reader, v.Honoured))
	r.Check(len(reqs) <= 1, "C16", "wk_fetch", "more_than_once", "LookupWellKnown(%q) made %d requests", name, len(reqs))
	if err == nil && res != nil {
		// admission (soundness): honoured only if 200, <= 50 KiB, names m.server
		if !v.Honoured {
			r.Violate("C16", "wk_admission", strings.SplitN(v.Why, " ", 2)[0], "well-known reply of %q was honoured (m.server=%q) although: %s {%s}", name, res.NewAddress, v.Why, cfg)
		}
		r.Check(string(res.NewAddress) == v.Server, "C16", "wk_admission", "wrong_server", "well-known of %q names %q, LookupWellKnown returned %q", name, v.Server, res.NewAddress)
		// cache lifetime: max-age in preference to Expires
		lo, hi := v.ExpiryAt(start), v.ExpiryAt(end)
		sig := "no_header"
		switch {
		case v.HasMaxAge && cfg.expires != "":
			sig = "maxage_and_expires"
		case v.HasMaxAge:
			sig = "maxage"
		case cfg.expires != "":
			sig = "expires"
		}
		r.Probe("wk_cache_" + sig)
		r.Check(res.CacheExpiresAt >= lo && res.CacheExpiresAt <= hi, "C16", "wk_cache", sig, "well-known of %q (Cache-Control %q, Expires %q) fetched between unix %d and %d: CacheExpiresAt=%d, expected %d..%d", name, cfg.cc, cfg.expires, start.Unix(), end.Unix(), res.CacheExpiresAt, lo, hi)
		r.Probe("wk_honoured")
		return
	}
	r.Probe("wk_refused_" + strings.SplitN(v.Why+" ", " ", 2)[0])
	if v.Honoured && !cfg.lying() {
		r.Violate("C16", "wk_complete", "refused_admissible", "well-known reply of %q is admissible (200, %d bytes, m.server=%q) but LookupWellKnown failed: %v {%s}", name, len(truth.Body), v.Server, err, cfg)
	}
}
