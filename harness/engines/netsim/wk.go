package netsim

import (
	"errors"
	"fmt"
	"io"
	"net/http"
	"strconv"
	"strings"
	"sync"
	"time"

	"verifharness/ref"
)

// ---- well-known configuration of one host ---------------------------------------

const (
	wkAbsent = iota // nothing listens: the exchange fails without a response
	wkReply
)

const (
	docServer    = iota // {"m.server": "<mserver>"}
	docMissing          // {"other": 1}
	docEmpty            // {"m.server": ""}
	docMalformed        // {"m.server": "x"   (cut short)
	docNonString        // {"m.server": 8448}
	docNotObject        // ["m.server"]
	docNull             // {"m.server": null}
)

const (
	clCorrect = iota
	clAbsent  // no Content-Length (chunked / until close)
	clLiesLow // header names fewer bytes than are delivered (only a mock transport does that)
	clLiesHigh
)

const (
	rdWhole = iota
	rdOneByte
	rdReset // connection reset after resetAt bytes
	rdSlow  // pause of `delay` after resetAt bytes
)

const (
	padTrailing = iota
	padLeading
	padInside // a second member holding a long string
)

type wkCfg struct {
	mode    int
	status  int
	doc     int
	mserver string
	size    int // 0: natural size; otherwise the body is padded to exactly size bytes
	padAt   int
	cl      int
	cc      string
	expires string
	reader  int
	cutAt   int // permille of the body after which rdReset / rdSlow strike
	delay   time.Duration
}

var docNames = []string{"server", "missing", "empty", "malformed", "nonstring", "notobject", "null"}

func (c wkCfg) String() string {
	if c.mode == wkAbsent {
		return "absent"
	}
	s := fmt.Sprintf("status=%d doc=%s", c.status, docNames[c.doc])
	if c.doc == docServer {
		s += fmt.Sprintf(" m.server=%q", c.mserver)
	}
	s += fmt.Sprintf(" size=%d", len(c.body()))
	if c.size != 0 {
		s += []string{"(pad trailing)", "(pad leading)", "(pad inside)"}[c.padAt]
	}
	s += " cl=" + []string{"ok", "absent", "low", "high"}[c.cl]
	if c.cc != "" {
		s += fmt.Sprintf(" cc=%q", c.cc)
	}
	if c.expires != "" {
		s += fmt.Sprintf(" expires=%q", c.expires)
	}
	switch c.reader {
	case rdOneByte:
		s += " reader=1byte"
	case rdReset:
		s += fmt.Sprintf(" reader=reset@%d", c.cutOffset())
	case rdSlow:
		s += fmt.Sprintf(" reader=pause %v @%d", c.delay, c.cutOffset())
	}
	return s
}

func (c wkCfg) body() []byte {
	var core string
	switch c.doc {
	case docServer:
		core = `{"m.server": ` + strconv.Quote(c.mserver) + `}`
	case docMissing:
		core = `{"server": "nobody.example"}`
	case docEmpty:
		core = `{"m.server": ""}`
	case docMalformed:
		core = `{"m.server": "cut.example"`
	case docNonString:
		core = `{"m.server": 8448}`
	case docNotObject:
		core = `["m.server", "list.example"]`
	case docNull:
		core = `{"m.server": null}`
	}
	if c.size <= len(core) {
		return []byte(core)
	}
	n := c.size - len(core)
	switch c.padAt {
	case padLeading:
		return []byte(strings.Repeat(" ", n) + core)
	case padInside:
		if c.doc == docServer && n > 12 {
			// {"m.server": "x", "pad": "aaaa"}
			head := core[:len(core)-1] + `, "pad": "`
			fill := c.size - len(head) - 2
			if fill >= 0 {
				return []byte(head + strings.Repeat("a", fill) + `"}`)
			}
		}
	}
	return []byte(core + strings.Repeat("\n", n))
}

func (c wkCfg) cutOffset() int {
	return len(c.body()) * c.cutAt / 1000
}

// truth is what the exchange delivers, for the reference model. clientTimeout
// is the client's overall deadline for the request.
func (c wkCfg) truth(clientTimeout time.Duration) ref.WellKnownReply {
	if c.mode == wkAbsent {
		return ref.WellKnownReply{NoResponse: true}
	}
	r := ref.WellKnownReply{Status: c.status, Body: c.body(), CacheControl: c.cc, Expires: c.expires}
	switch {
	case c.reader == rdReset:
		r.BodyBroken = true
	case c.reader == rdSlow && c.delay >= clientTimeout:
		r.BodyBroken = true
	case c.cl == clLiesHigh:
		r.BodyBroken = true // fewer bytes than announced: unexpected EOF
	}
	return r
}

// lying reports configurations only a mock transport can produce (the header
// and the delivered bytes disagree); completeness is not demanded there.
func (c wkCfg) lying() bool { return c.cl == clLiesLow || c.cl == clLiesHigh }

// ---- the simulated transport behind http.DefaultTransport -----------------------

type wkRequest struct {
	method, scheme, host, path string
}

type wkTransport struct {
	z   *zone
	mu  sync.Mutex
	log []wkRequest
	// onRequest, if set, runs at the start of every exchange on the caller's
	// goroutine (workload 3 parks the calling task here).
	onRequest func(req *http.Request)
}

func (t *wkTransport) drain() []wkRequest {
	t.mu.Lock()
	defer t.mu.Unlock()
	l := t.log
	t.log = nil
	return l
}

type simBody struct {
	req    *http.Request
	data   []byte
	pos    int
	one    bool
	cutAt  int // -1: none
	reset  bool
	delay  time.Duration
	paused bool
	tail   error // error returned instead of io.EOF at the end
	z      *zone
	closed bool
}

func (b *simBody) Read(p []byte) (int, error) {
	if b.closed {
		return 0, errors.New("simnet: read on closed body")
	}
	if err := b.req.Context().Err(); err != nil {
		return 0, err
	}
	if len(p) == 0 {
		return 0, nil
	}
	if b.cutAt >= 0 && b.pos >= b.cutAt && !b.paused {
		b.paused = true
		if b.reset {
			b.z.mu.Lock()
			b.z.hit("f:conn_reset_mid_body")
			b.z.mu.Unlock()
			b.tail = errors.New("simnet: read: connection reset by peer")
			b.data = b.data[:b.pos]
		} else {
			b.z.mu.Lock()
			b.z.hit("f:slow_body")
			b.z.mu.Unlock()
			tm := time.NewTimer(b.delay)
			select {
			case <-tm.C:
			case <-b.req.Context().Done():
				tm.Stop()
				b.z.mu.Lock()
				b.z.hit("f:timeout")
				b.z.mu.Unlock()
				return 0, b.req.Context().Err()
			}
		}
	}
	if b.pos >= len(b.data) {
		if b.tail != nil {
			return 0, b.tail
		}
		return 0, io.EOF
	}
	n := len(b.data) - b.pos
	if n > len(p) {
		n = len(p)
	}
	if b.one {
		n = 1
	}
	if b.cutAt >= 0 && !b.paused && b.pos+n > b.cutAt {
		n = b.cutAt - b.pos
	}
	copy(p, b.data[b.pos:b.pos+n])
	b.pos += n
	return n, nil
}

func (b *simBody) Close() error { b.closed = true; return nil }

func (t *wkTransport) RoundTrip(req *http.Request) (*http.Response, error) {
	t.mu.Lock()
	t.log = append(t.log, wkRequest{method: req.Method, scheme: req.URL.Scheme, host: req.URL.Host, path: req.URL.Path})
	t.mu.Unlock()
	if t.onRequest != nil {
		t.onRequest(req)
	}
	if err := req.Context().Err(); err != nil {
		return nil, err
	}
	h := t.z.host(req.URL.Hostname())
	if h == nil || h.wk.mode == wkAbsent || req.URL.Path != "/.well-known/matrix/server" || (req.URL.Port() != "" && req.URL.Port() != "443") {
		t.z.mu.Lock()
		t.z.hit("f:conn_refused")
		t.z.mu.Unlock()
		return nil, errors.New("simnet: dial tcp: connection refused")
	}
	t.z.mu.Lock()
	c := h.wk
	t.z.mu.Unlock()
	body := c.body()
	resp := &http.Response{
		StatusCode: c.status, Status: fmt.Sprintf("%d %s", c.status, http.StatusText(c.status)),
		Proto: "HTTP/1.1", ProtoMajor: 1, ProtoMinor: 1,
		Header: http.Header{"Content-Type": {"application/json"}}, Request: req,
	}
	note := func(k string) {
		t.z.mu.Lock()
		t.z.hit(k)
		t.z.mu.Unlock()
	}
	if c.status != 200 {
		note("f:http_status")
	}
	if len(body) > ref.WellKnownMaxBytes {
		note("f:oversize_body")
	}
	if c.cc != "" {
		resp.Header.Set("Cache-Control", c.cc)
	}
	if c.expires != "" {
		resp.Header.Set("Expires", c.expires)
	}
	sb := &simBody{req: req, data: body, one: c.reader == rdOneByte, cutAt: -1, z: t.z}
	switch c.cl {
	case clCorrect:
		resp.ContentLength = int64(len(body))
	case clAbsent:
		resp.ContentLength = -1
		resp.TransferEncoding = []string{"chunked"}
		note("p:wk_no_content_length")
	case clLiesLow:
		resp.ContentLength = int64(min(len(body)/2, 1000))
		note("p:wk_content_length_lies_low")
	case clLiesHigh:
		resp.ContentLength = int64(len(body) + ref.WellKnownMaxBytes)
		sb.tail = io.ErrUnexpectedEOF
		note("f:short_body")
	}
	if resp.ContentLength >= 0 {
		resp.Header.Set("Content-Length", strconv.FormatInt(resp.ContentLength, 10))
	}
	if c.reader == rdOneByte {
		note("p:wk_one_byte_reads")
	}
	if c.reader == rdReset || c.reader == rdSlow {
		sb.cutAt = c.cutOffset()
		sb.reset = c.reader == rdReset
		sb.delay = c.delay
	}
	resp.Body = sb
	return resp, nil
}
