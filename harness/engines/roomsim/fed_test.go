// fedsim: the same room, but as a message-passing system. Every server holds
// its own replica of the DAG (a *room with fed=true), a durable event log and
// volatile state (parsed events, state snapshots, forward extremities, events
// waiting for ancestors). Users act on what their own server has seen; PDUs
// travel over a simulated network that drops, duplicates, reorders, corrupts,
// partitions and heals; servers crash and restart keeping only what their
// disk had made durable (with lost unsynced writes), and fetch the ancestors
// they miss from peers. One seeded event loop decides every step.
//
// Oracles: (C11) "replicas never diverge" - the verdict and the state after an
// event are a function of the event's ancestry, so every server that processes
// an event, in whatever arrival order, under whatever map-iteration salt,
// before or after a restart, must reach what the first server reached; once
// faults stop and the network heals, all servers reach the same extremities
// and the same current state within a bounded number of rounds. (C10) every
// resolution any server performs is compared with the reference resolver.
package roomsim

import (
	"encoding/json"
	"context"
	"fmt"
	"sort"
	"strings"
	"time"

	gmsl "github.com/matrix-org/gomatrixserverlib"
	"github.com/matrix-org/gomatrixserverlib/spec"
	"github.com/matrix-org/gomatrixserverlib/verifrt"

	"verifharness/ref"
	"verifharness/sim"
	"verifharness/world"
)

type diskRec struct {
	id       string
	raw      []byte
	redacted bool
	synced   bool
}

type pendEv struct {
	ev   gmsl.PDU
	from int
}

type fedServer struct {
	idx     int
	w       *world.Server
	rm      *room
	up      bool
	skew    time.Duration
	disk    []diskRec
	onDisk  map[string]bool
	pending map[string]*pendEv
	pendOrd []string
	extrem  []string
	boots   int
}

type fedMsg struct {
	from, to int
	kind     string // "pdu" | "fetch" | "events"
	raws     [][]byte
	ids      []string
	seq      int
}

type truthRec struct {
	rejected bool
	after    map[ref.Key]string
	by       string
}

type fed struct {
	r        *sim.Run
	t        *sim.Tape
	ver      gmsl.RoomVersion
	impl     gmsl.IRoomVersion
	servers  []*fedServer
	users    []user
	roomID   string
	inflight []*fedMsg
	cut      map[[2]int]bool
	truth    map[string]*truthRec
	verifier *world.Verifier
	seq      int
	quiet    bool // faults stopped (final drain)
	cfg      struct {
		drop, dup, corrupt, lostWrite int // permille
		partitions, crashes           bool
	}
	built int
	// the create event lists additional_creators
	extraCreators bool
}

func stateSig(st map[ref.Key]string) string {
	ks := make([]string, 0, len(st))
	for k, v := range st {
		ks = append(ks, k.Type+"\x00"+k.StateKey+"\x00"+v)
	}
	sort.Strings(ks)
	return strings.Join(ks, "\x01")
}

func (f *fed) newReplica(s *fedServer) *room {
	impl := f.impl
	rm := &room{r: f.r, t: f.t, ver: f.ver, impl: impl, algo: algoOf(impl), priv: impl.PrivilegedCreators(), nodes: map[string]*node{},
		now: time.Now().Add(s.skew), users: f.users, roomID: f.roomID, fed: true, extraCreators: f.extraCreators}
	for _, x := range f.servers {
		rm.servers = append(rm.servers, x.w)
	}
	// another process, another map order
	rm.salt = uint64(1 + f.t.Intn(1<<20))
	return rm
}

// ---- processing one event on one server ------------------------------------------------

// missing returns the referenced events the server has not processed.
func (s *fedServer) missing(ev gmsl.PDU) []string {
	var out []string
	seen := map[string]bool{}
	for _, l := range [][]string{ev.PrevEventIDs(), ev.AuthEventIDs()} {
		for _, id := range l {
			if s.rm.nodes[id] == nil && !seen[id] {
				seen[id] = true
				out = append(out, id)
			}
		}
	}
	return out
}

// process computes the server's verdict on an event all of whose ancestors it
// has processed, compares it with what other replicas reached, and updates the
// replica.
func (f *fed) process(s *fedServer, ev gmsl.PDU, how string) *node {
	rm, r := s.rm, f.r
	id := ev.EventID()
	if n := rm.nodes[id]; n != nil {
		return n
	}
	verifrt.SetSalt(rm.salt)
	n := &node{ev: ev, id: id, idx: len(rm.order)}
	var own []gmsl.PDU
	authRejected := false
	for _, a := range ev.AuthEventIDs() {
		an := rm.nodes[a]
		own = append(own, an.ev)
		if an.rejected {
			authRejected = true
		}
	}
	isCreate := ev.Type() == spec.MRoomCreate && ev.StateKeyEquals("")
	before := map[ref.Key]string{}
	if !isCreate {
		// the prev events in the order this server received them
		prevs := append([]string{}, ev.PrevEventIDs()...)
		sort.SliceStable(prevs, func(i, j int) bool { return rm.nodes[prevs[i]].idx < rm.nodes[prevs[j]].idx })
		before = rm.stateAt(prevs)
		if len(prevs) > 1 {
			r.Nontriv = true
		}
	}
	ownProv, _ := gmsl.NewAuthEvents(nil)
	for _, e := range own {
		_ = ownProv.AddEvent(e)
	}
	errOwn := rm.allowed(ev, ownProv, own)
	var errState error
	if !isCreate && errOwn == nil && !authRejected {
		errState = rm.allowed(ev, rm.provider(before), rm.pdus(before))
	}
	n.rejected = authRejected || errOwn != nil || errState != nil
	n.after = before
	if !n.rejected && ev.StateKey() != nil {
		n.after = copyState(before)
		n.after[ref.Key{Type: ev.Type(), StateKey: *ev.StateKey()}] = id
	}
	rm.nodes[id] = n
	rm.order = append(rm.order, id)
	who := fmt.Sprintf("%s#%d", s.w.Name, s.boots)
	r.Logf("  %s %s %s rejected=%v", who, how, rm.short(id), n.rejected)
	// ---- replicas never diverge
	if tr := f.truth[id]; tr == nil {
		f.truth[id] = &truthRec{rejected: n.rejected, after: n.after, by: who + " " + how}
	} else {
		if tr.rejected != n.rejected {
			r.Violate("C11", "replica_divergence", fmt.Sprintf("algo%d:verdict", rm.algo), "%s (%s) decides rejected=%v on %s but %s decided rejected=%v on the same event with the same ancestry (own auth events: %v / state before: %v)",
				who, how, n.rejected, rm.short(id), tr.by, tr.rejected, errOwn, errState)
		}
		if stateSig(tr.after) != stateSig(n.after) {
			var diffs []string
			keys := map[ref.Key]bool{}
			for k := range tr.after {
				keys[k] = true
			}
			for k := range n.after {
				keys[k] = true
			}
			for k := range keys {
				if tr.after[k] != n.after[k] {
					diffs = append(diffs, fmt.Sprintf("(%s,%s): here %s, there %s", k.Type, k.StateKey, rm.short(n.after[k]), rm.short(tr.after[k])))
				}
			}
			sort.Strings(diffs)
			r.Violate("C11", "replica_divergence", fmt.Sprintf("algo%d:state", rm.algo), "%s (%s) computes a different state after %s than %s did from the same ancestry: %s", who, how, rm.short(id), tr.by, strings.Join(diffs, "; "))
		}
		r.Probe("replica_agreement_checked")
	}
	// forward extremities
	if !n.rejected {
		keep := s.extrem[:0:0]
		isPrev := map[string]bool{}
		for _, p := range ev.PrevEventIDs() {
			isPrev[p] = true
		}
		for _, e := range s.extrem {
			if !isPrev[e] {
				keep = append(keep, e)
			}
		}
		// an event arriving late may already have accepted descendants here
		hasChild := false
		for _, oid := range rm.order {
			if on := rm.nodes[oid]; on != n && !on.rejected {
				for _, p := range on.ev.PrevEventIDs() {
					if p == id {
						hasChild = true
					}
				}
			}
		}
		if !hasChild {
			keep = append(keep, id)
		}
		s.extrem = keep
	}
	return n
}

// persist appends the event to the server's log (not yet durable).
func (f *fed) persist(s *fedServer, ev gmsl.PDU, synced bool) {
	if s.onDisk[ev.EventID()] {
		return
	}
	s.onDisk[ev.EventID()] = true
	s.disk = append(s.disk, diskRec{id: ev.EventID(), raw: append([]byte{}, ev.JSON()...), redacted: ev.Redacted(), synced: synced})
}

// admit handles an event that reached the server (from the network, from its
// own disk or from a local user): process it if its ancestors are here,
// otherwise park it and ask for them.
func (f *fed) admit(s *fedServer, ev gmsl.PDU, from int, how string) {
	id := ev.EventID()
	if s.rm.nodes[id] != nil || s.pending[id] != nil {
		f.r.Probe("fed_duplicate_receipt")
		return
	}
	if miss := s.missing(ev); len(miss) > 0 {
		s.pending[id] = &pendEv{ev: ev, from: from}
		s.pendOrd = append(s.pendOrd, id)
		f.r.Probe("fed_event_waits_for_ancestors")
		f.r.Logf("  %s parks %s: missing %d ancestors", s.w.Name, shortID(id), len(miss))
		if from >= 0 && from != s.idx {
			f.send(&fedMsg{from: s.idx, to: from, kind: "fetch", ids: miss})
		}
		return
	}
	f.process(s, ev, how)
	f.persist(s, ev, how == "local")
	f.unpark(s)
}

// unpark processes parked events whose ancestors have all arrived.
func (f *fed) unpark(s *fedServer) {
	for again := true; again; {
		again = false
		for _, id := range s.pendOrd {
			p := s.pending[id]
			if p == nil || len(s.missing(p.ev)) > 0 {
				continue
			}
			delete(s.pending, id)
			f.process(s, p.ev, "unparked")
			f.persist(s, p.ev, false)
			again = true
		}
	}
	keep := s.pendOrd[:0]
	for _, id := range s.pendOrd {
		if s.pending[id] != nil {
			keep = append(keep, id)
		}
	}
	s.pendOrd = keep
}

func shortID(id string) string {
	if len(id) > 9 {
		return id[:9]
	}
	return id
}

// ---- network ------------------------------------------------------------------------------

func (f *fed) send(m *fedMsg) {
	f.seq++
	m.seq = f.seq
	f.inflight = append(f.inflight, m)
}

func (f *fed) isCut(a, b int) bool {
	if a > b {
		a, b = b, a
	}
	return f.cut[[2]int{a, b}]
}

func (f *fed) broadcast(s *fedServer, ev gmsl.PDU) {
	for _, o := range f.servers {
		if o.idx != s.idx {
			f.send(&fedMsg{from: s.idx, to: o.idx, kind: "pdu", raws: [][]byte{append([]byte{}, ev.JSON()...)}})
		}
	}
}

// receivePDU is what a server does with PDU bytes from the network.
func (f *fed) receivePDU(s *fedServer, raw []byte, from int) {
	ev, err := f.impl.NewEventFromUntrustedJSON(raw)
	if err != nil {
		f.r.Probe("fed_pdu_unparsable_dropped")
		return
	}
	if ev.Redacted() {
		// the content hash no longer matches: the copy was damaged in transit;
		// a server keeps the redacted form, this one asks again later instead
		f.r.Probe("fed_pdu_hash_mismatch_dropped")
		return
	}
	if err := gmsl.VerifyEventSignatures(context.Background(), ev, f.verifier, uidFor); err != nil {
		f.r.Probe("fed_pdu_bad_signature_dropped")
		return
	}
	f.admit(s, ev, from, "received")
}

// deliver takes one in-flight message off the network.
func (f *fed) deliver(i int) {
	r, t := f.r, f.t
	m := f.inflight[i]
	f.inflight = append(f.inflight[:i], f.inflight[i+1:]...)
	dst := f.servers[m.to]
	if !f.quiet {
		if f.isCut(m.from, m.to) {
			r.Fault("partition_drop")
			return
		}
		if t.Chance(f.cfg.drop) {
			r.Fault("drop")
			return
		}
		if t.Chance(f.cfg.dup) {
			r.Fault("duplicate")
			cp := *m
			f.send(&cp)
		}
	}
	if !dst.up {
		r.Fault("lost_at_crashed_node")
		return
	}
	time.Sleep(time.Duration(1+t.Intn(400)) * time.Millisecond)
	r.Op()
	switch m.kind {
	case "pdu", "events":
		r.Logf("deliver #%d %s %s->%s (%d events)", m.seq, m.kind, f.servers[m.from].w.Name, dst.w.Name, len(m.raws))
		for _, raw := range m.raws {
			if !f.quiet && t.Chance(f.cfg.corrupt) && len(raw) > 0 {
				raw = append([]byte{}, raw...)
				raw[t.Intn(len(raw))] ^= byte(1 << t.Intn(8))
				r.Fault("corrupt_bytes")
			}
			f.receivePDU(dst, raw, m.from)
		}
	case "fetch":
		var raws [][]byte
		for _, id := range m.ids {
			if n := dst.rm.nodes[id]; n != nil {
				raws = append(raws, append([]byte{}, n.ev.JSON()...))
			}
		}
		r.Logf("deliver #%d fetch %s->%s: %d of %d known", m.seq, f.servers[m.from].w.Name, dst.w.Name, len(raws), len(m.ids))
		if len(raws) > 0 {
			f.send(&fedMsg{from: dst.idx, to: m.from, kind: "events", raws: raws})
		}
	}
}

// ---- crash / restart --------------------------------------------------------------------------

func (f *fed) crash(s *fedServer) {
	r, t := f.r, f.t
	s.up = false
	lost := 0
	var keep []diskRec
	for _, d := range s.disk {
		if !d.synced {
			// an unsynced write may or may not have reached the platter; with
			// lost-write faults any of them may be missing, not just a suffix
			if t.Chance(500) || (f.cfg.lostWrite > 0 && t.Chance(f.cfg.lostWrite)) {
				lost++
				continue
			}
			d.synced = true
		}
		keep = append(keep, d)
	}
	s.disk = keep
	s.rm, s.pending, s.pendOrd, s.extrem = nil, nil, nil, nil
	r.Fault("crash_restart")
	if lost > 0 {
		r.Fault("db_lost_on_restart")
	}
	r.Logf("crash %s: %d unsynced writes lost, %d events durable", s.w.Name, lost, len(s.disk))
}

func (f *fed) restart(s *fedServer) {
	r, t := f.r, f.t
	s.up = true
	s.boots++
	s.rm = f.newReplica(s)
	s.pending = map[string]*pendEv{}
	s.onDisk = map[string]bool{}
	var evs []gmsl.PDU
	for _, d := range s.disk {
		ev, err := f.impl.NewEventFromTrustedJSON(d.raw, d.redacted)
		if err != nil {
			r.Violate(r.Prop, "reload", "trusted_parse", "%s cannot reload its own durable event %s: %v", s.w.Name, shortID(d.id), err)
		}
		if ev.EventID() != d.id {
			r.Violate(r.Prop, "reload", "event_id_changed", "%s reloads %s as %s", s.w.Name, shortID(d.id), shortID(ev.EventID()))
		}
		s.onDisk[d.id] = true
		evs = append(evs, ev)
	}
	// A restarted server rebuilds its state by replaying the log, either in
	// log order or in the order the library's topological sort gives.
	if len(evs) > 1 && t.Bool() {
		verifrt.SetSalt(s.rm.salt)
		sorted := gmsl.ReverseTopologicalOrdering(sim.Shuffle(t, evs), gmsl.TopologicalOrderByPrevEvents)
		s.rm.checkOrder("ReverseTopologicalOrdering(prev events) at restart", evs, sorted, false)
		evs = sorted
		r.Probe("fed_restart_replays_in_library_order")
	}
	r.Logf("restart %s (boot %d, salt %d): replaying %d durable events", s.w.Name, s.boots, s.rm.salt, len(evs))
	for _, ev := range evs {
		f.admit(s, ev, -1, "replayed")
	}
	if len(s.pending) > 0 {
		r.Probe("fed_restart_with_holes_in_log")
	}
}

// refetch asks a peer for the ancestors the server's parked events still miss.
func (f *fed) refetch(s *fedServer, peers []int) {
	need := map[string]bool{}
	for _, id := range s.pendOrd {
		if p := s.pending[id]; p != nil {
			for _, m := range s.missing(p.ev) {
				if s.pending[m] == nil {
					need[m] = true
				}
			}
		}
	}
	if len(need) == 0 {
		return
	}
	var ids []string
	for id := range need {
		ids = append(ids, id)
	}
	sort.Strings(ids)
	for _, p := range peers {
		f.send(&fedMsg{from: s.idx, to: p, kind: "fetch", ids: ids})
	}
}

// ---- local users ------------------------------------------------------------------------------

func (f *fed) act(s *fedServer, i int) {
	r, t := f.r, f.t
	rm := s.rm
	var mine []user
	for _, u := range f.users {
		if u.srv == s.w {
			mine = append(mine, u)
		}
	}
	if len(mine) == 0 || len(s.extrem) == 0 {
		return
	}
	actor := sim.Pick(t, mine)
	prevs := append([]string{}, s.extrem...)
	if len(prevs) > 5 {
		prevs = prevs[len(prevs)-5:]
	}
	verifrt.SetSalt(rm.salt)
	before := rm.stateAt(prevs)
	typ, sk, content, authFrom := rm.propose(i, actor, before)
	depth := int64(0)
	for _, p := range prevs {
		if d := rm.nodes[p].ev.Depth(); d > depth {
			depth = d
		}
	}
	if authFrom == nil {
		authFrom = before
	}
	rm.now = time.Now().Add(s.skew)
	ts := rm.nextTS()
	p := world.Proto{RoomID: f.roomID, Sender: actor.id, Type: typ, StateKey: sk, Content: content, Prev: prevs, Depth: depth + 1, AuthFrom: rm.provider(authFrom)}
	ev, err := world.Build(f.impl, p, ts, s.w.Name, s.w.Current())
	if err != nil {
		r.Probe("build_refused")
		return
	}
	// what the invite / restricted-join handshakes add: the signature of the
	// invited user's server, resp. of the authorising user's server
	if typ == spec.MRoomMember {
		// read the content as the verifying side will (encoding/json into the
		// member struct: names matched case-insensitively, a repeated name by
		// its last occurrence) - contents may be given as text with such names
		var m struct {
			Membership string `json:"membership"`
			Via        string `json:"join_authorised_via_users_server"`
		}
		if json.Unmarshal(ev.Content(), &m) == nil {
			var also []string
			if m.Membership == "invite" && sk != nil {
				also = append(also, *sk)
			}
			if m.Via != "" && m.Membership == "join" {
				also = append(also, m.Via)
			}
			for _, uid := range also {
				for _, o := range f.servers {
					if strings.HasSuffix(uid, ":"+string(o.w.Name)) && o.w != s.w {
						ev = ev.Sign(string(o.w.Name), o.w.Current().ID, o.w.Current().Priv)
					}
				}
			}
		}
	}
	if rm.nodes[ev.EventID()] != nil {
		return
	}
	rm.tsPool = append(rm.tsPool, ts)
	f.built++
	r.Op()
	r.Logf("act %s on %s: %s by %s", s.w.Name, rm.shorts(prevs), typ, actor.id)
	f.admit(s, ev, s.idx, "local")
	if n := rm.nodes[ev.EventID()]; n != nil && n.rejected {
		r.Fault("byzantine_event")
	}
	// durable before it leaves the server; then to everybody
	f.broadcast(s, ev)
}

// ---- the run --------------------------------------------------------------------------------------

func fedBody(r *sim.Run) {
	t := r.T
	var pool []gmsl.RoomVersion
	for _, v := range world.Versions() {
		if v == gmsl.RoomVersionPseudoIDs {
			continue
		}
		w := 1
		switch v {
		case "1", "12", "org.matrix.hydra.11":
			w = 4
		case "2", "10", "11":
			w = 2
		}
		for i := 0; i < w; i++ {
			pool = append(pool, v)
		}
	}
	ver := sim.Pick(t, pool)
	f := &fed{r: r, t: t, ver: ver, impl: gmsl.MustGetRoomVersion(ver), cut: map[[2]int]bool{}, truth: map[string]*truthRec{}}
	r.Defer(func() { verifrt.SetSalt(0) })
	now := time.Now()
	led := world.NewLedger()
	ns := t.Range(2, 4)
	for i := 0; i < ns; i++ {
		w := world.NewCompactServer(t, fmt.Sprintf("s%d.example", i), now)
		led.Add(w)
		s := &fedServer{idx: i, w: w, up: true, pending: map[string]*pendEv{}, onDisk: map[string]bool{}}
		if t.Chance(300) {
			s.skew = time.Duration(t.Range(-3600, 3600)) * time.Second
			r.Fault("clock_skew")
		}
		f.servers = append(f.servers, s)
	}
	f.verifier = &world.Verifier{L: led}
	nu := t.Range(ns, ns+3)
	for i := 0; i < nu; i++ {
		s := f.servers[i%ns]
		f.users = append(f.users, user{id: fmt.Sprintf("@u%d:%s", i, s.w.Name), srv: s.w})
	}
	// swarm configuration
	f.cfg.drop = sim.Pick(t, []int{0, 30, 100, 250})
	f.cfg.dup = sim.Pick(t, []int{0, 50, 150})
	f.cfg.corrupt = sim.Pick(t, []int{0, 0, 20, 80})
	f.cfg.lostWrite = sim.Pick(t, []int{0, 200, 600})
	f.cfg.partitions = t.Chance(600)
	f.cfg.crashes = t.Chance(600)
	// bootstrap on server 0 with the DAG generator, then hand the prefix to everybody reliably
	s0 := f.servers[0]
	boot := &room{r: r, t: t, ver: ver, impl: f.impl, algo: algoOf(f.impl), priv: f.impl.PrivilegedCreators(), nodes: map[string]*node{}, now: now, users: f.users}
	for _, s := range f.servers {
		boot.servers = append(boot.servers, s.w)
	}
	if err := boot.bootstrap(); err != nil {
		r.Violate(r.Prop, "bootstrap", "error", "room bootstrap failed in version %s: %v", ver, err)
	}
	f.roomID = boot.roomID
	f.extraCreators = boot.extraCreators
	for _, s := range f.servers {
		s.rm = f.newReplica(s)
		for _, id := range boot.order {
			f.admit(s, boot.nodes[id].ev, -1, "bootstrap")
		}
		for i := range s.disk {
			s.disk[i].synced = true
		}
	}
	r.Logf("fedsim: room version %s (algo %d), %d servers, %d users; drop=%d dup=%d corrupt=%d lostWrite=%d partitions=%v crashes=%v", ver, s0.rm.algo, ns, nu,
		f.cfg.drop, f.cfg.dup, f.cfg.corrupt, f.cfg.lostWrite, f.cfg.partitions, f.cfg.crashes)
	nsteps := t.Range(15, 70)
	for i := 0; i < nsteps && !r.Failed(); i++ {
		t.Mark()
		var ups []*fedServer
		for _, s := range f.servers {
			if s.up {
				ups = append(ups, s)
			}
		}
		kind := t.Weighted([]int{5, 8, 1, 1, 1, 1})
		r.NoteSched("loop", fmt.Sprint(kind))
		switch kind {
		case 0: // a user acts
			if len(ups) > 0 && f.built < 30 {
				s := sim.Pick(t, ups)
				r.NoteSched("act", string(s.w.Name))
				f.act(s, i)
			}
		case 1: // the network delivers something (not necessarily the oldest message)
			if len(f.inflight) > 0 {
				k := 0
				if t.Chance(400) {
					k = t.Intn(len(f.inflight))
					if k > 0 {
						r.Fault("reorder")
					}
				}
				m := f.inflight[k]
				r.NoteSched("deliver", fmt.Sprintf("%s %d>%d", m.kind, m.from, m.to))
				f.deliver(k)
			}
		case 2: // partition or heal
			if f.cfg.partitions && ns > 1 {
				a, b := t.Intn(ns), t.Intn(ns)
				if a != b {
					if a > b {
						a, b = b, a
					}
					k := [2]int{a, b}
					if f.cut[k] {
						delete(f.cut, k)
						r.Fault("heal")
					} else {
						f.cut[k] = true
						r.Fault("partition")
					}
					r.Logf("link %s-%s cut=%v", f.servers[a].w.Name, f.servers[b].w.Name, f.cut[k])
				}
			}
		case 3: // crash or restart
			if f.cfg.crashes {
				s := sim.Pick(t, f.servers)
				if s.up && len(ups) > 1 {
					f.crash(s)
				} else if !s.up {
					f.restart(s)
				}
			}
		case 4: // fsync
			if len(ups) > 0 {
				s := sim.Pick(t, ups)
				for i := range s.disk {
					s.disk[i].synced = true
				}
			}
		case 5: // retry missing ancestors with some peer
			if len(ups) > 0 {
				s := sim.Pick(t, ups)
				p := t.Intn(ns)
				if p != s.idx {
					f.refetch(s, []int{p})
				}
			}
		}
		var st []string
		for _, s := range f.servers {
			if s.up {
				st = append(st, fmt.Sprintf("%d/%d/%d", len(s.rm.order), len(s.pending), len(s.extrem)))
			} else {
				st = append(st, "down")
			}
		}
		r.State(fmt.Sprintf("v%d %s net=%d", s0.idx, strings.Join(st, " "), min(len(f.inflight), 8)))
	}
	if r.Failed() {
		return
	}
	// ---- faults stop: heal, restart, drain; bounded convergence
	f.quiet = true
	f.cut = map[[2]int]bool{}
	for _, s := range f.servers {
		if !s.up {
			f.restart(s)
		}
	}
	r.Logf("faults stopped: draining")
	rounds := 0
	for ; rounds < 60; rounds++ {
		sigBefore := f.globalSig()
		for _, s := range f.servers {
			var peers []int
			for _, o := range f.servers {
				if o.idx != s.idx {
					peers = append(peers, o.idx)
				}
			}
			f.refetch(s, peers)
			for _, e := range s.extrem {
				f.broadcast(s, s.rm.nodes[e].ev)
			}
		}
		for guard := 0; len(f.inflight) > 0 && guard < 20000; guard++ {
			f.deliver(0)
		}
		if f.globalSig() == sigBefore && len(f.inflight) == 0 {
			break
		}
	}
	r.Probe(fmt.Sprintf("fed_drain_rounds_%02d", min(rounds, 10)))
	var ref0 *fedServer
	for _, s := range f.servers {
		if len(s.pending) > 0 {
			var ids []string
			for _, id := range s.pendOrd {
				ids = append(ids, shortID(id)+"<-"+strings.Join(s.missing(s.pending[id].ev), ","))
			}
			r.Violate("C11", "convergence", "events_still_waiting", "after faults stopped and %d drain rounds %s still has %d events waiting for ancestors that some server holds: %s", rounds, s.w.Name, len(s.pending), strings.Join(ids, " "))
		}
		if ref0 == nil {
			ref0 = s
			continue
		}
		a, b := append([]string{}, ref0.extrem...), append([]string{}, s.extrem...)
		sort.Strings(a)
		sort.Strings(b)
		if strings.Join(a, ",") != strings.Join(b, ",") {
			r.Violate("C11", "convergence", "extremities_differ", "after faults stopped and %d drain rounds %s and %s have different forward extremities: %s vs %s", rounds, ref0.w.Name, s.w.Name, ref0.rm.shorts(a), s.rm.shorts(b))
		}
	}
	// the current room state, resolved by every server over the common extremities
	var cur string
	for _, s := range f.servers {
		if len(s.extrem) == 0 {
			continue
		}
		prevs := append([]string{}, s.extrem...)
		sort.SliceStable(prevs, func(i, j int) bool { return s.rm.nodes[prevs[i]].idx < s.rm.nodes[prevs[j]].idx })
		verifrt.SetSalt(s.rm.salt)
		sg := stateSig(s.rm.stateAt(prevs))
		if cur == "" {
			cur = sg
		} else if sg != cur {
			r.Violate("C11", "replica_divergence", fmt.Sprintf("algo%d:current_state", s.rm.algo), "after convergence %s resolves a different current room state than %s over the same forward extremities", s.w.Name, f.servers[0].w.Name)
		}
	}
	r.Probe("fed_converged")
	r.Probe(fmt.Sprintf("algo_v%d_runs", s0.rm.algo))
}

func (f *fed) globalSig() string {
	var p []string
	for _, s := range f.servers {
		p = append(p, fmt.Sprintf("%d/%d", len(s.rm.order), len(s.pending)))
	}
	return strings.Join(p, " ")
}
