// roomsim: a federated room as a replicated DAG. Several servers' users act on
// the state they see at tape-chosen fork tips (which is what partitions and
// delays produce), honest or Byzantine; every merge is a state-resolution
// point at which the library is compared with the reference resolver (C10),
// re-invoked under permutations / duplications / map-order salts / deprecated
// entry points (C11), and every auth check feeds the C08 / C09 monitors.
package roomsim

import (
	"math"
	"crypto/ed25519"
	"encoding/json"
	"fmt"
	"sort"
	"time"

	gmsl "github.com/matrix-org/gomatrixserverlib"
	"github.com/matrix-org/gomatrixserverlib/spec"

	"verifharness/ref"
	"verifharness/sim"
	"verifharness/world"
)

type user struct {
	id  string
	srv *world.Server
}

type node struct {
	ev       gmsl.PDU
	id       string
	after    map[ref.Key]string
	rejected bool
	idx      int
}

type room struct {
	r       *sim.Run
	t       *sim.Tape
	ver     gmsl.RoomVersion
	impl    gmsl.IRoomVersion
	algo    ref.Algo
	priv    bool // privileged creators
	servers []*world.Server
	users   []user
	roomID  string
	nodes   map[string]*node
	order   []string
	now     time.Time
	tsPool  []time.Time
	forks   int
	alt     gmsl.PDU // a second create event for the same room ID (C09 histories)
	// fed mode (fed_test.go): this room is one server's replica of the DAG;
	// lists are presented in arrival order and under the server's own
	// map-iteration salt.
	fed  bool
	salt uint64
	// the create event lists additional_creators
	extraCreators bool
}

// pseudoDir is the sender-key directory of the run's room when that room is of
// the pseudo-ID version: sender key (base64) -> user ID. One run at a time per
// process.
var pseudoDir map[string]string

func uidFor(roomID spec.RoomID, sender spec.SenderID) (*spec.UserID, error) {
	if u, ok := pseudoDir[string(sender)]; ok {
		return spec.NewUserID(u, true)
	}
	return spec.NewUserID(string(sender), true)
}

func algoOf(impl gmsl.IRoomVersion) ref.Algo {
	switch impl.StateResAlgorithm() {
	case gmsl.StateResV1:
		return ref.V1
	case gmsl.StateResV2:
		return ref.V2
	default:
		return ref.V2_1
	}
}

func newRoom(r *sim.Run, ver gmsl.RoomVersion) *room {
	t := r.T
	impl := gmsl.MustGetRoomVersion(ver)
	rm := &room{r: r, t: t, ver: ver, impl: impl, algo: algoOf(impl), priv: impl.PrivilegedCreators(), nodes: map[string]*node{}, now: time.Now()}
	ns := t.Range(2, 3)
	for i := 0; i < ns; i++ {
		rm.servers = append(rm.servers, world.NewCompactServer(t, fmt.Sprintf("s%d.example", i), rm.now))
	}
	nu := t.Range(2, 5)
	pseudoDir = nil
	if ver == gmsl.RoomVersionPseudoIDs {
		pseudoDir = map[string]string{}
		r.Defer(func() { pseudoDir = nil })
		r.Probe("pseudo_id_room")
	}
	for i := 0; i < nu; i++ {
		s := rm.servers[i%ns]
		id := fmt.Sprintf("@u%d:%s", i, s.Name)
		if pseudoDir != nil {
			// users are known to the room by a per-room key; the directory maps it back
			key := string(spec.SenderIDFromPseudoIDKey(ed25519.NewKeyFromSeed(t.Bytes(32))))
			pseudoDir[key] = id
			id = key
		}
		rm.users = append(rm.users, user{id: id, srv: s})
	}
	return rm
}

func (rm *room) state(n *node) map[ref.Key]string { return n.after }

func (rm *room) pdus(st map[ref.Key]string) []gmsl.PDU {
	ks := make([]ref.Key, 0, len(st))
	for k := range st {
		ks = append(ks, k)
	}
	sort.Slice(ks, func(i, j int) bool {
		if rm.fed {
			return rm.nodes[st[ks[i]]].idx < rm.nodes[st[ks[j]]].idx
		}
		if ks[i].Type != ks[j].Type {
			return ks[i].Type < ks[j].Type
		}
		return ks[i].StateKey < ks[j].StateKey
	})
	out := make([]gmsl.PDU, 0, len(ks))
	for _, k := range ks {
		out = append(out, rm.nodes[st[k]].ev)
	}
	return out
}

func (rm *room) provider(st map[ref.Key]string) *gmsl.AuthEvents {
	p, _ := gmsl.NewAuthEvents(nil)
	for _, e := range rm.pdus(st) {
		_ = p.AddEvent(e)
	}
	return p
}

// authChainOf returns every event reachable through auth_events from evs.
func (rm *room) authChainOf(evs []gmsl.PDU) []gmsl.PDU {
	seen := map[string]bool{}
	var out []gmsl.PDU
	var walk func(e gmsl.PDU)
	walk = func(e gmsl.PDU) {
		for _, a := range e.AuthEventIDs() {
			if seen[a] {
				continue
			}
			n := rm.nodes[a]
			if n == nil {
				continue
			}
			seen[a] = true
			out = append(out, n.ev)
			walk(n.ev)
		}
	}
	for _, e := range evs {
		walk(e)
	}
	sort.Slice(out, func(i, j int) bool { return rm.nodes[out[i].EventID()].idx < rm.nodes[out[j].EventID()].idx })
	return out
}

func (rm *room) isRejected(id string) bool {
	n := rm.nodes[id]
	return n != nil && n.rejected
}

func copyState(m map[ref.Key]string) map[ref.Key]string {
	o := make(map[ref.Key]string, len(m)+1)
	for k, v := range m {
		o[k] = v
	}
	return o
}

func sameState(a, b map[ref.Key]string) bool {
	if len(a) != len(b) {
		return false
	}
	for k, v := range a {
		if b[k] != v {
			return false
		}
	}
	return true
}

// nextTS draws the next origin_server_ts: usually advancing, sometimes equal
// to an earlier event's, sometimes skewed backwards / forwards.
func (rm *room) nextTS() time.Time {
	t := rm.t
	switch t.Weighted([]int{6, 2, 1, 1}) {
	case 0:
		rm.now = rm.now.Add(time.Duration(t.Range(1, 5000)) * time.Millisecond)
	case 1:
		if len(rm.tsPool) > 0 {
			rm.r.Probe("equal_timestamps")
			return sim.Pick(t, rm.tsPool)
		}
	case 2:
		rm.r.Fault("clock_skew")
		return rm.now.Add(-time.Duration(t.Range(1, 3600)) * time.Second)
	case 3:
		rm.r.Fault("clock_skew")
		return rm.now.Add(time.Duration(t.Range(1, 3600)) * time.Second)
	}
	return rm.now
}

// add builds an event on top of prevs as seen from state `before`.
func (rm *room) add(actor user, prevs []string, before map[ref.Key]string, typ string, stateKey *string, content any, authFrom map[ref.Key]string) (*node, error) {
	depth := int64(0)
	for _, p := range prevs {
		if d := rm.nodes[p].ev.Depth(); d > depth {
			depth = d
		}
	}
	honestAuth := authFrom == nil
	if authFrom == nil {
		authFrom = before
	}
	ts := rm.nextTS()
	p := world.Proto{RoomID: rm.roomID, Sender: actor.id, Type: typ, StateKey: stateKey, Content: content, Prev: prevs, Depth: depth + 1, AuthFrom: rm.provider(authFrom)}
	if typ == spec.MRoomCreate {
		p.AuthFrom = nil
		if rm.impl.DomainlessRoomIDs() {
			p.RoomID = ""
		}
	}
	if typ != spec.MRoomCreate && rm.impl.StateResAlgorithm() == gmsl.StateResV1 && rm.t.Chance(60) {
		// depth is whatever the sending server says it is: far apart values in
		// rooms whose resolution (version 1) orders events by depth
		p.Depth = sim.Pick(rm.t, []int64{-2, -1 << 62, math.MaxInt64, math.MaxInt64 - 1, 1 << 62, 0, -math.MaxInt64})
		rm.r.Probe("event_with_depth_at_the_edge_of_int64")
	}
	ev, err := world.Build(rm.impl, p, ts, actor.srv.Name, actor.srv.Current())
	if err != nil {
		return nil, err
	}
	if _, dup := rm.nodes[ev.EventID()]; dup {
		return nil, fmt.Errorf("duplicate event id")
	}
	rm.tsPool = append(rm.tsPool, ts)
	n := &node{ev: ev, id: ev.EventID(), idx: len(rm.order)}
	// auth: by its own auth events, and by the state before it
	var own []gmsl.PDU
	for _, a := range ev.AuthEventIDs() {
		if an := rm.nodes[a]; an != nil {
			own = append(own, an.ev)
		}
	}
	ownProv, _ := gmsl.NewAuthEvents(own)
	errOwn := rm.allowed(ev, ownProv, own)
	var errState error
	if typ != spec.MRoomCreate && (errOwn == nil || honestAuth) {
		bl := rm.pdus(before)
		errState = rm.allowed(ev, rm.provider(before), bl)
		// The auth events AddAuthEvents selected from the sender's state are
		// all another server gets: it must reach the sender's verdict.
		if honestAuth && (errOwn == nil) != (errState == nil) {
			rm.r.Violate("C09", "sufficiency", "auth_events_vs_full_state", "the sender (full state before the event) says allowed=%v but a server holding only the auth events AddAuthEvents selected says allowed=%v: %v / %v for %s", errState == nil, errOwn == nil, errState, errOwn, rm.describeCheck(ev, own))
		}
		if errOwn != nil {
			errState = nil
		}
	}
	n.rejected = errOwn != nil || errState != nil
	n.after = before
	if !n.rejected && stateKey != nil {
		n.after = copyState(before)
		n.after[ref.Key{Type: typ, StateKey: *stateKey}] = n.id
	}
	rm.nodes[n.id] = n
	rm.order = append(rm.order, n.id)
	return n, nil
}

// bootstrap creates the room: create, creator join, optional power levels and
// join rules, one event after another.
func (rm *room) bootstrap() error {
	t := rm.t
	creator := rm.users[0]
	content := map[string]any{"room_version": string(rm.ver)}
	if !rm.priv {
		content["creator"] = creator.id
		if len(rm.users) > 2 && t.Chance(120) {
			// meaningless before privileged creators, and unchecked there
			content["additional_creators"] = []string{rm.users[1].id}
			rm.extraCreators = true
		}
	} else if len(rm.users) > 2 && t.Chance(300) {
		content["additional_creators"] = []string{rm.users[1].id}
		rm.extraCreators = true
	}
	rm.roomID = fmt.Sprintf("!room:%s", creator.srv.Name)
	n, err := rm.add(creator, nil, map[ref.Key]string{}, spec.MRoomCreate, world.Str(""), content, nil)
	if err != nil {
		return err
	}
	if rm.impl.DomainlessRoomIDs() {
		rm.roomID = "!" + n.id[1:]
	}
	last := n
	step := func(actor user, typ, sk string, c any) error {
		nn, err := rm.add(actor, []string{last.id}, last.after, typ, world.Str(sk), c, nil)
		if err != nil {
			return err
		}
		if nn.rejected {
			return fmt.Errorf("bootstrap event %s rejected", typ)
		}
		last = nn
		return nil
	}
	if err := step(creator, spec.MRoomMember, creator.id, map[string]any{"membership": "join"}); err != nil {
		return err
	}
	plChance := 800
	if rm.extraCreators {
		plChance = 500 // more rooms whose first power-levels event is still to come
	}
	if t.Chance(plChance) {
		if err := step(creator, spec.MRoomPowerLevels, "", rm.defaultPL(creator)); err != nil {
			return err
		}
	}
	if t.Chance(850) {
		jr := sim.Pick(t, []string{"public", "public", "invite", "knock"})
		if jr == "knock" && rm.impl.CheckKnockingAllowed(string(rm.ver), "", "", "knock", "") != nil {
			jr = "public"
		}
		if err := step(creator, spec.MRoomJoinRules, "", map[string]any{"join_rule": jr}); err != nil {
			return err
		}
	}
	return nil
}

func (rm *room) defaultPL(creator user) map[string]any {
	users := map[string]any{}
	if !rm.priv {
		users[creator.id] = 100
	}
	// give a second user some power so that power events race
	if len(rm.users) > 1 && rm.t.Chance(600) && !(rm.priv && rm.isCreator(rm.users[1].id)) {
		users[rm.users[1].id] = sim.Pick(rm.t, []int{50, 100, 75})
	}
	pl := map[string]any{"users": users, "users_default": 0, "events_default": 0, "state_default": sim.Pick(rm.t, []int{50, 0, 50}),
		"ban": 50, "kick": 50, "redact": 50, "invite": sim.Pick(rm.t, []int{0, 50}), "events": map[string]any{}}
	if rm.t.Chance(200) {
		// everybody is a moderator by default and some users are listed at
		// exactly that level
		pl["users_default"] = 50
		for _, u := range rm.users[1:] {
			if rm.t.Bool() && !(rm.priv && rm.isCreator(u.id)) {
				users[u.id] = 50
			}
		}
		rm.r.Probe("room_with_users_default_50")
	}
	if rm.t.Chance(250) {
		// a room whose defaults are above the moderators' level, with explicit
		// lower entries per event type: removing an entry raises its threshold
		pl["events_default"] = sim.Pick(rm.t, []int{100, 75})
		pl["events"] = map[string]any{"m.room.message": 0, "m.reaction": sim.Pick(rm.t, []int{0, 50}), "m.room.topic": sim.Pick(rm.t, []int{0, 50})}
		rm.r.Probe("room_with_defaults_above_moderators")
	}
	if rm.t.Chance(200) {
		// a room in which low-level users may send power-levels events, with
		// thresholds below the defaults they fall back to when removed: here
		// every field comparison decides, not the right to send the event
		ev, _ := pl["events"].(map[string]any)
		ev["m.room.power_levels"] = sim.Pick(rm.t, []int{0, 10})
		ev["org.example.thing"] = sim.Pick(rm.t, []int{0, 10, 20})
		pl["notifications"] = map[string]any{"custom": sim.Pick(rm.t, []int{0, 10}), "org.example.here": sim.Pick(rm.t, []int{0, 20, 60}), "room": sim.Pick(rm.t, []int{50, 10})}
		for _, u := range rm.users[1:] {
			if !(rm.priv && rm.isCreator(u.id)) && rm.t.Chance(700) {
				users[u.id] = sim.Pick(rm.t, []int{10, 20, 30})
			}
		}
		rm.r.Probe("room_where_low_levels_send_power_levels")
	}
	if !intOnlyVersions[rm.ver] && rm.acceptsLevelsAsStrings() && len(rm.users) > 2 && rm.t.Chance(60) {
		// levels at the edges of int64 (spelled as strings, legal before room
		// version 10), with thresholds below all of them so that every one of
		// these users sends state events: differences of two levels do not fit
		// in an int64
		// (the creator stays at 100: the first power levels are judged against
		// the defaults, under which nobody may go above that)
		users[rm.users[1].id] = sim.Pick(rm.t, []any{"-9223372036854775808", "-9223372036854775807", "-9223372036854775808"})
		users[rm.users[2].id] = sim.Pick(rm.t, []any{50, 0, 7, 100})
		for _, k := range []string{"state_default", "events_default", "invite"} {
			pl[k] = "-9223372036854775808"
		}
		rm.r.Probe("room_with_levels_at_the_edges_of_int64")
	}
	return pl
}

func (rm *room) isCreator(id string) bool {
	if len(rm.order) == 0 {
		return false
	}
	c := rm.nodes[rm.order[0]].ev
	if string(c.SenderID()) == id {
		return true
	}
	var cc struct {
		Additional []string `json:"additional_creators"`
	}
	_ = json.Unmarshal(c.Content(), &cc)
	for _, a := range cc.Additional {
		if a == id {
			return true
		}
	}
	return false
}

func membershipOf(rm *room, st map[ref.Key]string, uid string) string {
	id, ok := st[ref.Key{Type: spec.MRoomMember, StateKey: uid}]
	if !ok {
		return ""
	}
	m, _ := rm.nodes[id].ev.Membership()
	return m
}

func (rm *room) currentPL(st map[ref.Key]string) map[string]any {
	id, ok := st[ref.Key{Type: spec.MRoomPowerLevels, StateKey: ""}]
	if !ok {
		return nil
	}
	var m map[string]any
	d := json.NewDecoder(bytesReader(rm.nodes[id].ev.Content()))
	d.UseNumber()
	if d.Decode(&m) != nil {
		return nil
	}
	return m
}

// acceptsLevelsAsStrings: does this room version read a level spelled as a
// string? (Asked of the version's own parser; only the generator uses it, to
// stay within what the version admits.)
func (rm *room) acceptsLevelsAsStrings() bool {
	var c gmsl.PowerLevelContent
	return rm.impl.ParsePowerLevels([]byte(`{"users_default":"1"}`), &c) == nil
}
