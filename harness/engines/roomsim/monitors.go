package roomsim

import (
	"encoding/json"
	"fmt"
	"math/big"
	"sort"
	"strconv"
	"strings"

	gmsl "github.com/matrix-org/gomatrixserverlib"
	"github.com/matrix-org/gomatrixserverlib/spec"
	"github.com/matrix-org/gomatrixserverlib/verifrt"

	"verifharness/ref"
	"verifharness/sim"
	"verifharness/world"
)

// ---- C08: non-escalation monitor --------------------------------------------------

var intOnlyVersions = map[gmsl.RoomVersion]bool{"10": true, "11": true, "12": true, "org.matrix.msc3667": true, "org.matrix.hydra.11": true}
var noNotifications = map[gmsl.RoomVersion]bool{"1": true, "2": true, "3": true, "4": true, "5": true}

const infLevel = int64(1) << 60

// event types that are never state events: an absent events[...] entry for
// them means events_default and nothing else
var nonStateTypes = map[string]bool{"m.room.message": true, "m.reaction": true, "m.room.encrypted": true}

var namedDefaults = map[string]int64{"ban": 50, "kick": 50, "invite": 0, "redact": 50, "events_default": 0, "state_default": 50, "users_default": 0}
var namedOrder = []string{"ban", "events_default", "invite", "kick", "redact", "state_default", "users_default"}

func decodeObj(b []byte) map[string]any {
	var m map[string]any
	d := json.NewDecoder(bytesReader(b))
	d.UseNumber()
	if d.Decode(&m) != nil {
		return nil
	}
	return m
}

// lenientLevels is set while an event of a room version before 10 is judged:
// there a level may also be a string holding an integer (surrounding white
// space allowed) or a number with a fraction or an exponent, which stands for
// its integer part. Values beyond 2^53 in such spellings are not judged.
var lenientLevels bool

// intLevel reads a level: JSON integer literals, and under lenientLevels the
// other spellings room versions before 10 allow.
func intLevel(v any) (int64, bool) {
	switch x := v.(type) {
	case json.Number:
		if !strings.ContainsAny(x.String(), ".eE") {
			n, err := x.Int64()
			return n, err == nil
		}
		if !lenientLevels {
			return 0, false
		}
		rat, ok := new(big.Rat).SetString(x.String())
		if !ok {
			return 0, false
		}
		q := new(big.Int).Quo(rat.Num(), rat.Denom()) // towards zero
		if !q.IsInt64() || q.Int64() > 1<<53 || q.Int64() < -(1<<53) {
			return 0, false
		}
		return q.Int64(), true
	case string:
		if !lenientLevels {
			return 0, false
		}
		n, err := strconv.ParseInt(strings.TrimSpace(x), 10, 64)
		return n, err == nil
	}
	return 0, false
}

func allInts(m map[string]any) bool {
	for _, k := range namedOrder {
		if v, ok := m[k]; ok {
			if _, ok := intLevel(v); !ok {
				return false
			}
		}
	}
	for _, mk := range []string{"users", "events", "notifications"} {
		if v, ok := m[mk]; ok {
			mm, ok := v.(map[string]any)
			if !ok {
				return false
			}
			for _, x := range mm {
				if _, ok := intLevel(x); !ok {
					return false
				}
			}
		}
	}
	return true
}

func subMap(m map[string]any, k string) map[string]any {
	if m == nil {
		return nil
	}
	mm, _ := m[k].(map[string]any)
	return mm
}

// checkNE evaluates the non-escalation predicate on an ACCEPTED power-levels
// event directly from the old and new contents, under the effective reading
// (an absent key has its default), which is the reading the library documents
// for itself; see DESIGN.md 9.2 for the one remaining conservatism (absent
// events[...] entries of possibly-state types).
func (rm *room) checkNE(ev gmsl.PDU, auth []gmsl.PDU) {
	r := rm.r
	r.Probe("accepted_power_level_events")
	var oldEv, create gmsl.PDU
	for _, a := range auth {
		if a.StateKey() == nil || *a.StateKey() != "" {
			continue
		}
		switch a.Type() {
		case spec.MRoomPowerLevels:
			oldEv = a
		case spec.MRoomCreate:
			create = a
		}
	}
	sender := string(ev.SenderID())
	nw := decodeObj(ev.Content())
	if nw == nil {
		r.Violate("C08", "ne", "unparsable_accepted", "accepted power-levels event has unparsable content")
	}
	ver := ev.Version()
	if intOnlyVersions[ver] && !allInts(nw) {
		r.Violate("C08", "ne", "non_integer_level", "version %s accepted a power-levels event with a non-integer level: %s", ver, ev.Content())
	}
	lenientLevels = !intOnlyVersions[ver]
	defer func() { lenientLevels = false }()
	if lenientLevels && !func() bool { lenientLevels = false; defer func() { lenientLevels = true }(); return allInts(nw) }() {
		r.Probe("ne_judged_with_lenient_level_spellings")
	}
	creators := map[string]bool{}
	if create != nil {
		creators[string(create.SenderID())] = true
		if rm.priv {
			if cc := decodeObj(create.Content()); cc != nil {
				if l, ok := cc["additional_creators"].([]any); ok {
					for _, x := range l {
						if s, ok := x.(string); ok {
							creators[s] = true
						}
					}
				}
			}
		}
	}
	if rm.priv {
		for u := range subMap(nw, "users") {
			if creators[u] {
				r.Violate("C08", "ne", "creator_named", "version %s accepted a power-levels event naming creator %s in users", ver, u)
			}
		}
	}
	var old map[string]any
	if oldEv != nil {
		old = decodeObj(oldEv.Content())
	}
	if !allInts(nw) || (old != nil && !allInts(old)) {
		r.Probe("ne_skipped_non_integer_levels")
		return
	}
	// sender's current level
	L := int64(0)
	switch {
	case rm.priv && creators[sender]:
		L = infLevel
	case oldEv == nil:
		if creators[sender] {
			L = infLevel
		}
	default:
		if v, ok := subMap(old, "users")[sender]; ok {
			L, _ = intLevel(v)
		} else if v, ok := old["users_default"]; ok {
			L, _ = intLevel(v)
		}
	}
	if oldEv == nil {
		// no previous power levels: every threshold and user level has its
		// default, the creator(s) the implicit creator level and everybody
		// else 0 - the sender's current level is judged against those
		old = map[string]any{}
		r.Probe("first_power_levels_event_accepted")
	}
	get := func(m map[string]any, k string) (int64, bool) {
		if m == nil {
			return 0, false
		}
		v, ok := m[k]
		if !ok {
			return 0, false
		}
		n, _ := intLevel(v)
		return n, true
	}
	eff := func(v int64, ok bool, d int64) int64 {
		if ok {
			return v
		}
		return d
	}
	oldContent := "(no power-levels event yet)"
	if oldEv != nil {
		oldContent = string(oldEv.Content())
	}
	fail := func(tag, what string, o int64, op bool, n int64, np bool) {
		pv := func(v int64, p bool) string {
			if !p {
				return "absent"
			}
			return fmt.Sprint(v)
		}
		r.Violate("C08", "ne", tag, "accepted power-levels event by %s (level %d) changes %s from %s to %s\n old=%s\n new=%s", sender, L, what, pv(o, op), pv(n, np), oldContent, ev.Content())
	}
	for _, k := range namedOrder {
		o, op := get(old, k)
		n, np := get(nw, k)
		raw := (op != np || o != n) && ((op && o > L) || (np && n > L))
		oe, ne := eff(o, op, namedDefaults[k]), eff(n, np, namedDefaults[k])
		effv := oe != ne && (oe > L || ne > L)
		_ = raw
		if effv {
			fail("threshold:"+k, k, o, op, n, np)
		}
	}
	// users
	ou, nu := subMap(old, "users"), subMap(nw, "users")
	names := map[string]bool{}
	for u := range ou {
		names[u] = true
	}
	for u := range nu {
		names[u] = true
	}
	var ul []string
	for u := range names {
		ul = append(ul, u)
	}
	sort.Strings(ul)
	oudv, _ := get(old, "users_default")
	nudv, _ := get(nw, "users_default")
	for _, u := range ul {
		o, op := get(ou, u)
		n, np := get(nu, u)
		other := u != sender
		raw := (op != np || o != n) && ((np && n > L) || (op && other && o >= L))
		oe, ne := eff(o, op, oudv), eff(n, np, nudv)
		if oldEv == nil && creators[u] {
			oe = infLevel // the implicit level of a creator while there is no power-levels event
			if ne == 9007199254740991 {
				ne = infLevel // the library's spelling of that level
			}
		}
		effv := oe != ne && (ne > L || (other && oe >= L))
		_ = raw
		if effv {
			fail("user", "users["+u+"]", o, op, n, np)
		}
	}
	// events (effective under either default) and notifications
	checkMap := func(name string, defaults []int64, defaultsNew []int64) {
		om, nm := subMap(old, name), subMap(nw, name)
		keys := map[string]bool{}
		for k := range om {
			keys[k] = true
		}
		for k := range nm {
			keys[k] = true
		}
		var kl []string
		for k := range keys {
			kl = append(kl, k)
		}
		sort.Strings(kl)
		for _, k := range kl {
			o, op := get(om, k)
			n, np := get(nm, k)
			if op == np && o == n {
				continue
			}
			all := true
			for i := range defaults {
				if name == "events" && i == 1 && nonStateTypes[k] {
					continue // a message-like type never falls back to state_default
				}
				oe, ne := eff(o, op, defaults[i]), eff(n, np, defaultsNew[i])
				if !(oe != ne && (oe > L || ne > L)) {
					all = false
				}
			}
			if all {
				fail(name, name+"["+k+"]", o, op, n, np)
			}
		}
	}
	oed, _ := get(old, "events_default")
	ned, _ := get(nw, "events_default")
	osd, ok1 := get(old, "state_default")
	if !ok1 {
		osd = 50
	}
	nsd, ok2 := get(nw, "state_default")
	if !ok2 {
		nsd = 50
	}
	checkMap("events", []int64{oed, osd}, []int64{ned, nsd})
	if !noNotifications[ver] {
		checkMap("notifications", []int64{50}, []int64{50})
	}
}

// ---- C09: stateless-model checks ----------------------------------------------------

func verdict(err error) bool { return err == nil }

func (rm *room) neededKeys(ev gmsl.PDU) map[ref.Key]bool {
	out := map[ref.Key]bool{}
	for _, tp := range gmsl.StateNeededForAuth([]gmsl.PDU{ev}).Tuples() {
		out[ref.Key{Type: tp.EventType, StateKey: tp.StateKey}] = true
	}
	return out
}

func provOf(evs []gmsl.PDU) *gmsl.AuthEvents {
	p, _ := gmsl.NewAuthEvents(nil)
	for _, e := range evs {
		_ = p.AddEvent(e)
	}
	return p
}

// checkStateless: the verdict must be a function of the event and of the auth
// events for the pairs StateNeededForAuth names.
func (rm *room) checkStateless(ev gmsl.PDU, list []gmsl.PDU, first error) {
	r, t := rm.r, rm.t
	r.Probe("stateless_checks")
	want := verdict(first)
	desc := rm.describeCheck(ev, list)
	// (1) repeat, under another map-iteration order ("on every evaluation")
	verifrt.SetSalt(uint64(1 + t.Intn(1<<20)))
	got1 := verdict(gmsl.Allowed(ev, provOf(list), uidFor))
	verifrt.SetSalt(0)
	if got := got1; got != want {
		r.Violate("C09", "stateless", "repeat", "verdict changed on repeating the evaluation: %v then %v for %s", want, got, desc)
	}
	// (2) another insertion order
	if got := verdict(gmsl.Allowed(ev, provOf(sim.Shuffle(t, list)), uidFor)); got != want {
		r.Violate("C09", "stateless", "insertion_order", "verdict depends on the order auth events were supplied: %v vs %v for %s", want, got, desc)
	}
	needed := rm.neededKeys(ev)
	// (3) unrelated state added
	have := map[ref.Key]bool{}
	for _, e := range list {
		have[ref.Key{Type: e.Type(), StateKey: *e.StateKey()}] = true
	}
	padded := append([]gmsl.PDU{}, list...)
	for i := 0; i < 4 && len(rm.order) > 0; i++ {
		n := rm.nodes[sim.Pick(t, rm.order)]
		if n.ev.StateKey() == nil {
			continue
		}
		k := ref.Key{Type: n.ev.Type(), StateKey: *n.ev.StateKey()}
		if needed[k] || have[k] {
			continue
		}
		have[k] = true
		padded = append(padded, n.ev)
	}
	if len(padded) > len(list) {
		if got := verdict(gmsl.Allowed(ev, provOf(padded), uidFor)); got != want {
			r.Violate("C09", "stateless", "unrelated_state_added", "verdict changed when state not named by StateNeededForAuth was added: %v vs %v for %s", want, got, desc)
		}
	}
	// (4) un-needed state removed
	var only []gmsl.PDU
	for _, e := range list {
		if needed[ref.Key{Type: e.Type(), StateKey: *e.StateKey()}] {
			only = append(only, e)
		}
	}
	if len(only) < len(list) {
		if got := verdict(gmsl.Allowed(ev, provOf(only), uidFor)); got != want {
			r.Violate("C09", "stateless", "unneeded_state_removed", "verdict changed when state not named by StateNeededForAuth was removed: %v vs %v for %s", want, got, desc)
		}
		r.Probe("unneeded_state_present")
	}
	// (5) through the room's long-lived, reused checker (as state resolution does)
	rm.viaReused(ev, only, want, desc)
}

type reused struct {
	prov    *gmsl.AuthEvents
	checker *gmsl.VerifAllower
	n       int
}

var reusedByRoom = map[*room]*reused{}

func (rm *room) viaReused(ev gmsl.PDU, contents []gmsl.PDU, want bool, desc string) {
	ru := reusedByRoom[rm]
	if ru == nil {
		p, _ := gmsl.NewAuthEvents(nil)
		ru = &reused{prov: p}
		reusedByRoom[rm] = ru
		rm.r.Defer(func() { delete(reusedByRoom, rm) })
	}
	ru.prov.Clear()
	for _, e := range contents {
		_ = ru.prov.AddEvent(e)
	}
	if ru.checker == nil {
		ru.checker = gmsl.VerifNewAllower(ru.prov, uidFor, ev.RoomID())
	} else {
		ru.checker.Update(ru.prov)
	}
	ru.n++
	if !gmsl.VerifInternals {
		// the stand-in checker is a fresh one per call: this comparison says
		// nothing on this tree (the reused checker inside the library's own
		// resolver is still exercised by the C10 / C11 oracles)
		rm.r.Probe("degraded_reused_checker_unavailable")
	}
	got := verdict(ru.checker.Allowed(ev))
	if got && ev.Type() == spec.MRoomPowerLevels && ev.StateKey() != nil && *ev.StateKey() == "" {
		// accepted by a checker that has judged other events before (as the
		// library's resolvers do): non-escalation is due relative to the auth
		// events supplied for THIS event, whatever the checker saw earlier
		rm.r.Probe("power_levels_accepted_by_reused_checker")
		rm.checkNE(ev, contents)
	}
	if got != want {
		rm.r.Violate("C09", "history", "reused_checker", "a checker reused across %d events says allowed=%v, a fresh checker on the same auth events says %v, for %s", ru.n, got, want, desc)
	}
	if ru.n > 1 {
		rm.r.Probe("reused_checker_checks")
	}
}

func (rm *room) describeCheck(ev gmsl.PDU, list []gmsl.PDU) string {
	var parts []string
	for _, e := range list {
		parts = append(parts, rm.short(e.EventID()))
	}
	sk := "-"
	if ev.StateKey() != nil {
		sk = *ev.StateKey()
	}
	return fmt.Sprintf("event %s|%s by %s content=%s against [%s]", ev.Type(), sk, ev.SenderID(), ev.Content(), strings.Join(parts, " "))
}

// checkerHistory feeds 2-12 of the room's events, in tape order, through one
// reused checker with providers that differ from one event to the next
// (another create / power-levels / join-rules event, or none), and compares
// every verdict with a fresh checker's.
func (rm *room) checkerHistory() {
	r, t := rm.r, rm.t
	if len(rm.order) < 3 {
		return
	}
	p, _ := gmsl.NewAuthEvents(nil)
	var checker *gmsl.VerifAllower
	n := t.Range(2, 12)
	for i := 0; i < n; i++ {
		nd := rm.nodes[sim.Pick(t, rm.order[1:])]
		ev := nd.ev
		needed := rm.neededKeys(ev)
		// provider contents: the event's own auth events, or the state at another node
		var src []gmsl.PDU
		if t.Bool() {
			for _, a := range ev.AuthEventIDs() {
				if an := rm.nodes[a]; an != nil {
					src = append(src, an.ev)
				}
			}
		} else {
			src = rm.pdus(rm.nodes[sim.Pick(t, rm.order)].after)
		}
		var contents []gmsl.PDU
		drop := t.Weighted([]int{6, 1, 1, 1})
		for _, e := range src {
			k := ref.Key{Type: e.Type(), StateKey: *e.StateKey()}
			if !needed[k] {
				continue
			}
			if (drop == 1 && k.Type == spec.MRoomCreate) || (drop == 2 && k.Type == spec.MRoomPowerLevels) || (drop == 3 && k.Type == spec.MRoomJoinRules) {
				r.Probe("history_provider_lacks_" + strings.TrimPrefix(k.Type, "m.room."))
				continue
			}
			contents = append(contents, e)
		}
		if alt := rm.altCreate(); alt != nil && t.Chance(250) {
			// another create event for the same room ID (possible before room
			// IDs were derived from the create event): different content
			for j, e := range contents {
				if e.Type() == spec.MRoomCreate {
					contents[j] = alt
					r.Probe("history_provider_has_other_create_event")
				}
			}
		}
		if t.Chance(200) {
			// the redacted copy of a create / power-levels / join-rules event
			// in place of the event itself: same event ID, other content
			for j, e := range contents {
				if (e.Type() == spec.MRoomPowerLevels || e.Type() == spec.MRoomJoinRules || e.Type() == spec.MRoomCreate) && t.Bool() {
					if twin, err := rm.impl.NewEventFromTrustedJSON(append([]byte{}, e.JSON()...), false); err == nil {
						twin.Redact()
						if twin.EventID() == e.EventID() && string(twin.Content()) != string(e.Content()) {
							contents[j] = twin
							r.Probe("history_provider_has_redacted_twin")
						}
					}
				}
			}
		}
		want := verdict(gmsl.Allowed(ev, provOf(contents), uidFor))
		p.Clear()
		for _, e := range contents {
			_ = p.AddEvent(e)
		}
		if checker == nil {
			checker = gmsl.VerifNewAllower(p, uidFor, ev.RoomID())
		} else {
			checker.Update(p)
		}
		got := verdict(checker.Allowed(ev))
		r.Op()
		r.Logf("history[%d] %s -> reused=%v fresh=%v", i, rm.short(ev.EventID()), got, want)
		if got != want {
			r.Violate("C09", "history", "sequence", "event %d of a sequence through one reused checker: reused says allowed=%v, fresh says %v, for %s", i, got, want, rm.describeCheck(ev, contents))
		}
	}
}

// ---- C11 (iv): orderings ----------------------------------------------------------------

func (rm *room) checkOrderings() {
	r, t := rm.r, rm.t
	if len(rm.order) < 4 {
		return
	}
	for round := 0; round < 3; round++ {
		// a random subset of the room's events, in a random presentation order
		var in []gmsl.PDU
		for _, id := range rm.order {
			if t.Chance(700) {
				in = append(in, rm.nodes[id].ev)
			}
		}
		if len(in) < 2 {
			continue
		}
		in = sim.Shuffle(t, in)
		if t.Chance(300) {
			in = append(in, sim.Pick(t, in)) // the same event presented twice
		}
		byAuth := t.Bool()
		if byAuth && rm.priv {
			// orderings by auth events need the sender's power, which in
			// creator-privileged versions needs the create event
			has := false
			for _, e := range in {
				if e.Type() == spec.MRoomCreate {
					has = true
				}
			}
			if !has {
				in = append(in, rm.nodes[rm.order[0]].ev)
			}
		}
		order := gmsl.TopologicalOrderByPrevEvents
		name := "prev_events"
		if byAuth {
			order, name = gmsl.TopologicalOrderByAuthEvents, "auth_events"
		}
		dupIn := len(in) != len(ids(in)) || hasDup(in)
		rm.r.Logf("ordering by %s of %s dup=%v", name, rm.shorts(idsInOrder(in)), dupIn)
		verifrt.SetSalt(uint64(t.Intn(1 << 20)))
		fn := "ReverseTopologicalOrdering"
		var out []gmsl.PDU
		if t.Chance(300) {
			// the other exported entry point of the same ordering
			fn = "HeaderedReverseTopologicalOrdering"
			out = gmsl.HeaderedReverseTopologicalOrdering(in, order)
			r.Probe("ordering_through_the_headered_entry_point")
		} else {
			out = gmsl.ReverseTopologicalOrdering(in, order)
		}
		verifrt.SetSalt(0)
		r.Op()
		rm.checkOrder(fn+"/"+name, in, out, byAuth)
	}
	rm.checkLinearise()
}

type stateResp struct{ auth, state gmsl.EventJSONs }

func (s stateResp) GetAuthEvents() gmsl.EventJSONs  { return s.auth }
func (s stateResp) GetStateEvents() gmsl.EventJSONs { return s.state }

// checkLinearise: LineariseStateResponse over the state at a random node and
// its auth chain, presented in random order, with entries listed in both
// lists and twice.
func (rm *room) checkLinearise() {
	t := rm.t
	nd := rm.nodes[sim.Pick(t, rm.order)]
	state := rm.pdus(nd.after)
	auth := rm.authChainOf(state)
	if len(state)+len(auth) < 2 {
		return
	}
	state, auth = sim.Shuffle(t, state), sim.Shuffle(t, auth)
	if t.Chance(350) {
		// a server that leaves out of the auth chain what the state list
		// already carries: the auth list is then not closed on its own
		inState := map[string]bool{}
		for _, e := range state {
			inState[e.EventID()] = true
		}
		var only []gmsl.PDU
		for _, e := range auth {
			if !inState[e.EventID()] || t.Chance(200) {
				only = append(only, e)
			}
		}
		auth = only
		rm.r.Probe("linearise_auth_list_deduplicated_against_state")
	}
	if t.Chance(400) && len(auth) > 0 {
		auth = append(auth, sim.Pick(t, auth))
	}
	if t.Chance(300) {
		auth = append(auth, sim.Pick(t, state))
	}
	in := append(append([]gmsl.PDU{}, state...), auth...)
	verifrt.SetSalt(uint64(t.Intn(1 << 20)))
	out := gmsl.LineariseStateResponse(rm.ver, stateResp{auth: gmsl.NewEventJSONsFromEvents(auth), state: gmsl.NewEventJSONsFromEvents(state)})
	verifrt.SetSalt(0)
	rm.r.Op()
	rm.r.Logf("linearise state at %s: %d state + %d auth entries", rm.short(nd.id), len(state), len(auth))
	rm.checkOrder("LineariseStateResponse", in, out, true)
}

func (rm *room) checkOrder(who string, in, out []gmsl.PDU, byAuth bool) {
	r := rm.r
	distinct := map[string]bool{}
	for _, e := range in {
		distinct[e.EventID()] = true
	}
	pos := map[string]int{}
	for i, e := range out {
		if e == nil {
			r.Violate("C11", "ordering", "nil_entry", "%s returned a nil entry at position %d of %d (for %d inputs, %d of them distinct)", who, i, len(out), len(in), len(distinct))
			return
		}
		if _, dup := pos[e.EventID()]; dup {
			r.Violate("C11", "ordering", "duplicate", "%s returned %s twice", who, rm.short(e.EventID()))
		}
		pos[e.EventID()] = i
		r.Check(distinct[e.EventID()], "C11", "ordering", "not_input", "%s returned an event that was not in the input", who)
	}
	r.Check(len(pos) == len(distinct), "C11", "ordering", "not_permutation", "%s returned %d distinct events for %d distinct inputs", who, len(pos), len(distinct))
	for _, e := range out {
		refs := e.PrevEventIDs()
		if byAuth {
			refs = e.AuthEventIDs()
		}
		for _, a := range refs {
			if p, ok := pos[a]; ok && p > pos[e.EventID()] {
				r.Violate("C11", "ordering", "ancestor_after_descendant", "%s placed %s before its referenced ancestor %s", who, rm.short(e.EventID()), rm.short(a))
			}
		}
	}
}

func idsInOrder(evs []gmsl.PDU) []string {
	out := make([]string, 0, len(evs))
	for _, e := range evs {
		out = append(out, e.EventID())
	}
	return out
}

func hasDup(evs []gmsl.PDU) bool {
	seen := map[string]bool{}
	for _, e := range evs {
		if seen[e.EventID()] {
			return true
		}
		seen[e.EventID()] = true
	}
	return false
}

// altCreate builds (once per room) a second create event with the same room
// ID but other content (unfederated, other creator field).
func (rm *room) altCreate() gmsl.PDU {
	if rm.impl.DomainlessRoomIDs() {
		return nil
	}
	if rm.alt != nil {
		return rm.alt
	}
	creator := rm.users[0]
	content := map[string]any{"room_version": string(rm.ver), "creator": creator.id, "m.federate": false}
	ev, err := world.Build(rm.impl, world.Proto{RoomID: rm.roomID, Sender: creator.id, Type: spec.MRoomCreate, StateKey: world.Str(""), Content: content, Depth: 1},
		rm.now, creator.srv.Name, creator.srv.Current())
	if err != nil {
		return nil
	}
	rm.alt = ev
	return ev
}
