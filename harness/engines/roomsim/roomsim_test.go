package roomsim

import (
	"bytes"
	"crypto/ed25519"
	"crypto/sha256"
	"encoding/base64"
	"encoding/json"
	"fmt"
	"io"
	"os"
	"sort"
	"strconv"
	"strings"
	"testing"

	gmsl "github.com/matrix-org/gomatrixserverlib"
	"github.com/matrix-org/gomatrixserverlib/spec"
	"github.com/matrix-org/gomatrixserverlib/verifrt"

	"verifharness/ref"
	"verifharness/sim"
	"verifharness/world"
)

func bytesReader(b []byte) io.Reader { return bytes.NewReader(b) }

// ---- monitored auth check -------------------------------------------------------

// allowed is the only way the harness asks the library for an auth verdict.
// Every call feeds the C08 monitor (accepted power-level events) and, for a
// sample of calls, the C09 stateless-model checks.
func (rm *room) allowed(ev gmsl.PDU, prov *gmsl.AuthEvents, list []gmsl.PDU) error {
	err := gmsl.Allowed(ev, prov, uidFor)
	rm.r.Probe("auth_checks")
	if ev.Type() == spec.MRoomPowerLevels && ev.StateKey() != nil && *ev.StateKey() == "" && err == nil {
		rm.checkNE(ev, list)
	}
	if rm.r.Focus("C09") || rm.t.Chance(100) {
		rm.checkStateless(ev, list, err)
	} else if rm.r.Focus("C08") && ev.Type() == spec.MRoomPowerLevels && ev.StateKey() != nil && *ev.StateKey() == "" {
		// every power-levels event also goes through the room's long-lived,
		// reused checker: what that checker accepts is judged by the same
		// non-escalation monitor
		rm.viaReused(ev, list, verdict(err), "power-levels event "+rm.short(ev.EventID()))
	}
	return err
}

// ---- state at a set of prev events, with all resolution oracles ---------------------

func (rm *room) stateAt(prevs []string) map[ref.Key]string {
	var sets []map[ref.Key]string
	for _, p := range prevs {
		st := rm.nodes[p].after
		dup := false
		for _, s := range sets {
			if sameState(s, st) {
				dup = true
			}
		}
		if !dup {
			sets = append(sets, st)
		}
	}
	if len(sets) == 1 {
		return sets[0]
	}
	rm.forks++
	return rm.resolve(sets)
}

func ids(evs []gmsl.PDU) []string {
	out := make([]string, 0, len(evs))
	for _, e := range evs {
		out = append(out, e.EventID())
	}
	sort.Strings(out)
	return out
}

func (rm *room) short(id string) string {
	n := rm.nodes[id]
	if n == nil {
		return id
	}
	sk := "-"
	if n.ev.StateKey() != nil {
		sk = *n.ev.StateKey()
	}
	m := ""
	if n.ev.Type() == spec.MRoomMember {
		mm, _ := n.ev.Membership()
		m = "=" + mm
	}
	return fmt.Sprintf("#%d(%s|%s%s by %s)", n.idx, strings.TrimPrefix(n.ev.Type(), "m.room."), sk, m, n.ev.SenderID())
}

func (rm *room) shorts(l []string) string {
	var p []string
	for _, id := range l {
		p = append(p, rm.short(id))
	}
	return "[" + strings.Join(p, " ") + "]"
}

// authFor returns the auth events to supply to the resolver for these sets.
func (rm *room) authFor(sets [][]gmsl.PDU) []gmsl.PDU {
	if rm.algo == ref.V1 {
		// as ResolveStateConflicts documents: the unconflicted auth events
		// needed for the auth checks, one per state key
		count := map[ref.Key]map[string]bool{}
		for _, s := range sets {
			for _, e := range s {
				k := ref.Key{Type: e.Type(), StateKey: *e.StateKey()}
				if count[k] == nil {
					count[k] = map[string]bool{}
				}
				count[k][e.EventID()] = true
			}
		}
		var out []gmsl.PDU
		seen := map[string]bool{}
		for _, s := range sets {
			for _, e := range s {
				k := ref.Key{Type: e.Type(), StateKey: *e.StateKey()}
				switch e.Type() {
				case spec.MRoomCreate, spec.MRoomPowerLevels, spec.MRoomJoinRules, spec.MRoomMember, spec.MRoomThirdPartyInvite:
					if len(count[k]) == 1 && !seen[e.EventID()] {
						seen[e.EventID()] = true
						out = append(out, e)
					}
				}
			}
		}
		return out
	}
	var all []gmsl.PDU
	for _, s := range sets {
		all = append(all, s...)
	}
	return rm.authChainOf(all)
}

func (rm *room) resolve(states []map[ref.Key]string) map[ref.Key]string {
	r, t := rm.r, rm.t
	var sets [][]gmsl.PDU
	for _, st := range states {
		sets = append(sets, rm.pdus(st))
	}
	auth := rm.authFor(sets)
	rejected := rm.isRejected
	if !rm.fed && t.Chance(60) && len(auth) > 0 { // buggify: an oracle that also marks a random auth event rejected
		extra := sim.Pick(t, auth).EventID()
		rejected = func(id string) bool { return id == extra || rm.isRejected(id) }
		r.Probe("rejected_oracle_marks_extra_event")
	}
	r.Op()
	verifrt.SetSalt(rm.salt)
	got, err := gmsl.ResolveConflictsNew(rm.ver, sets, auth, uidFor, rejected)
	if err != nil {
		r.Violate(r.Prop, "resolve", "error", "ResolveConflictsNew failed: %v", err)
	}
	res := map[ref.Key]string{}
	for _, e := range got {
		res[ref.Key{Type: e.Type(), StateKey: *e.StateKey()}] = e.EventID()
	}
	gotIDs := ids(got)
	r.Logf("resolve %d sets (%d auth events) -> %d events", len(sets), len(auth), len(got))

	// ---- C11 (iii): well-formedness
	supplied := map[string]bool{}
	for _, s := range sets {
		for _, e := range s {
			supplied[e.EventID()] = true
		}
	}
	for _, e := range auth {
		supplied[e.EventID()] = true
	}
	seenKey := map[ref.Key]string{}
	for _, e := range got {
		if e.StateKey() == nil {
			r.Violate("C11", "wellformed", "non_state", "result contains non-state event %s", rm.short(e.EventID()))
		}
		k := ref.Key{Type: e.Type(), StateKey: *e.StateKey()}
		if prev, dup := seenKey[k]; dup {
			r.Violate("C11", "wellformed", "duplicate_key", "result has two events for (%s,%s): %s and %s", k.Type, k.StateKey, rm.short(prev), rm.short(e.EventID()))
		}
		seenKey[k] = e.EventID()
		r.Check(supplied[e.EventID()], "C11", "wellformed", "not_supplied", "result contains %s which was not supplied", e.EventID())
	}
	agreed := map[ref.Key]string{}
	for k, id := range states[0] {
		all := true
		for _, st := range states[1:] {
			if st[k] != id {
				all = false
			}
		}
		if all {
			agreed[k] = id
		}
	}
	for k, id := range agreed {
		r.Check(res[k] == id, "C11", "wellformed", "agreed_key_changed", "all state sets agree on (%s,%s)=%s but the result has %s", k.Type, k.StateKey, rm.short(id), rm.short(res[k]))
	}

	// ---- C10: refinement against the reference resolver
	want, tr := ref.Resolve(ref.Input{Algo: rm.algo, StateSets: sets, AuthEvents: auth, IsRejected: rejected, UserID: uidFor, PrivilegedCreators: rm.priv})
	var wantIDs []string
	for _, id := range want {
		wantIDs = append(wantIDs, id)
	}
	sort.Strings(wantIDs)
	if strings.Join(gotIDs, ",") != strings.Join(wantIDs, ",") {
		var diffs []string
		keys := map[ref.Key]bool{}
		for k := range want {
			keys[k] = true
		}
		for k := range res {
			keys[k] = true
		}
		var ks []ref.Key
		for k := range keys {
			ks = append(ks, k)
		}
		sort.Slice(ks, func(i, j int) bool { return ks[i].Type+"\x00"+ks[i].StateKey < ks[j].Type+"\x00"+ks[j].StateKey })
		sigT := ""
		for _, k := range ks {
			if want[k] != res[k] {
				diffs = append(diffs, fmt.Sprintf("(%s,%s): library %s, definition %s", k.Type, k.StateKey, rm.short(res[k]), rm.short(want[k])))
				if sigT == "" {
					sigT = strings.TrimPrefix(k.Type, "m.room.")
				}
			}
		}
		r.Violate("C10", "refinement", fmt.Sprintf("algo%d:%s", rm.algo, sigT), "resolved state differs from the definition: %s\n conflicted=%s\n authdiff=%s\n subgraph=%s\n power order=%s\n mainline=%s\n rest order=%s\n refused=%s",
			strings.Join(diffs, "; "), rm.shorts(tr.Conflicted), rm.shorts(tr.AuthDiff), rm.shorts(tr.Subgraph), rm.shorts(tr.PowerOrder), rm.shorts(tr.Mainline), rm.shorts(tr.MainlineOrder), rm.shorts(tr.Rejected))
	}
	if len(tr.PowerOrder) > 1 {
		r.Probe("power_events_ordered")
	}
	if len(tr.Rejected) > 0 {
		r.Probe("iterative_auth_refused_event")
	}
	if len(tr.Subgraph) > len(tr.Conflicted) {
		r.Probe("conflicted_subgraph_adds_events")
	}
	if len(tr.AuthDiff) > 0 {
		r.Probe("auth_difference_nonempty")
	}
	if len(tr.Mainline) > 1 {
		r.Probe("mainline_longer_than_one")
	}
	r.State(fmt.Sprintf("algo%d sets=%d conf=%d diff=%d power=%d", rm.algo, len(sets), len(tr.Conflicted), len(tr.AuthDiff), len(tr.PowerOrder)))

	// ---- C11 (ii): re-invocations under permutation, duplication, salts, entry points
	nre := t.Range(2, 5)
	for i := 0; i < nre; i++ {
		salt := uint64(t.Intn(1 << 20))
		psets := make([][]gmsl.PDU, len(sets))
		for j, pj := range t.Perm(len(sets)) {
			psets[j] = sim.Shuffle(t, sets[pj])
		}
		pauth := sim.Shuffle(t, auth)
		if t.Chance(400) && len(pauth) > 0 {
			for k := t.Range(1, 3); k > 0; k-- {
				pauth = append(pauth, sim.Pick(t, pauth))
			}
			pauth = sim.Shuffle(t, pauth)
			r.Fault("duplicate")
		}
		r.Fault("reorder")
		entry := t.Intn(3)
		verifrt.SetSalt(salt)
		var again []gmsl.PDU
		label := ""
		switch entry {
		case 0:
			label = "ResolveConflictsNew"
			again, err = gmsl.ResolveConflictsNew(rm.ver, psets, pauth, uidFor, rejected)
		case 1:
			if rm.algo == ref.V1 {
				label = "ResolveConflictsNew"
				again, err = gmsl.ResolveConflictsNew(rm.ver, psets, pauth, uidFor, rejected)
			} else {
				label = "ResolveStateConflictsV2New"
				again = gmsl.ResolveStateConflictsV2New(rm.impl.StateResAlgorithm(), psets, pauth, uidFor, rejected)
			}
		case 2:
			// deprecated entry point: compared with itself under two presentations
			label = "ResolveConflicts(deprecated)"
			var flat, flat2 []gmsl.PDU
			for _, s := range psets {
				flat = append(flat, s...)
			}
			flat2 = sim.Shuffle(t, flat)
			a1, e1 := gmsl.ResolveConflicts(rm.ver, flat, pauth, uidFor, rejected)
			verifrt.SetSalt(uint64(t.Intn(1 << 20)))
			a2, e2 := gmsl.ResolveConflicts(rm.ver, flat2, sim.Shuffle(t, pauth), uidFor, rejected)
			verifrt.SetSalt(rm.salt)
			if e1 != nil || e2 != nil {
				r.Violate("C11", "order", "deprecated_error", "ResolveConflicts failed: %v %v", e1, e2)
			}
			if strings.Join(ids(a1), ",") != strings.Join(ids(a2), ",") {
				r.Violate("C11", "order", fmt.Sprintf("algo%d:deprecated", rm.algo), "deprecated ResolveConflicts gives different results for two presentations of the same input:\n %s\n %s", rm.shorts(ids(a1)), rm.shorts(ids(a2)))
			}
			rm.checkUnique(a1, "C11", label)
			continue
		}
		verifrt.SetSalt(rm.salt)
		if err != nil {
			r.Violate("C11", "order", "error", "%s failed on a permuted input: %v", label, err)
		}
		if strings.Join(ids(again), ",") != strings.Join(gotIDs, ",") {
			r.Violate("C11", "order", fmt.Sprintf("algo%d:%s", rm.algo, label), "%s (salt %d, permuted/duplicated input) returns a different state than the first invocation:\n first  %s\n second %s", label, salt, rm.shorts(gotIDs), rm.shorts(ids(again)))
		}
	}
	// equal state sets resolve to that state
	if t.Chance(150) {
		one := sets[t.Intn(len(sets))]
		same, err := gmsl.ResolveConflictsNew(rm.ver, [][]gmsl.PDU{one, sim.Shuffle(t, one)}, rm.authFor([][]gmsl.PDU{one}), uidFor, rejected)
		if err != nil || strings.Join(ids(same), ",") != strings.Join(ids(one), ",") {
			r.Violate("C11", "wellformed", "fixed_point", "resolving two equal state sets does not return that state (err=%v): in %s out %s", err, rm.shorts(ids(one)), rm.shorts(ids(same)))
		}
		r.Probe("equal_sets_resolved")
	}
	return res
}

func (rm *room) checkUnique(evs []gmsl.PDU, prop, who string) {
	seen := map[ref.Key]bool{}
	for _, e := range evs {
		k := ref.Key{Type: e.Type(), StateKey: *e.StateKey()}
		if seen[k] {
			rm.r.Violate(prop, "wellformed", "duplicate_key", "%s result has two events for (%s,%s)", who, k.Type, k.StateKey)
		}
		seen[k] = true
	}
}

// ---- actions --------------------------------------------------------------------------

func (rm *room) pickPrevs() []string {
	t := rm.t
	n := len(rm.order)
	recent := func() string {
		// bias towards the newest events, but reach back to create forks
		back := 0
		switch t.Weighted([]int{5, 3, 2}) {
		case 1:
			back = t.Intn(3)
		case 2:
			back = t.Intn(n)
		}
		i := n - 1 - back
		if i < 1 {
			i = min(1, n-1)
		}
		return rm.order[i]
	}
	a := recent()
	if t.Chance(350) {
		b := recent()
		if b != a {
			if t.Chance(100) {
				// one prev event referenced twice
				rm.r.Probe("prev_event_listed_twice")
				return []string{a, b, a}
			}
			return []string{a, b}
		}
	}
	if t.Chance(40) {
		rm.r.Probe("prev_event_listed_twice")
		return []string{a, a}
	}
	if t.Chance(60) && n > 4 {
		l := []string{a}
		for len(l) < 3 {
			c := recent()
			dup := false
			for _, x := range l {
				if x == c {
					dup = true
				}
			}
			if dup {
				break
			}
			l = append(l, c)
		}
		return l
	}
	return []string{a}
}

func (rm *room) step(i int) {
	r, t := rm.r, rm.t
	t.Mark()
	prevs := rm.pickPrevs()
	before := rm.stateAt(prevs)
	actor := sim.Pick(t, rm.users)
	typ, sk, content, authFrom := rm.propose(i, actor, before)
	n, err := rm.add(actor, prevs, before, typ, sk, content, authFrom)
	if err != nil {
		r.Probe("build_refused")
		r.Logf("step %d: %s by %s on %s: build refused: %v", i, typ, actor.id, rm.shorts(prevs), err)
		return
	}
	if n.rejected {
		r.Fault("byzantine_event")
	}
	if len(prevs) > 1 {
		r.Nontriv = true
	}
	r.Logf("step %d: %s on %s rejected=%v", i, rm.short(n.id), rm.shorts(prevs), n.rejected)
}

// propose draws what a user (honest or Byzantine) sends next, given the state
// its server sees.
func (rm *room) propose(i int, actor user, before map[ref.Key]string) (typ string, sk *string, content any, authFrom map[ref.Key]string) {
	r, t := rm.r, rm.t
	honest := !t.Chance(250)
	mem := membershipOf(rm, before, actor.id)
	other := sim.Pick(t, rm.users)
	choice := t.Weighted([]int{3, 2, 3, 2, 2, 2, 1, 1, 1, 1})
	if honest && mem != "join" {
		choice = 0
	}
	if t.Chance(40) {
		choice = 10 // also by users who are not in the room: a server publishes its aliases
	} else if mem == "join" && t.Chance(40) {
		choice = 11
	}
	switch choice {
	case 11: // state of an auth-relevant TYPE under a state key the rules never read: unrelated state
		sk = world.Str(sim.Pick(t, []string{"archive", actor.id, "0"}))
		if t.Bool() {
			typ = spec.MRoomJoinRules
			content = map[string]any{"join_rule": sim.Pick(t, []string{"public", "invite", "knock"})}
		} else {
			typ = spec.MRoomPowerLevels
			cur := rm.currentPL(before)
			if cur == nil {
				cur = rm.defaultPL(rm.users[0])
			}
			content = cur // the room's levels, restated under another key: changes nothing
		}
		r.Probe("auth_type_under_unread_state_key")
	case 10: // m.room.aliases under the sender's server name (the sender key in pseudo-ID rooms): judged by a rule of its own, on the create event alone
		name := string(actor.srv.Name)
		if pseudoDir != nil {
			name = actor.id
		}
		if !honest {
			name = sim.Pick(t, []string{string(other.srv.Name), other.id, "", name + ".evil"})
		}
		typ, sk, content = "m.room.aliases", world.Str(name), map[string]any{"aliases": []any{fmt.Sprintf("#a%d:%s", i, actor.srv.Name)}}
		r.Probe("aliases_event")
	case 8: // a third-party invite is published, replaced (other identity key) or revoked
		tok := pickToken(t)
		typ, sk = spec.MRoomThirdPartyInvite, world.Str(tok)
		if t.Chance(250) {
			content = map[string]any{} // revoked
			r.Probe("third_party_invite_revoked")
		} else {
			pub := base64.RawStdEncoding.EncodeToString(identityKey(t.Intn(2)).Public().(ed25519.PublicKey))
			if t.Chance(60) {
				// a published key that is no ed25519 key at all (wrong length)
				pub = sim.Pick(t, []string{"AAAA", "", pub[:20], pub + "AAAA"})
				r.Probe("third_party_invite_with_key_of_wrong_length")
			}
			content = map[string]any{"display_name": "x", "key_validity_url": "https://id.example/valid", "public_key": pub, "public_keys": []any{map[string]any{"public_key": pub, "key_validity_url": "https://id.example/valid"}}}
		}
	case 9: // a third-party invite is exchanged for a membership invite
		tok := pickToken(t)
		mxid := other.id
		if !honest && t.Chance(300) {
			mxid = actor.id // signed for somebody else
		}
		k := t.Intn(2)
		if honest {
			// the key the published invite names, if there is one
			if id, ok := before[ref.Key{Type: spec.MRoomThirdPartyInvite, StateKey: tok}]; ok {
				for i := 0; i < 2; i++ {
					if strings.Contains(string(rm.nodes[id].ev.Content()), base64.RawStdEncoding.EncodeToString(identityKey(i).Public().(ed25519.PublicKey))) {
						k = i
					}
				}
			}
		}
		signed, err := gmsl.SignJSON("id.example", "ed25519:0", identityKey(k), []byte(fmt.Sprintf(`{"mxid":%q,"token":%q}`, mxid, tok)))
		if err != nil {
			panic(err)
		}
		if t.Chance(300) {
			// the identity server signed with a second key as well (a rotation
			// under way): one signature matches the published key, the other
			// does not - any one that verifies is enough, whichever is looked at first
			kid := sim.Pick(t, []gmsl.KeyID{"ed25519:1", "ed25519:-", "ed25519:00"})
			if s2, err2 := gmsl.SignJSON("id.example", kid, identityKey(1-k), signed); err2 == nil {
				signed = s2
				r.Probe("third_party_invite_signed_with_two_keys")
			}
		}
		typ, sk = spec.MRoomMember, world.Str(other.id)
		content = map[string]any{"membership": "invite", "third_party_invite": map[string]any{"display_name": "x", "signed": json.RawMessage(signed)}}
		r.Probe("third_party_invite_exchanged")
	case 0: // membership of self
		typ, sk = spec.MRoomMember, world.Str(actor.id)
		m := "join"
		if mem == "join" {
			m = sim.Pick(t, []string{"leave", "join"})
		} else if !honest {
			m = sim.Pick(t, []string{"join", "leave", "knock", "invite", "ban"})
		}
		c := map[string]any{"membership": m}
		if m == "join" && t.Chance(500) {
			if jr, ok := before[ref.Key{Type: spec.MRoomJoinRules, StateKey: ""}]; ok {
				if rule, _ := rm.nodes[jr].ev.JoinRule(); rule == "restricted" || rule == "knock_restricted" || !honest {
					// nominate an authorising user (honest: somebody joined)
					c["join_authorised_via_users_server"] = other.id
					r.Probe("join_with_authorised_via")
					if t.Chance(200) {
						// the member name in another letter case, or given twice:
						// readers that decode the content into a struct
						// (encoding/json: names matched case-insensitively, last
						// occurrence wins) see other.id as the authoriser - and
						// whatever names the needed state has to see the same
						content = json.RawMessage(sim.Pick(t, []string{
							fmt.Sprintf(`{"membership":"join","Join_Authorised_Via_Users_Server":%q}`, other.id),
							fmt.Sprintf(`{"JOIN_AUTHORISED_VIA_USERS_SERVER":%q,"membership":"join"}`, other.id),
							fmt.Sprintf(`{"join_authorised_via_users_server":"@nobody:%s","membership":"join","join_authorised_via_users_server":%q}`, actor.srv.Name, other.id),
							fmt.Sprintf(`{"join_authorised_via_users_server":%q,"membership":"leave","membership":"join"}`, other.id),
						}))
						r.Probe("join_with_authorised_via_oddly_spelled")
						return
					}
				}
			}
		}
		content = c
	case 1:
		typ, sk, content = "m.room.topic", world.Str(""), map[string]any{"topic": fmt.Sprintf("t%d", i)}
	case 2: // power levels
		typ, sk = spec.MRoomPowerLevels, world.Str("")
		content = rm.mutatePL(before, actor, honest)
	case 3: // membership of another user
		typ, sk = spec.MRoomMember, world.Str(other.id)
		m := sim.Pick(t, []string{"invite", "leave", "ban", "leave"})
		content = map[string]any{"membership": m}
	case 4:
		typ, sk = spec.MRoomJoinRules, world.Str("")
		jr := sim.Pick(t, []string{"public", "invite", "knock", "restricted", "restricted", "knock_restricted"})
		c := map[string]any{"join_rule": jr}
		if jr == "restricted" || jr == "knock_restricted" {
			c["allow"] = []any{map[string]any{"type": "m.room_membership", "room_id": "!other:" + string(actor.srv.Name)}}
		}
		if t.Chance(120) {
			// legal room state whose content does not have the shape the rules
			// read (the auth rules judge a join_rules event as any other state
			// event): events that do not need the join rule must not care
			c = sim.Pick(t, []map[string]any{
				{"join_rule": jr, "allow": map[string]any{"type": "m.room_membership"}},
				{"join_rule": jr, "allow": "everybody"},
				{"join_rule": 5},
				{"join_rule": nil},
				{"join_rule": []any{jr}},
				{},
				{"join_rule": jr, "allow": []any{"not an object", 7}},
			})
			r.Probe("join_rules_event_with_unreadable_content")
		}
		content = c
	case 5:
		typ, sk, content = "m.room.name", world.Str(""), map[string]any{"name": fmt.Sprintf("n%d", i)}
	case 6: // a custom state event with a state key
		typ, sk, content = "org.example.thing", world.Str(sim.Pick(t, []string{"a", "b", actor.id})), map[string]any{"v": i}
	case 7: // message (not state)
		typ, sk, content = "m.room.message", nil, map[string]any{"body": "x", "msgtype": "m.text"}
	}
	if c, ok := content.(map[string]any); ok && typ == spec.MRoomMember && c["membership"] != "invite" && t.Chance(120) {
		// a membership event that is not an invite but carries a
		// third_party_invite block (a join keeping the block of the invite it
		// follows up, say): the published invite it names is among the state
		// its verdict depends on all the same
		tok := pickToken(t)
		if signed, err := gmsl.SignJSON("id.example", "ed25519:0", identityKey(t.Intn(2)), []byte(fmt.Sprintf(`{"mxid":%q,"token":%q}`, *sk, tok))); err == nil {
			c["third_party_invite"] = map[string]any{"display_name": "x", "signed": json.RawMessage(signed)}
			r.Probe("third_party_invite_block_on_non_invite_membership")
		}
	}
	if !honest && t.Chance(200) && len(rm.order) > 3 {
		// Byzantine: cite auth events from another point of the DAG
		authFrom = rm.nodes[sim.Pick(t, rm.order[1:])].after
		r.Fault("byzantine_auth_events")
	}
	return
}

// pickToken draws the token of a third-party invite: two ordinary ones and,
// rarely, the empty string (a legal state key; the library's own rule for
// naming the needed state calls an empty token missing).
func pickToken(t *sim.Tape) string {
	if t.Chance(60) {
		return ""
	}
	return sim.Pick(t, []string{"tokA", "tokB"})
}

// identityKey returns one of two fixed identity-server keys (third-party invites).
func identityKey(i int) ed25519.PrivateKey {
	seed := sha256.Sum256([]byte(fmt.Sprintf("verif identity server key %d", i)))
	return ed25519.NewKeyFromSeed(seed[:])
}

func lvl(v any) (int64, bool) {
	switch x := v.(type) {
	case interface{ Int64() (int64, error) }:
		n, err := x.Int64()
		return n, err == nil
	case int:
		return int64(x), true
	case int64:
		return x, true
	case float64:
		return int64(x), x == float64(int64(x))
	}
	return 0, false
}

// mutatePL proposes new power-levels content derived from the current one.
func (rm *room) mutatePL(before map[ref.Key]string, actor user, honest bool) map[string]any {
	t := rm.t
	cur := rm.currentPL(before)
	if cur == nil {
		cur = rm.defaultPL(rm.users[0])
	}
	// deep-ish copy
	out := map[string]any{}
	for k, v := range cur {
		if m, ok := v.(map[string]any); ok {
			c := map[string]any{}
			for kk, vv := range m {
				c[kk] = vv
			}
			out[k] = c
		} else {
			out[k] = v
		}
	}
	users, _ := out["users"].(map[string]any)
	if users == nil {
		users = map[string]any{}
		out["users"] = users
	}
	my := int64(0)
	if v, ok := users[actor.id]; ok {
		my, _ = lvl(v)
	} else if v, ok := out["users_default"]; ok {
		my, _ = lvl(v)
	}
	if rm.priv && rm.isCreator(actor.id) {
		my = 1000
	}
	level := func() any {
		if t.Chance(200) {
			// a value at, just above or just below another user's level: the
			// boundaries the comparisons are about lie between users
			o := sim.Pick(t, rm.users)
			ol := int64(0)
			if v, ok := users[o.id]; ok {
				ol, _ = lvl(v)
			} else if v, ok := out["users_default"]; ok {
				ol, _ = lvl(v)
			}
			v := int(ol) + sim.Pick(t, []int{-1, 0, 1})
			if !honest || v <= int(my) {
				return v
			}
		}
		if honest {
			return int(my) - t.Intn(60)
		}
		if t.Chance(120) { // non-integer levels: legal spellings before v10, refused from v10
			rm.r.Probe("non_integer_level_proposed")
			return sim.Pick(t, []any{fmt.Sprint(int(my)), "50", 50.5, json.Number("7.5e1"), " 25", "1e2"})
		}
		return sim.Pick(t, []int{int(my) + 1, int(my) + 50, int(my), 100, 0, -1, 9000, 9007199254740991})
	}
	if !honest && ((rm.priv && t.Chance(200)) || (rm.extraCreators && t.Chance(400))) {
		// name a creator, at the level creators implicitly have, at an
		// ordinary level, or at the sender's own; or give everybody that level
		cr := rm.nodes[rm.order[0]].ev
		if t.Chance(250) {
			out["users_default"] = 9007199254740991
		} else {
			users[string(cr.SenderID())] = sim.Pick(t, []int{9007199254740991, 100, int(my)})
		}
		rm.r.Probe("pl_names_a_creator")
	}
	if !rm.priv && rm.extraCreators && rm.currentPL(before) == nil && len(rm.users) > 1 && actor.id == rm.users[1].id && t.Chance(600) {
		// the user a pre-v12 create event lists under additional_creators (a
		// member without meaning there) writes the room's first power levels
		// as a creator would: the real creator at the level creators have
		// while there is no power-levels event, and itself promoted
		cr := rm.nodes[rm.order[0]].ev
		users[string(cr.SenderID())] = sim.Pick(t, []int{9007199254740991, 100})
		users[actor.id] = sim.Pick(t, []int{100, 50, 9007199254740991})
		rm.r.Probe("pl_first_event_by_listed_non_creator")
	}
	nm := t.Range(1, 3)
	for i := 0; i < nm; i++ {
		switch t.Intn(7) {
		case 6:
			// two coordinated edits: drop somebody's entry and move
			// users_default, so that the dropped user's level becomes the new
			// default (which may differ from what the entry said)
			u := sim.Pick(t, rm.users)
			if rm.priv && rm.isCreator(u.id) && honest {
				continue
			}
			delete(users, u.id)
			out["users_default"] = level()
			rm.r.Probe("pl_entry_dropped_with_default_moved")
		case 0:
			u := sim.Pick(t, rm.users)
			if rm.priv && rm.isCreator(u.id) && honest {
				continue
			}
			users[u.id] = level()
		case 1:
			u := sim.Pick(t, rm.users)
			delete(users, u.id)
		case 2:
			out[sim.Pick(t, []string{"ban", "kick", "invite", "redact", "events_default", "state_default", "users_default"})] = level()
		case 3:
			ev, _ := out["events"].(map[string]any)
			if ev == nil {
				ev = map[string]any{}
				out["events"] = ev
			}
			k := sim.Pick(t, []string{"m.room.topic", "m.room.name", "m.room.power_levels", "org.example.thing", "m.room.message", "m.reaction"})
			if _, has := ev[k]; has && t.Chance(400) {
				delete(ev, k) // the type falls back to its default
				if t.Bool() {
					// ... and another entry comes in its place: the map does not shrink
					ev[sim.Pick(t, []string{"m.room.avatar", "m.room.canonical_alias", "org.example.other"})] = level()
					rm.r.Probe("pl_events_entry_swapped")
				}
			} else {
				ev[k] = level()
			}
		case 4:
			delete(out, sim.Pick(t, []string{"ban", "kick", "invite", "redact", "events_default", "state_default", "users_default", "events", "notifications"}))
		case 5:
			nt, _ := out["notifications"].(map[string]any)
			if nt == nil {
				nt = map[string]any{}
				out["notifications"] = nt
			}
			k := sim.Pick(t, []string{"room", "custom", "org.example.here"})
			if _, has := nt[k]; has && t.Chance(450) {
				delete(nt, k) // the notification falls back to its default
				rm.r.Probe("pl_notification_entry_removed")
			} else {
				nt[k] = level()
			}
		}
	}
	return out
}

// ---- body -------------------------------------------------------------------------------

func body(r *sim.Run) {
	t := r.T
	vers := world.Versions()
	// weight so that v1, v2 and v2.1 algorithms and both event formats are all common
	var pool []gmsl.RoomVersion
	for _, v := range vers {
		w := 1
		switch v {
		case "1", "12", "org.matrix.hydra.11":
			w = 4
		case "2", "10", "11":
			w = 2
		}
		for i := 0; i < w; i++ {
			pool = append(pool, v)
		}
	}
	ver := sim.Pick(t, pool)
	rm := newRoom(r, ver)
	verifrt.SetSalt(0)
	r.Defer(func() { verifrt.SetSalt(0) })
	if err := rm.bootstrap(); err != nil {
		r.Violate(r.Prop, "bootstrap", "error", "room bootstrap failed in version %s: %v", ver, err)
	}
	r.Logf("room version %s (algo %d), %d users on %d servers", ver, rm.algo, len(rm.users), len(rm.servers))
	// everybody joins (or tries to) so that later forks have actors
	nsteps := t.Range(6, 28)
	if v := os.Getenv("ROOMSIM_MAXSTEPS"); v != "" { // development aid: small rooms
		if n, err := strconv.Atoi(v); err == nil && nsteps > n {
			nsteps = n
		}
	}
	for i := 0; i < nsteps && !r.Failed(); i++ {
		rm.step(i)
	}
	// explicit resolution over random tips
	nres := t.Range(1, 3)
	for i := 0; i < nres && len(rm.order) > 3; i++ {
		k := t.Range(2, 4)
		var tips []string
		for len(tips) < k {
			tips = append(tips, sim.Pick(t, rm.order[1:]))
		}
		rm.stateAt(tips)
	}
	if r.Focus("C11") {
		rm.checkOrderings()
	}
	if r.Focus("C09") {
		rm.checkerHistory()
	}
	if rm.forks > 0 {
		r.Nontriv = true
	}
	r.Probe(fmt.Sprintf("algo_v%d_runs", rm.algo))
}

func TestEngine(t *testing.T) {
	if os.Getenv("VERIF_ENGINE_MODE") == "fed" {
		sim.Main(t, &sim.Engine{
			Name: "fedsim",
			Body: fedBody,
			Rule: func(p string) string {
				return "one run = one room (version drawn as in roomsim) replicated on 2-4 simulated servers, each with its own DAG replica, durable event log, volatile state and map-iteration salt; one seeded event loop of 15-70 steps chooses among: a local user (honest or Byzantine) acts on its server's forward extremities and the PDU is broadcast; the network delivers one in-flight message (any, not the oldest: reorder) with drop / duplicate / byte-corruption faults; a link is cut or healed; a server crashes (unsynced log writes lost, not only a suffix) or restarts (replays its log in log order or in the library's topological order, under a new salt, re-fetching ancestors lost with unsynced writes); fsync; re-fetch of missing ancestors. Invariants after every processed event: the verdict and the state after an event equal what every other replica (and the same server before its restart) reached for that event; every resolution equals the reference resolver's (C10) and survives the C11 re-invocations. After the last fault: heal, restart, bounded drain (<=60 rounds) must leave no event waiting and equal forward extremities and current state on all servers; non-trivial = some event with >=2 prev events was processed; distinct = distinct event-log hash"
			},
			Real:        []string{"EventBuilder.AddAuthEvents/Build", "NewEventFromUntrustedJSON", "NewEventFromTrustedJSON", "VerifyEventSignatures", "Allowed", "ResolveConflictsNew (+ re-invocations through the other entry points)", "ReverseTopologicalOrdering"},
			Stub:        []string{"the servers' receive / fetch-missing / persist loop (the roomserver the library leaves to its caller)", "network (in-flight queue with drop, duplicate, reorder, corrupt, partition)", "disk (append-only log with unsynced writes)", "key lookup (ledger verifier)", "map iteration order (verifrt salt per server boot)", "reference resolver (oracle)"},
			Assumptions: []string{"a server makes its own event durable before sending it", "a PDU whose content hash does not match is dropped and fetched again rather than kept in redacted form", "per-event Allowed verdicts (C07) are trusted inside the reference resolver", "the pseudo-ID room version is not exercised"},
		})
		return
	}
	sim.Main(t, &sim.Engine{
		Name: "roomsim",
		Body: body,
		Rule: func(p string) string {
			return "one run = one room (version drawn from the whole registry, weighted towards the v1, v2 and v2.1 algorithms; in the pseudo-ID version users are known by per-room keys and a directory maps them back) with 2-5 users on 2-3 servers; 6-28 events by honest and Byzantine users (self/other membership, power levels, join rules - one in eight with a content the rules cannot read -, topic/name/custom state, m.room.aliases under the sender's server name or another, power-levels / join-rules events under a state key the rules never read, third-party invites, messages), each built with the real EventBuilder.AddAuthEvents/Build on 1-3 tape-chosen prev events (forks = what partitions and delays produce) with tape-chosen, colliding and skewed timestamps; every merge and 1-3 explicit tip sets are state-resolution points: library vs reference resolver (C10), 2-5 re-invocations with permuted / duplicated inputs, another map-order salt and the other entry points (C11), every auth verdict through the C08 non-escalation monitor and the C09 stateless-model checks; non-trivial = at least one resolution of >=2 distinct state sets; distinct = distinct event-log hash"
		},
		Real: []string{"EventBuilder.AddAuthEvents/Build", "Allowed", "ResolveConflictsNew", "ResolveStateConflictsV2New", "ResolveConflicts (deprecated)", "ResolveStateConflicts (v1)", "ReverseTopologicalOrdering", "LineariseStateResponse", "allowerContext (via build-tagged overlay)"},
		Stub: []string{"servers' event stores and arrival orders (DAG generator + input permutations)", "map iteration order (verifrt salt)", "clock (tape-chosen origin_server_ts)", "reference resolver harness/ref/stateres.go (oracle)"},
		Assumptions: []string{"per-event Allowed verdicts (property C07) are trusted inside the reference resolver", "tie-breaking refinements R1-R6 of DESIGN.md §6.1 are part of the definition",
			"v1 resolver is given the unconflicted auth events, one per state key, as it documents", "in the pseudo-ID room version events are not signed by the sender keys (signatures are not this engine's subject) and joins carry no mxid_mapping"},
	})
}
