package relaysim

import (
	"encoding/json"
	"fmt"
	"sort"
	"strings"
	"unicode/utf16"
	"unicode/utf8"

	"verifharness/sim"
)

// style is one way of writing a JSON value down. It is drawn from the tape
// (four small values); the per-token variation inside one serialisation comes
// from a local generator seeded by one of those values, so a run stays a pure
// function of the tape and a zeroed tape gives compact, sorted, minimally
// escaped text.
type style struct {
	ws    int // 0 none, 1 one space after ':' and ',', 2 indented, 3 mixed
	order int // 0 sorted, 1 reverse, 2 shuffled per object
	esc   int // 0 minimal, 1 non-ASCII as \uxxxx, 2 same upper-case hex, 3 everything as \uXXXX, 4 alternative short/long forms and \/, 5 mixed
	rng   uint64
}

func drawStyle(t *sim.Tape) style {
	return style{ws: t.Intn(4), order: t.Intn(3), esc: t.Intn(6), rng: uint64(t.Intn(1 << 16))}
}

func (s style) String() string {
	return fmt.Sprintf("ws%d/ord%d/esc%d/%x", s.ws, s.order, s.esc, s.rng)
}

func (s style) plain() bool { return s.ws == 0 && s.order == 0 && s.esc == 0 }

type speller struct {
	st  style
	x   uint64
	sb  strings.Builder
	ind int
}

func (p *speller) next() uint64 {
	p.x += 0x9E3779B97F4A7C15
	z := p.x
	z = (z ^ (z >> 30)) * 0xBF58476D1CE4E5B9
	z = (z ^ (z >> 27)) * 0x94D049BB133111EB
	return z ^ (z >> 31)
}

// spell serialises a value tree (map[string]any, []any, string, json.Number,
// bool, nil) in the given style. It shares no code with the repository.
func spell(v any, st style) []byte {
	p := &speller{st: st, x: st.rng*2654435761 + 1}
	p.gap(false)
	p.value(v)
	p.gap(false)
	return []byte(p.sb.String())
}

var wsChars = []string{" ", "\t", "\n", "\r"}

// gap writes optional whitespace between two tokens.
func (p *speller) gap(after bool) {
	switch p.st.ws {
	case 0:
	case 1:
		if after {
			p.sb.WriteByte(' ')
		}
	case 2:
		if after {
			p.sb.WriteByte('\n')
			for i := 0; i < p.ind; i++ {
				p.sb.WriteByte('\t')
			}
		}
	default:
		n := int(p.next() % 4)
		for i := 0; i < n; i++ {
			p.sb.WriteString(wsChars[p.next()%4])
		}
	}
}

func (p *speller) value(v any) {
	switch x := v.(type) {
	case map[string]any:
		ks := make([]string, 0, len(x))
		for k := range x {
			ks = append(ks, k)
		}
		sort.Strings(ks)
		switch p.st.order {
		case 1:
			for i, j := 0, len(ks)-1; i < j; i, j = i+1, j-1 {
				ks[i], ks[j] = ks[j], ks[i]
			}
		case 2:
			for i := len(ks) - 1; i > 0; i-- {
				j := int(p.next() % uint64(i+1))
				ks[i], ks[j] = ks[j], ks[i]
			}
		}
		p.sb.WriteByte('{')
		p.ind++
		for i, k := range ks {
			if i > 0 {
				p.sb.WriteByte(',')
			}
			p.gap(true)
			p.str(k)
			p.gap(false)
			p.sb.WriteByte(':')
			if p.st.ws == 1 || p.st.ws == 2 {
				p.sb.WriteByte(' ')
			} else {
				p.gap(false)
			}
			p.value(x[k])
			p.gap(false)
		}
		p.ind--
		if len(ks) > 0 && p.st.ws == 2 {
			p.gap(true)
		}
		p.sb.WriteByte('}')
	case []any:
		p.sb.WriteByte('[')
		p.ind++
		for i, e := range x {
			if i > 0 {
				p.sb.WriteByte(',')
			}
			p.gap(true)
			p.value(e)
			p.gap(false)
		}
		p.ind--
		if len(x) > 0 && p.st.ws == 2 {
			p.gap(true)
		}
		p.sb.WriteByte(']')
	case string:
		p.str(x)
	case json.Number:
		p.sb.WriteString(x.String())
	case bool:
		if x {
			p.sb.WriteString("true")
		} else {
			p.sb.WriteString("false")
		}
	case nil:
		p.sb.WriteString("null")
	default:
		panic(fmt.Sprintf("spell: unsupported %T", v))
	}
}

func (p *speller) hex4(u uint16, upper bool) {
	f := "\\u%04x"
	if upper {
		f = "\\u%04X"
	}
	fmt.Fprintf(&p.sb, f, u)
}

func (p *speller) uescape(r rune, upper bool) {
	if r >= 0x10000 {
		a, b := utf16.EncodeRune(r)
		p.hex4(uint16(a), upper)
		p.hex4(uint16(b), upper)
		return
	}
	p.hex4(uint16(r), upper)
}

var shortEsc = map[rune]string{'\b': `\b`, '\f': `\f`, '\n': `\n`, '\r': `\r`, '\t': `\t`}

// str writes one JSON string. Every spelling decodes to exactly s.
func (p *speller) str(s string) {
	p.sb.WriteByte('"')
	for _, r := range s {
		if r == utf8.RuneError {
			// generators never produce invalid UTF-8; U+FFFD itself is fine
			r = 0xFFFD
		}
		mode := p.st.esc
		upper := false
		if mode == 5 {
			mode = int(p.next() % 5)
			upper = p.next()&1 == 1
		}
		if mode == 2 {
			upper = true
		}
		must := r == '"' || r == '\\' || r < 0x20
		switch {
		case mode == 3:
			p.uescape(r, p.next()&1 == 1)
		case (mode == 1 || mode == 2) && r >= 0x80:
			p.uescape(r, upper)
		case mode == 4 && r == '/':
			p.sb.WriteString(`\/`)
		case mode == 4 && must:
			// the long form where a short one exists, and vice versa for " and \
			p.uescape(r, upper)
		case must:
			if r == '"' {
				p.sb.WriteString(`\"`)
			} else if r == '\\' {
				p.sb.WriteString(`\\`)
			} else if e, ok := shortEsc[r]; ok {
				p.sb.WriteString(e)
			} else {
				p.uescape(r, upper)
			}
		default:
			p.sb.WriteRune(r)
		}
	}
	p.sb.WriteByte('"')
}
