package relaysim

import (
	"bytes"
	"crypto/ed25519"
	"encoding/base64"
	"encoding/json"
	"fmt"
	"regexp"
	"runtime/debug"
	"sort"
	"strconv"
	"strings"
	"time"

	gmsl "github.com/matrix-org/gomatrixserverlib"
	"github.com/tidwall/gjson"

	"verifharness/ref"
	"verifharness/sim"
	"verifharness/world"
)

// entity is one (name, key id, key) that can sign.
type entity struct {
	name string
	kid  gmsl.KeyID
	key  *world.Key
}

func (e entity) String() string { return e.name + "/" + string(e.kid) }

// slot is the ground truth about one entry signatures[name][keyid] of the
// object in flight.
type slot struct {
	origin *world.Key // key that produced the bytes (nil: foreign / random bytes)
	proj   string     // value (ref.Render) of the object minus signatures/unsigned at signing time
	intact bool       // the signature bytes are the ones the signer produced
	orig   string     // those bytes (unpadded standard base64), to notice a tamper that is later undone
	copied bool       // a relay copied it here from another (name, key id)
	how    string     // last thing that happened to it (for the signature tag)
}

type slotKey struct{ name, kid string }

type c02 struct {
	r     *sim.Run
	t     *sim.Tape
	ents  []entity
	cur   []byte
	slots map[slotKey]*slot
	taint taints
	// relax: a relay replaced a signature by something that is not base64; the
	// library may then refuse the whole signatures object, so completeness and
	// totality of signing are no longer demanded (soundness still is).
	relax      bool
	lastBenign string
	tampers    []string // corrupt_member kinds fired so far
	dupWire    bool     // the bytes in flight repeat a member name
	signers    map[string]bool
	faults     int
	spare      ed25519.PublicKey
}

func (c *c02) check(ok bool, oracle, tag, format string, a ...any) {
	if ok {
		return
	}
	o, s := c.taint.route("C02", oracle, tag)
	c.r.Violate("C02", o, s, format, a...)
	bail()
}

func (c *c02) slotKeys() []slotKey {
	ks := make([]slotKey, 0, len(c.slots))
	for k := range c.slots {
		ks = append(ks, k)
	}
	sort.Slice(ks, func(i, j int) bool {
		if ks[i].name != ks[j].name {
			return ks[i].name < ks[j].name
		}
		return ks[i].kid < ks[j].kid
	})
	return ks
}

// libSite returns the first library frame of a stack trace.
func libSite(st string) string {
	for _, ln := range strings.Split(st, "\n") {
		ln = strings.TrimSpace(ln)
		if strings.HasPrefix(ln, "github.com/matrix-org/gomatrixserverlib") && !strings.Contains(ln, "verifrt") {
			if i := strings.LastIndex(ln, "("); i > 0 {
				ln = ln[:i]
			}
			return ln
		}
	}
	return "?"
}

func safeSign(name string, kid gmsl.KeyID, priv ed25519.PrivateKey, msg []byte) (out []byte, err error, pan string) {
	defer func() {
		if p := recover(); p != nil {
			pan = fmt.Sprintf("%v at %s", p, libSite(string(debug.Stack())))
		}
	}()
	out, err = gmsl.SignJSON(name, kid, priv, msg)
	return
}

func safeVerify(name string, kid gmsl.KeyID, pub ed25519.PublicKey, msg []byte) (err error, pan string) {
	defer func() {
		if p := recover(); p != nil {
			pan = fmt.Sprintf("%v at %s", p, libSite(string(debug.Stack())))
		}
	}()
	err = gmsl.VerifyJSON(name, kid, pub, msg)
	return
}

func projection(m map[string]any) string {
	return ref.Render(ref.Without(m, "signatures", "unsigned"))
}

// model parses the bytes in flight with the standard decoder.
func (c *c02) model() map[string]any {
	m, err := parseObject(c.cur)
	harnessAssert(err == nil, "object in flight is not a JSON object: %v: %q", err, clip(string(c.cur), 300))
	return m
}

// setWire re-serialises a model in a tape-chosen style.
func (c *c02) setWire(m map[string]any, st style) {
	c.dupWire = false
	c.cur = spell(m, st)
	back, err := parseObject(c.cur)
	harnessAssert(err == nil && ref.Render(back) == ref.Render(m), "speller changed the value (style %v): %q", st, clip(string(c.cur), 300))
}

func runC02(r *sim.Run) {
	t := r.T
	c := &c02{r: r, t: t, slots: map[slotKey]*slot{}, taint: taints{}, signers: map[string]bool{}}
	now := time.Unix(1700000000, 0)

	// ---- world: 2-4 names, some with a second key id; key ids collide across names
	nNames := t.Range(2, 4)
	names := []string{"origin.example", "relay1.example", "relay2.example:8448", "xn--relay3.example"}
	if t.Chance(150) {
		// signer names are arbitrary strings to JSON signing: some that mean
		// something to path or pattern syntaxes
		names[t.Intn(len(names))] = sim.Pick(t, []string{"weird|name", "@this", "a#b.example", "dotted.name.with.many.dots", "star*name", "q?mark", "back\\slash", "0"})
		r.Probe("signer_name_with_metacharacters")
	}
	for i := 0; i < nNames; i++ {
		s := world.NewCompactServer(t, names[i], now)
		c.ents = append(c.ents, entity{name: names[i], kid: s.Keys[0].ID, key: s.Keys[0]})
		if t.Intn(3) == 2 {
			k := s.AddCompactKey(t, now)
			c.ents = append(c.ents, entity{name: names[i], kid: k.ID, key: k})
		}
	}
	sp := world.NewCompactKey(t, "spare")
	c.spare = sp.Public().(ed25519.PublicKey)
	faultMode := t.Intn(3)

	// ---- the object
	g := &gen{t: t, budget: 24, taint: c.taint, probe: r.Probe, lits: true}
	obj := g.object(0, t.Range(1, 5))
	switch t.Intn(6) { // unsigned
	case 1, 2:
		obj["unsigned"] = g.object(1, t.Range(0, 3))
	case 3:
		obj["unsigned"] = map[string]any{"age_ts": num(1234), "nested": map[string]any{"signatures": "x"}}
	case 4:
		obj["unsigned"] = g.value(3)
		if _, isObj := obj["unsigned"].(map[string]any); !isObj {
			r.Probe("gen_unsigned_not_an_object")
		}
	}
	switch t.Intn(8) { // pre-existing signatures
	case 1:
		obj["signatures"] = map[string]any{}
	case 2, 3:
		sigs := map[string]any{}
		for i, n := 0, t.Range(1, 2); i < n; i++ {
			name := sim.Pick(t, []string{"foreign.example", "old.example", names[0]})
			kid := sim.Pick(t, []string{"ed25519:f1", "ed25519:k1", "ed25519:old"})
			if sigs[name] == nil {
				sigs[name] = map[string]any{}
			}
			sigs[name].(map[string]any)[kid] = base64.RawStdEncoding.EncodeToString(world.CompactBytes(t, "foreign", 64))
			c.slots[slotKey{name, kid}] = &slot{how: "preexisting"}
		}
		obj["signatures"] = sigs
		r.Probe("gen_preexisting_signatures")
	case 4:
		if !disabled["signull"] {
			obj["signatures"] = nil
			c.taint["signull"] = true
			r.Probe("gen_signatures_null")
		}
	case 5:
		// an entity's entry is present but null - for one that will sign
		// (its signature must simply be added) or for a bystander
		obj["signatures"] = map[string]any{sim.Pick(t, []string{names[0], names[1], "foreign.example"}): nil}
		r.Probe("gen_entity_signatures_null")
	}
	c.setWire(obj, drawStyle(t))
	if len(c.cur) > 2048 {
		r.Probe("object_over_2KiB")
	}
	r.Logf("C02 names=%d entities=%d faultmode=%d taint=%q object=%s %s", nNames, len(c.ents), faultMode, c.taint.String(), digest(c.cur), clip(ref.Render(obj), 400))

	// ---- origin signs
	c.sign(c.ents[0], "origin")
	c.verifySlots("after_origin_sign")

	// ---- relays
	weights := [][]int{{4, 3, 2, 0, 0, 0, 0}, {6, 4, 3, 1, 1, 1, 1}, {2, 2, 1, 3, 2, 1, 2}}[faultMode]
	hops := t.Range(0, 6)
	for h := 1; h <= hops; h++ {
		kind := t.Weighted(weights)
		switch kind {
		case 0:
			st := drawStyle(t)
			c.setWire(c.model(), st)
			r.Fault("reserialise")
			c.lastBenign = "reserialise"
			r.Logf("hop %d reserialise %v -> %s", h, st, digest(c.cur))
		case 1:
			e := c.ents[t.Intn(len(c.ents))]
			r.Fault("add_signature")
			c.lastBenign = "add_signature"
			c.sign(e, fmt.Sprintf("hop %d", h))
			if t.Bool() {
				st := drawStyle(t)
				c.setWire(c.model(), st)
				r.Logf("hop %d re-emitted %v -> %s", h, st, digest(c.cur))
			}
		case 2:
			c.editUnsigned(h)
		case 3:
			c.corruptMember(h)
		case 4:
			c.corruptBytes(h)
		case 5:
			c.stripSignature(h)
		case 6:
			c.copySignature(h)
		}
		c.verifySlots(fmt.Sprintf("hop%d", h))
	}
	if len(c.signers) >= 2 {
		r.Probe("multi_signer_chain")
	}
	r.Nontriv = c.faults > 0 || len(c.signers) >= 2
	c.verifyFinal()
	r.State(fmt.Sprintf("slots=%d faults=%d signers=%d relax=%v taint=%s", len(c.slots), c.faults, len(c.signers), c.relax, c.taint.String()))
}

// sign lets an entity sign the object in flight with the real SignJSON and
// checks what signing must preserve.
func (c *c02) sign(e entity, where string) {
	r := c.r
	r.Op()
	if c.dupWire {
		// A text with a repeated member name is outside what the completeness
		// clause speaks about (which of the two values was "signed"?): an
		// entity about to sign first reads the object and writes it out again,
		// as any relay may. The tampering itself stays judged: every earlier
		// signature must now fail.
		c.setWire(c.model(), drawStyle(c.t))
		r.Probe("object_with_repeated_name_normalised_before_signing")
	}
	m0 := c.model()
	out, err, pan := safeSign(e.name, e.kid, e.key.Priv, c.cur)
	r.Logf("%s: %s signs %s -> err=%v panic=%q out=%s", where, e, digest(c.cur), err, pan, digest(out))
	if pan != "" {
		c.check(false, "sign_total", "panic", "SignJSON(%s) panicked on a valid JSON object: %s; input %q", e, pan, clip(string(c.cur), 600))
	}
	if err != nil {
		if c.relax {
			r.Probe("sign_refused_after_garbage_signature")
			return
		}
		c.check(false, "sign_total", "error", "SignJSON(%s) refused a valid JSON object: %v; input %q", e, err, clip(string(c.cur), 600))
	}
	m1, perr := parseObject(out)
	c.check(perr == nil, "preserve", "output_not_json", "SignJSON(%s) output is not a JSON object (%v): input %q output %q", e, perr, clip(string(c.cur), 400), clip(string(out), 400))

	// members other than signatures/unsigned keep their value
	p0, p1 := projection(m0), projection(m1)
	c.check(p0 == p1, "preserve", "members", "SignJSON(%s) changed the signed members: before %s after %s", e, clip(p0, 500), clip(p1, 500))
	// unsigned intact
	u0, has0 := m0["unsigned"]
	u1, has1 := m1["unsigned"]
	c.check(has0 == has1 && (!has0 || ref.Render(u0) == ref.Render(u1)), "preserve", "unsigned",
		"SignJSON(%s) did not keep unsigned intact: before present=%v %s after present=%v %s", e, has0, clip(ref.Render(u0), 300), has1, clip(ref.Render(u1), 300))
	// earlier signatures intact, the new one present, nothing else
	s1, ok := m1["signatures"].(map[string]any)
	c.check(ok, "preserve", "signatures_shape", "SignJSON(%s) output has no signatures object: %q", e, clip(string(out), 400))
	s0, _ := m0["signatures"].(map[string]any)
	for _, n := range sortedKeys(s0) {
		ks0, _ := s0[n].(map[string]any)
		ks1, _ := s1[n].(map[string]any)
		for _, k := range sortedKeys(ks0) {
			if n == e.name && k == string(e.kid) {
				continue
			}
			v1, present := ks1[k]
			c.check(present && ref.Render(v1) == ref.Render(ks0[k]), "preserve", "earlier_signature",
				"SignJSON(%s) lost or changed the earlier signature %s/%s: before %s after present=%v %s", e, n, k, ref.Render(ks0[k]), present, ref.Render(v1))
		}
	}
	nsig := 0
	for _, n := range sortedKeys(s1) {
		ks1, isObj := s1[n].(map[string]any)
		if v0, was := s0[n]; was && v0 == nil && s1[n] == nil && n != e.name {
			continue // a bystander's entry that was null before stays as it was
		}
		c.check(isObj, "preserve", "signatures_shape", "signatures[%q] is not an object after SignJSON(%s)", n, e)
		for _, k := range sortedKeys(ks1) {
			nsig++
			if n == e.name && k == string(e.kid) {
				continue
			}
			ks0, _ := s0[n].(map[string]any)
			_, was := ks0[k]
			c.check(was, "preserve", "signature_appeared", "SignJSON(%s) output carries a signature %s/%s that was not there before", e, n, k)
		}
	}
	mine, _ := s1[e.name].(map[string]any)
	_, isStr := mine[string(e.kid)].(string)
	c.check(isStr, "preserve", "own_signature_missing", "SignJSON(%s) output lacks signatures[%q][%q]", e, e.name, e.kid)

	if _, again := c.slots[slotKey{e.name, string(e.kid)}]; again {
		r.Probe("resign_same_name_and_keyid")
	}
	for k := range c.slots {
		if k.name == e.name && k.kid != string(e.kid) {
			r.Probe("sign_same_name_second_keyid")
		}
		if k.name != e.name && k.kid == string(e.kid) {
			r.Probe("same_keyid_under_two_names")
		}
	}
	origSig, _ := mine[string(e.kid)].(string)
	c.slots[slotKey{e.name, string(e.kid)}] = &slot{origin: e.key, proj: p0, intact: true, orig: origSig, how: "fresh"}
	c.signers[e.String()] = true
	c.cur = out
	harnessAssert(nsig == len(c.slots), "slot model (%d) and signatures object (%d) disagree", len(c.slots), nsig)
}

func (c *c02) editUnsigned(h int) {
	r, t := c.r, c.t
	m := c.model()
	g := &gen{t: t, budget: 8, taint: c.taint, probe: r.Probe, lits: true}
	var what string
	switch t.Intn(4) {
	case 0:
		m["unsigned"] = map[string]any{"age": num(int64(t.Intn(100000)))}
		what = "set"
	case 1:
		if u, ok := m["unsigned"].(map[string]any); ok {
			u[fmt.Sprintf("added%d", h)] = g.value(2)
			what = "nested_add"
		} else {
			m["unsigned"] = g.object(1, 2)
			what = "replace"
		}
	case 2:
		delete(m, "unsigned")
		what = "delete"
	case 3:
		m["unsigned"] = g.value(2)
		what = "replace_any"
	}
	c.setWire(m, drawStyle(t))
	r.Fault("add_unsigned")
	c.lastBenign = "unsigned"
	r.Logf("hop %d unsigned %s -> %s", h, what, digest(c.cur))
}

// editable lists the top-level members a corrupt_member fault may touch.
func editable(m map[string]any) []string {
	var ks []string
	for _, k := range sortedKeys(m) {
		if k != "signatures" && k != "unsigned" {
			ks = append(ks, k)
		}
	}
	return ks
}

// different returns a value that differs (as a JSON value) from old.
func (c *c02) different(old any) any {
	g := &gen{t: c.t, budget: 6, taint: c.taint, probe: c.r.Probe, lits: true}
	if n, ok := old.(json.Number); ok && c.t.Bool() {
		// a number close by: the other sign (for the largest magnitudes also in
		// another spelling) - numerically different, so a change
		s := n.String()
		if i := strings.IndexAny(s, "eE"); i > 0 && i+1 < len(s) && s[i+1] == '-' && c.t.Bool() {
			// the other sign of the exponent: 1e-05 -> 1e05
			c.r.Probe("tamper_exponent_sign_flipped")
			return json.Number(s[:i+1] + s[i+2:])
		}
		if strings.Trim(s, "-0.eE+") != "" { // not a zero
			neg := strings.HasPrefix(s, "-")
			mag := strings.TrimPrefix(s, "-")
			if strings.HasPrefix(mag, "9223372036854775808") && c.t.Bool() {
				mag = sim.Pick(c.t, []string{"9223372036854775808", "9223372036854775808.0", "9.223372036854775808e18", "9223372036854775808e0"})
			}
			if neg {
				s = mag
			} else {
				s = "-" + mag
			}
			c.r.Probe("tamper_number_sign_flipped")
			return json.Number(s)
		}
	}
	for i := 0; i < 4; i++ {
		v := g.value(2)
		if ref.Render(v) != ref.Render(old) {
			return v
		}
	}
	return "changed:" + ref.Render(old)
}

func (c *c02) corruptMember(h int) {
	r, t := c.r, c.t
	m := c.model()
	before := projection(m)
	ks := editable(m)
	kind := t.Intn(5)
	if len(ks) == 0 {
		kind = 1
	}
	var what string
	if kind == 4 {
		// a member name repeated on the wire with another value: a reader that
		// keeps the last one (encoding/json, the independent decoder here) sees
		// a changed object
		if w := c.duplicateMember(m, ks); w != "" {
			after := projection(c.model())
			harnessAssert(after != before, "corrupt_member %s did not change the value", w)
			c.faults++
			c.tampers = append(c.tampers, "duplicate")
			r.Fault("corrupt_member")
			r.Probe("corrupt_member_duplicate")
			r.Logf("hop %d corrupt_member %s -> %s", h, w, digest(c.cur))
			return
		}
		kind = 0
	}
	switch kind {
	case 0: // value change
		k := ks[t.Intn(len(ks))]
		m[k] = c.different(m[k])
		what = fmt.Sprintf("value_change %q", k)
	case 1: // insertion
		pool := []string{"inserted", "zz", "signature", "signatures ", "unsigned2", "", "A", "sig.natures", "unsigned.x"}
		if c.taint["casekey"] {
			pool = append(pool, "Signatures", "Unsigned", "unſigned")
		}
		k := pool[t.Intn(len(pool))]
		for i := 0; ; i++ {
			if _, dup := m[k]; !dup {
				break
			}
			k = fmt.Sprintf("%s%d", k, i)
		}
		m[k] = c.different(nil)
		what = fmt.Sprintf("insert %q", k)
	case 2: // deletion
		k := ks[t.Intn(len(ks))]
		delete(m, k)
		what = fmt.Sprintf("delete %q", k)
	case 3: // nested edit
		k := ks[t.Intn(len(ks))]
		nv, desc := c.nestedEdit(m[k], 0)
		m[k] = nv
		what = fmt.Sprintf("nested %q %s", k, desc)
	}
	kindName := []string{"value_change", "insert", "delete", "nested"}[kind]
	after := projection(m)
	harnessAssert(after != before, "corrupt_member %s did not change the value", what)
	c.setWire(m, drawStyle(t))
	c.faults++
	c.tampers = append(c.tampers, kindName)
	r.Fault("corrupt_member")
	r.Probe("corrupt_member_" + kindName)
	r.Logf("hop %d corrupt_member %s -> %s", h, what, digest(c.cur))
}

var simpleKey = regexp.MustCompile(`^[A-Za-z0-9_]+$`)

// duplicateMember rewrites the wire bytes so that one member (top-level, or
// of a top-level object) appears twice, the second time with another value.
// Returns "" if the object has no member it can address.
func (c *c02) duplicateMember(m map[string]any, ks []string) string {
	t := c.t
	if c.dupWire {
		return "" // one repeated name at a time: the reader keeps the last occurrence
	}
	var paths, names []string
	var olds []any
	for _, k := range ks {
		if !simpleKey.MatchString(k) {
			continue
		}
		paths, names, olds = append(paths, k), append(names, k), append(olds, m[k])
		if sub, ok := m[k].(map[string]any); ok {
			for _, k2 := range sortedKeys(sub) {
				if simpleKey.MatchString(k2) {
					paths, names, olds = append(paths, k+"."+k2), append(names, k2), append(olds, sub[k2])
				}
			}
		}
	}
	if len(paths) == 0 {
		return ""
	}
	i := t.Intn(len(paths))
	res := gjson.GetBytes(c.cur, paths[i])
	if !res.Exists() || res.Index <= 0 || res.Index+len(res.Raw) > len(c.cur) || string(c.cur[res.Index:res.Index+len(res.Raw)]) != res.Raw {
		return ""
	}
	name := strconv.Quote(names[i])
	if t.Bool() { // the repeated name spelled with an escape
		name = fmt.Sprintf(`"\u%04x%s"`, names[i][0], names[i][1:])
	}
	nv, err := json.Marshal(c.different(olds[i]))
	harnessAssert(err == nil, "cannot serialise the new value: %v", err)
	ins := "," + name + ":" + string(nv)
	pos := res.Index + len(res.Raw)
	c.cur = append(append(append([]byte{}, c.cur[:pos]...), ins...), c.cur[pos:]...)
	c.dupWire = true
	if _, err := parseObject(c.cur); err != nil {
		harnessAssert(false, "duplicate insertion broke the JSON: %v", err)
	}
	return fmt.Sprintf("duplicate %q", paths[i])
}

// nestedEdit changes something strictly inside v (or v itself when v is a leaf).
func (c *c02) nestedEdit(v any, depth int) (any, string) {
	t := c.t
	switch x := v.(type) {
	case map[string]any:
		ks := sortedKeys(x)
		op := t.Intn(3)
		if len(ks) == 0 {
			op = 1
		}
		switch op {
		case 0:
			k := ks[t.Intn(len(ks))]
			nv, d := c.nestedEdit(x[k], depth+1)
			x[k] = nv
			return x, fmt.Sprintf(".%q%s", k, d)
		case 1:
			k := sim.Pick(t, []string{"n", "signatures", "unsigned", "zz"})
			for i := 0; ; i++ {
				if _, dup := x[k]; !dup {
					break
				}
				k = fmt.Sprintf("%s%d", k, i)
			}
			x[k] = c.different(nil)
			return x, fmt.Sprintf(" +%q", k)
		default:
			k := ks[t.Intn(len(ks))]
			delete(x, k)
			return x, fmt.Sprintf(" -%q", k)
		}
	case []any:
		op := t.Intn(3)
		if len(x) == 0 {
			op = 1
		}
		switch op {
		case 0:
			i := t.Intn(len(x))
			nv, d := c.nestedEdit(x[i], depth+1)
			x[i] = nv
			return x, fmt.Sprintf("[%d]%s", i, d)
		case 1:
			return append(x, c.different(nil)), " append"
		default:
			if len(x) >= 2 && t.Bool() && ref.Render(x[0]) != ref.Render(x[len(x)-1]) {
				x[0], x[len(x)-1] = x[len(x)-1], x[0]
				return x, " swap_first_last"
			}
			i := t.Intn(len(x))
			return append(append([]any{}, x[:i]...), x[i+1:]...), fmt.Sprintf(" -[%d]", i)
		}
	}
	return c.different(v), " leaf"
}

func (c *c02) pickSlot() (slotKey, bool) {
	ks := c.slotKeys()
	if len(ks) == 0 {
		return slotKey{}, false
	}
	return ks[c.t.Intn(len(ks))], true
}

func (c *c02) sigObject(m map[string]any) map[string]any {
	s, ok := m["signatures"].(map[string]any)
	harnessAssert(ok, "signatures is not an object in flight")
	return s
}

func (c *c02) corruptBytes(h int) {
	r, t := c.r, c.t
	k, ok := c.pickSlot()
	if !ok {
		r.Logf("hop %d corrupt_bytes: no signature to corrupt", h)
		return
	}
	m := c.model()
	ent := c.sigObject(m)[k.name].(map[string]any)
	old, _ := ent[k.kid].(string)
	raw, derr := base64.RawStdEncoding.DecodeString(old)
	kind := t.Intn(5)
	if derr != nil || len(raw) == 0 {
		kind = 4
	}
	var nv, what string
	switch kind {
	case 0, 1: // flip one bit
		i := t.Intn(len(raw))
		raw[i] ^= 1 << uint(t.Intn(8))
		nv = base64.RawStdEncoding.EncodeToString(raw)
		what = fmt.Sprintf("bitflip@%d", i)
	case 2: // truncate
		n := t.Range(1, len(raw))
		nv = base64.RawStdEncoding.EncodeToString(raw[:len(raw)-n])
		what = fmt.Sprintf("truncate-%d", n)
	case 3: // extend
		nv = base64.RawStdEncoding.EncodeToString(append(raw, world.CompactBytes(t, "ext", t.Range(1, 4))...))
		what = "extend"
	default: // not base64 at all
		nv = sim.Pick(t, []string{"!!not base64!!", "====", "é"})
		what = "garbage"
		c.relax = true
		r.Probe("garbage_signature_relaxes_completeness")
	}
	ent[k.kid] = nv
	s := c.slots[k]
	// a later fault may undo an earlier one (extend then truncate, the same bit
	// flipped twice): what counts is whether the bytes are the signer's again
	s.intact = s.orig != "" && nv == s.orig
	if s.intact {
		r.Probe("signature_bytes_restored_by_later_fault")
	}
	s.how = "corrupt_bytes_" + strings.SplitN(what, "@", 2)[0]
	c.setWire(m, drawStyle(t))
	c.faults++
	r.Fault("corrupt_bytes")
	r.Logf("hop %d corrupt_bytes %s/%s %s -> %s", h, k.name, k.kid, what, digest(c.cur))
}

func (c *c02) stripSignature(h int) {
	r, t := c.r, c.t
	k, ok := c.pickSlot()
	if !ok {
		r.Logf("hop %d strip_signature: nothing to strip", h)
		return
	}
	m := c.model()
	sigs := c.sigObject(m)
	ent := sigs[k.name].(map[string]any)
	delete(ent, k.kid)
	if len(ent) == 0 && t.Bool() {
		delete(sigs, k.name)
	}
	delete(c.slots, k)
	if len(c.slots) == 0 && t.Bool() {
		delete(m, "signatures")
	}
	c.setWire(m, drawStyle(t))
	c.faults++
	r.Fault("strip_signature")
	r.Logf("hop %d strip_signature %s/%s -> %s", h, k.name, k.kid, digest(c.cur))
}

func (c *c02) copySignature(h int) {
	r, t := c.r, c.t
	k, ok := c.pickSlot()
	if !ok {
		r.Logf("hop %d copy_signature: nothing to copy", h)
		return
	}
	m := c.model()
	sigs := c.sigObject(m)
	val := sigs[k.name].(map[string]any)[k.kid]
	// destination: another name (known or unknown) and/or another key id
	dst := k
	switch t.Intn(3) {
	case 0:
		dst.name = c.ents[t.Intn(len(c.ents))].name
	case 1:
		dst.kid = sim.Pick(t, []string{"ed25519:k1", "ed25519:k2", "ed25519:zz", "ed25519:k1 "})
	case 2:
		dst.name = sim.Pick(t, []string{"nobody.example", strings.ToUpper(k.name), k.name + "."})
	}
	if dst == k {
		for _, e := range c.ents {
			if e.name != k.name {
				dst.name = e.name
				break
			}
		}
	}
	src := c.slots[k]
	if old, exists := c.slots[dst]; exists && old.intact && old.origin != nil && !old.copied {
		r.Probe("copy_overwrites_real_signature")
	}
	if sigs[dst.name] == nil {
		sigs[dst.name] = map[string]any{}
	}
	sigs[dst.name].(map[string]any)[dst.kid] = val
	c.slots[dst] = &slot{origin: src.origin, proj: src.proj, intact: src.intact, orig: src.orig, copied: true, how: "copied"}
	c.setWire(m, drawStyle(t))
	c.faults++
	r.Fault("wrong_key_signature")
	r.Logf("hop %d copy_signature %s/%s -> %s/%s -> %s", h, k.name, k.kid, dst.name, dst.kid, digest(c.cur))
}

// judge calls the real VerifyJSON for one (name, key id, public key) triple
// and compares with ground truth.
func (c *c02) judge(where string, name, kid string, pub ed25519.PublicKey, publabel, projNow string) {
	r := c.r
	r.Op()
	err, pan := safeVerify(name, gmsl.KeyID(kid), pub, c.cur)
	s := c.slots[slotKey{name, kid}]
	r.Logf("%s: VerifyJSON(%s/%s, pub=%s) -> ok=%v panic=%q", where, name, kid, publabel, err == nil && pan == "", pan)
	if pan != "" {
		c.check(false, "verify_panic", "panic", "VerifyJSON(%s/%s) panicked: %s; message %q", name, kid, pan, clip(string(c.cur), 500))
	}
	keyMatches := s != nil && s.origin != nil && bytes.Equal(pub, s.origin.Pub)
	valid := keyMatches && s.intact && s.proj == projNow
	switch {
	case valid && s.copied:
		// forced by the mathematics of ed25519: not judged
		if err == nil {
			r.Probe("copied_signature_verifies_under_origin_key")
		}
	case valid && c.dupWire:
		// the text in flight repeats a member name whose last occurrence
		// happens to restore the signed value: whether such a text "is" the
		// signed object is outside what the completeness clause speaks about
		r.Probe("repeated_name_restores_signed_value_not_judged")
	case valid:
		if err != nil && c.relax {
			r.Probe("verify_refused_after_garbage_signature")
			return
		}
		tag := "fresh"
		if c.lastBenign != "" {
			tag = "after_" + c.lastBenign
		}
		if len(c.tampers) > 0 {
			r.Probe("tamper_reverted_or_resigned")
		}
		c.check(err == nil, "complete", tag, "%s: VerifyJSON(%s/%s) with the signer's own key failed (%v) although the signed members are unchanged by value; message %q", where, name, kid, err, clip(string(c.cur), 600))
		r.Probe("complete_verified")
	case err != nil:
		// must fail, did fail
		if keyMatches && s.intact && s.proj != projNow {
			r.Probe("tamper_detected")
		}
	default:
		// must fail, succeeded
		switch {
		case keyMatches && s.intact:
			tag := "tamper"
			if len(c.tampers) > 0 {
				tag = c.tampers[len(c.tampers)-1]
			}
			c.check(false, "sound_tamper", tag, "%s: VerifyJSON(%s/%s) accepts although a member other than signatures/unsigned changed (faults: %v): signed %s now %s", where, name, kid, c.tampers, clip(s.proj, 400), clip(projNow, 400))
		case keyMatches && !s.intact:
			c.check(false, "sound_sigbytes", s.how, "%s: VerifyJSON(%s/%s) accepts a signature whose bytes were altered (%s)", where, name, kid, s.how)
		default:
			how := "no_such_signature"
			if s != nil {
				how = "wrong_public_key"
				if s.copied {
					how = "copied_signature"
				}
			}
			c.check(false, "sound_identity", how, "%s: VerifyJSON(%s/%s, pub=%s) accepts: %s", where, name, kid, publabel, how)
		}
	}
}

// verifySlots: after each hop every signature present is checked under the
// key that produced it.
func (c *c02) verifySlots(where string) {
	projNow := projection(c.model())
	for _, k := range c.slotKeys() {
		s := c.slots[k]
		if s.origin == nil {
			c.judge(where, k.name, k.kid, c.spare, "spare", projNow)
			continue
		}
		c.judge(where, k.name, k.kid, s.origin.Pub, "origin", projNow)
	}
	c.listKeyIDs(where)
}

func (c *c02) listKeyIDs(where string) {
	r := c.r
	names := map[string]bool{"nobody.example": true}
	for _, e := range c.ents {
		names[e.name] = true
	}
	want := map[string][]string{}
	for _, k := range c.slotKeys() {
		names[k.name] = true
		want[k.name] = append(want[k.name], k.kid)
	}
	for _, n := range sortedKeys(names) {
		r.Op()
		ids, err := gmsl.ListKeyIDs(n, c.cur)
		got := make([]string, 0, len(ids))
		for _, id := range ids {
			got = append(got, string(id))
		}
		sort.Strings(got)
		w := append([]string{}, want[n]...)
		sort.Strings(w)
		r.Logf("%s: ListKeyIDs(%s) -> %v err=%v", where, n, got, err)
		c.check(err == nil && strings.Join(got, "\x00") == strings.Join(w, "\x00") && len(got) == len(w), "listkeyids", "set",
			"%s: ListKeyIDs(%q) = %q err=%v, the object carries %q", where, n, got, err, w)
	}
}

// s0 reports whether pub is the key behind one of the object's signatures.
func s0(c *c02, pub ed25519.PublicKey) bool {
	for _, sk := range c.slotKeys() {
		if s := c.slots[sk]; s.origin != nil && bytes.Equal(s.origin.Pub, pub) {
			return true
		}
	}
	return false
}

// verifyFinal: at the verifier every real and wrong triple is tried.
func (c *c02) verifyFinal() {
	r := c.r
	projNow := projection(c.model())
	type pk struct {
		label string
		pub   ed25519.PublicKey
	}
	var pubs []pk
	for _, e := range c.ents {
		pubs = append(pubs, pk{e.String(), e.key.Pub})
	}
	pubs = append(pubs, pk{"spare", c.spare})
	// every slot and every ledger entity x every public key
	cand := map[slotKey]bool{}
	for _, k := range c.slotKeys() {
		cand[k] = true
	}
	for _, e := range c.ents {
		cand[slotKey{e.name, string(e.kid)}] = true
	}
	// wrong names and wrong key ids around what exists
	for _, k := range c.slotKeys() {
		cand[slotKey{"nobody.example", k.kid}] = true
		cand[slotKey{k.name + ".", k.kid}] = true
		cand[slotKey{strings.ToUpper(k.name), k.kid}] = true
		cand[slotKey{k.name, "ed25519:zz"}] = true
		cand[slotKey{k.name, k.kid + "x"}] = true
		cand[slotKey{k.name, strings.ToUpper(k.kid)}] = true
		cand[slotKey{k.name, ""}] = true
		cand[slotKey{"", k.kid}] = true
		// names and key IDs that would match as patterns or as prefixes
		if len(k.name) > 2 {
			cand[slotKey{k.name[:1] + "?" + k.name[2:], k.kid}] = true
			cand[slotKey{k.name[:len(k.name)/2] + "*", k.kid}] = true
			cand[slotKey{k.name[:len(k.name)-1], k.kid}] = true
		}
		if len(k.kid) > 2 {
			cand[slotKey{k.name, k.kid[:len(k.kid)-1] + "?"}] = true
			cand[slotKey{k.name, k.kid[:len(k.kid)/2] + "*"}] = true
			cand[slotKey{k.name, k.kid[:len(k.kid)-1]}] = true
		}
		cand[slotKey{"*", k.kid}] = true
		cand[slotKey{k.name, "*"}] = true
		cand[slotKey{"*", "*"}] = true
		cand[slotKey{"#", k.kid}] = true
	}
	var cs []slotKey
	for k := range cand {
		cs = append(cs, k)
	}
	sort.Slice(cs, func(i, j int) bool {
		if cs[i].name != cs[j].name {
			return cs[i].name < cs[j].name
		}
		return cs[i].kid < cs[j].kid
	})
	for _, k := range cs {
		_, isSlot := c.slots[k]
		for _, p := range pubs {
			if !isSlot {
				// for a triple with no signature behind it, try the keys of the
				// slots it imitates only (keeps a run small)
				near := false
				for _, sk := range c.slotKeys() {
					s := c.slots[sk]
					if s.origin != nil && bytes.Equal(s.origin.Pub, p.pub) && (strings.EqualFold(strings.TrimSuffix(k.name, "."), sk.name) || k.kid == sk.kid || k.name == sk.name) {
						near = true
					}
				}
				if !near && !(strings.ContainsAny(k.name+k.kid, "*?#") && s0(c, p.pub)) {
					continue
				}
			}
			c.judge("verifier", k.name, k.kid, p.pub, p.label, projNow)
		}
	}
	c.listKeyIDs("verifier")
	r.Logf("verifier done: slots=%d faults=%d tampers=%v", len(c.slots), c.faults, c.tampers)
}
