// relaysim: one signed object (C02) or one built event (C04) travels
// origin -> relay1..relayN -> verifier. Every hop applies a tape-chosen benign
// transformation or fault; a ground-truth ledger records what each entity
// really signed (as a JSON value) and what each hop really did.
package relaysim

import (
	"encoding/json"
	"fmt"
	"hash/fnv"
	"os"
	"sort"
	"strings"
	"testing"

	"verifharness/ref"
	"verifharness/sim"
)

// RELAYSIM_DISABLE=esckey,casekey,signull switches off the generation of the
// input shapes named (used while studying a finding, so that the remaining
// space can be explored; the registered checks never set it).
var disabled = func() map[string]bool {
	m := map[string]bool{}
	for _, s := range strings.Split(os.Getenv("RELAYSIM_DISABLE"), ",") {
		if s = strings.TrimSpace(s); s != "" {
			m[s] = true
		}
	}
	return m
}()

type stopRun struct{}

// bail ends the run body quietly (after a known finding was matched the
// world is no longer consistent, so the run stops there).
func bail() { panic(stopRun{}) }

func body(r *sim.Run) {
	defer func() {
		if p := recover(); p != nil {
			if _, ok := p.(stopRun); ok {
				return
			}
			panic(p)
		}
	}()
	if r.Focus("C04") {
		runC04(r)
		return
	}
	runC02(r)
}

// check evaluates an oracle; when the violation matched a known finding the
// run is ended quietly.
func check(r *sim.Run, ok bool, prop, oracle, sig, format string, a ...any) {
	if ok {
		return
	}
	r.Violate(prop, oracle, sig, format, a...)
	bail()
}

// harnessAssert is for conditions only a harness bug can break.
func harnessAssert(ok bool, format string, a ...any) {
	if !ok {
		panic("relaysim harness bug: " + fmt.Sprintf(format, a...))
	}
}

func digest(b []byte) string {
	h := fnv.New64a()
	h.Write(b)
	return fmt.Sprintf("%d:%016x", len(b), h.Sum64())
}

func clip(s string, n int) string {
	if len(s) <= n {
		return s
	}
	return s[:n] + fmt.Sprintf("...(+%d)", len(s)-n)
}

func sortedKeys[V any](m map[string]V) []string {
	ks := make([]string, 0, len(m))
	for k := range m {
		ks = append(ks, k)
	}
	sort.Strings(ks)
	return ks
}

func parseObject(b []byte) (map[string]any, error) {
	v, err := ref.ParseJSON(b)
	if err != nil {
		return nil, err
	}
	o, ok := v.(map[string]any)
	if !ok {
		return nil, fmt.Errorf("not a JSON object")
	}
	return o, nil
}

// clone deep-copies a value tree.
func clone(v any) any {
	switch x := v.(type) {
	case map[string]any:
		o := make(map[string]any, len(x))
		for k, e := range x {
			o[k] = clone(e)
		}
		return o
	case []any:
		o := make([]any, len(x))
		for i, e := range x {
			o[i] = clone(e)
		}
		return o
	}
	return v
}

func num(i int64) json.Number { return json.Number(fmt.Sprintf("%d", i)) }

// taints is the sorted set of special input shapes present in a run; it is
// appended to every signature tag so that a finding tied to one shape can be
// told apart from everything else.
type taints map[string]bool

// defectOracle: a run that contains one of the special input shapes reports
// every violation under an oracle id of its own (the clause that failed moves
// into the signature), so that a finding tied to that shape never hides, and
// is never hidden by, what the ordinary runs find.
var defectOracle = map[string][3]string{
	// property -> taint (in priority order) -> oracle id
	"C02": {"", "", ""}, // the three C02 shape defects were repaired in /repo (fix: commits)
	"C04": {"casekey=case_variant_key", "", ""},
}

func (t taints) route(prop, oracle, tag string) (string, string) {
	for _, e := range defectOracle[prop] {
		if e == "" {
			continue
		}
		kv := strings.SplitN(e, "=", 2)
		if t[kv[0]] {
			return kv[1], oracle + ":" + tag + t.String()
		}
	}
	return oracle, tag + t.String()
}

func (t taints) String() string {
	if len(t) == 0 {
		return ""
	}
	return "+" + strings.Join(sortedKeys(t), "+")
}

// ---------------------------------------------------------------------------
// value generator

type gen struct {
	t      *sim.Tape
	budget int
	taint  taints
	probe  func(string)
	// lits: also draw number literals that are no plain integers (fractions,
	// exponents, beyond 64 bits). Plain JSON signing passes a number through
	// as it is spelled; events (canonical JSON enforced from room version 6)
	// may not carry them, so only the C02 workload sets this.
	lits bool
	// pendingKey: the other half of a prefix pair, for the next member drawn
	pendingKey string
}

// numLitPool: spellings a signer must leave alone (none is a negative zero,
// the one number canonical JSON rewrites).
var numLitPool = []string{"1.0", "1e5", "1E2", "1.5", "0.1e-2", "2.5e-3", "100000.0", "123456789012345678901234567890",
	"9223372036854775808.0", "-9223372036854775808", "9223372036854775807.0", "9.223372036854775808e18", "-9223372036854775808.0", "18446744073709551616", "-1e400", "4.9e-324", "1e-05", "-0.5", "-0.25e1", "7E-03"}

var plainKeys = []string{"a", "b", "k1", "name", "type", "content", "value", "list", "depth", "é", "日本", "😀k",
	"a.b", "*", "#", "?x", "a|b", "@", "%", "sig natures", "signatures.x", "unsigned.y", "0", "-1", "", " ", "A", "Z", "_", "~", "\u007f", "\u2028",
	// members that event handling strips or treats specially; JSON signing gives them no special role
	"age_ts", "event_id", "outlier", "destinations", "origin", "prev_events", "auth_events", "redacts"}
var nestedOnlyKeys = []string{"signatures", "unsigned", "hashes"}
var escKeys = []string{"q\"q", "b\\s", "nl\nx", "ctl\x01", "tab\t", "\\", "\""}
var caseKeys = []string{"Signatures", "UNSIGNED", "Unsigned", "unſigned", "ſignatures", "SIGNATURES"}

var stringPool = []string{"", "x", "hello world", "\u00e9", "e\u0301", "日本語", "😀", "a\"b", "back\\slash", "line\nbreak", "tab\t", "\x01", "\x1f", "\x7f", "<>&",
	"\u2028\u2029", "/path/to", "\ufffd", "\uffff", "\U0010FFFF", "nul\x00l", "0123456789012345678901234567890123456789", "true", "null", "{}", "\\u0041"}

var intPool = []int64{0, 1, -1, 42, 1 << 31, 1<<53 - 1, -(1<<53 - 1), 1 << 32, -1 << 31, 9007199254740990, 100, 50}

// prefixPairs: two member names of which one is a prefix of the other and the
// longer goes on with a character below the quotation mark (or the shorter
// ends in one that needs escaping): their order by name differs from the
// order of their texts as written between quotation marks.
var prefixPairs = [][2]string{{"m.tag", "m.tag extra"}, {"a", "a!"}, {"body", "body !"}, {"say\"", "sayA"}, {"k\\", "kz"}}

func (g *gen) key(depth int, used map[string]any) string {
	if g.pendingKey != "" {
		k := g.pendingKey
		g.pendingKey = ""
		if _, dup := used[k]; !dup {
			g.noteKey(k, depth)
			g.probe("gen_member_names_prefix_pair")
			return k
		}
	}
	for tries := 0; ; tries++ {
		var k string
		c := g.t.Intn(20)
		switch {
		case c == 16 && !disabled["esckey"]:
			pr := sim.Pick(g.t, prefixPairs)
			i := g.t.Intn(2)
			k, g.pendingKey = pr[i], pr[1-i]
		case c == 17 && depth > 0:
			k = sim.Pick(g.t, nestedOnlyKeys)
		case c == 18 && !disabled["esckey"]:
			k = sim.Pick(g.t, escKeys)
		case c == 19 && !disabled["casekey"]:
			k = sim.Pick(g.t, caseKeys)
		default:
			k = sim.Pick(g.t, plainKeys)
		}
		if tries > 4 {
			k = fmt.Sprintf("%s_%d", k, len(used))
		}
		if _, dup := used[k]; dup {
			continue
		}
		g.noteKey(k, depth)
		return k
	}
}

func isEscKey(k string) bool {
	for _, r := range k {
		if r == '"' || r == '\\' || r < 0x20 {
			return true
		}
	}
	return false
}

func isCaseKey(k string) bool {
	if k == "signatures" || k == "unsigned" {
		return false
	}
	f := strings.ToLower(strings.ReplaceAll(k, "ſ", "s"))
	return f == "signatures" || f == "unsigned"
}

func (g *gen) noteKey(k string, depth int) {
	if isEscKey(k) {
		g.taint["esckey"] = true
		g.probe("gen_key_needing_escape")
	}
	if depth == 0 && isCaseKey(k) {
		g.taint["casekey"] = true
		g.probe("gen_case_variant_key")
	}
}

func (g *gen) str() string {
	if g.t.Intn(4) == 3 {
		n := g.t.Range(1, 12)
		var sb strings.Builder
		for i := 0; i < n; i++ {
			sb.WriteRune(sim.Pick(g.t, []rune{'a', 'Z', '0', ' ', '/', '"', '\\', 'é', 'ß', '中', '😀', '\n', ' ', '<', '\x7f', '\x02'}))
		}
		return sb.String()
	}
	return sim.Pick(g.t, stringPool)
}

func (g *gen) integer() json.Number {
	if g.lits && g.t.Chance(100) {
		g.probe("gen_number_literal_not_a_plain_integer")
		return json.Number(sim.Pick(g.t, numLitPool))
	}
	switch g.t.Intn(4) {
	case 1:
		return num(int64(g.t.Intn(1<<20)) - 1<<19)
	case 2:
		v := int64(g.t.Uint64() % (1 << 53))
		if g.t.Bool() {
			v = -v
		}
		if v > 1<<31 || v < -(1<<31) {
			g.probe("gen_int_beyond_32bit")
		}
		return num(v)
	}
	return num(sim.Pick(g.t, intPool))
}

// value draws a JSON value. 0 on the tape gives a small integer.
func (g *gen) value(depth int) any {
	g.budget--
	n := 7
	if depth >= 3 || g.budget <= 0 {
		n = 5
	}
	switch g.t.Intn(n) {
	case 0:
		return g.integer()
	case 1:
		return g.str()
	case 2:
		return g.t.Bool()
	case 3:
		return nil
	case 4:
		return g.integer()
	case 5:
		return g.object(depth+1, g.t.Range(0, 4))
	default:
		m := g.t.Range(0, 4)
		a := make([]any, 0, m)
		for i := 0; i < m && g.budget > 0; i++ {
			a = append(a, g.value(depth+1))
		}
		return a
	}
}

func (g *gen) object(depth, members int) map[string]any {
	o := map[string]any{}
	for i := 0; i < members && g.budget > 0; i++ {
		k := g.key(depth, o)
		o[k] = g.value(depth)
	}
	return o
}

// ---------------------------------------------------------------------------

func TestEngine(t *testing.T) {
	sim.Main(t, &sim.Engine{
		Name: "relaysim",
		Body: body,
		Rule: func(prop string) string {
			if prop == "C04" {
				return "one run = one event of a tape-chosen type built with the real EventBuilder.Build (plus PDU.Sign for invited / authorising servers) in a room version drawn uniformly from gomatrixserverlib.RoomVersions() (unstable ones included), sent as JSON through 0-4 relay hops; each hop re-serialises (whitespace, key order, escape spelling) and applies by tape nothing, stripped-on-receipt keys (unsigned, age_ts, outlier, destinations, event_id in event-format-v2 versions) or a fault (edit/insert/delete of a content key outside the specification's keep-list, extra / edited / deleted non-kept top-level key, altered hashes.sha256); after every hop a receiver parses the copy with NewEventFromUntrustedJSON and all accessors are compared with ground truth; non-trivial = at least one fault or stripped-key injection fired; distinct = distinct event-log hash"
			}
			return "one run = one generated JSON object (nesting <=3, keys and strings needing escapes, integers to +-(2^53-1), optional unsigned / pre-existing signatures) signed with the real SignJSON by 1-4 entities (seeded ed25519 keys, same name with two key ids, same key id under several names) with 0-6 relay hops in between, each hop by tape: re-serialise, another entity signs, edit unsigned, or a fault (corrupt_member: value change / insertion / deletion / nested edit; corrupt_bytes in a signature; strip_signature; signature copied under another name or key id); after every hop and at the verifier VerifyJSON is called for real and wrong (name, key id, public key) triples and ListKeyIDs for every name, against a ledger of what was signed as a JSON value; non-trivial = at least one fault fired or two or more distinct signers; distinct = distinct event-log hash"
		},
		Real: []string{"SignJSON", "VerifyJSON", "ListKeyIDs", "CanonicalJSON (via signing)", "EventBuilder.Build", "PDU.Sign", "IRoomVersion.NewEventFromUntrustedJSON",
			"IRoomVersion.RedactEventJSON (via parse and signature check)", "VerifyEventSignatures", "JSONVerifierSelf (pseudo-ID rooms)", "PDU accessors"},
		Stub: []string{"relays (harness JSON re-serialiser and structured fault injector)", "key lookup (world.Verifier answering from the key ledger)", "JSON value comparison (encoding/json decoder + harness/ref renderer)"},
		Assumptions: []string{
			"two JSON texts denote the same value iff encoding/json (UseNumber) decodes them to equal trees; generated numbers are integers within +-(2^53-1) written without exponent, objects have no duplicate keys, strings are valid UTF-8",
			"a signature copied by a relay under another name or key id is mathematically valid under the original signer's public key; VerifyJSON succeeding for (other name, original key) is therefore not judged (the verifier would look up the other name's key, for which failure is demanded)",
			"the redaction keep-lists in harness/ref/redaction.go are a faithful transcription of the Matrix specification; unstable room versions get the most permissive list of their possible base versions",
			"a bit flipped in an ed25519 signature never yields another valid signature (probability 2^-250)",
		},
	})
}
