package relaysim

import (
	"crypto/sha256"
	"context"
	"crypto/ed25519"
	"encoding/base64"
	"bytes"
	"encoding/json"
	"fmt"
	"runtime/debug"
	"sort"
	"strings"
	"time"

	gmsl "github.com/matrix-org/gomatrixserverlib"
	"github.com/matrix-org/gomatrixserverlib/spec"

	"verifharness/ref"
	"verifharness/sim"
	"verifharness/world"
)

// keys the receiving side strips before anything else (property text).
var strippedAlways = []string{"unsigned", "age_ts", "outlier", "destinations"}

const (
	numMarker   = 424242    // injected where a number is needed (depth, origin_server_ts)
	ageMarker   = 987654321 // injected age_ts
	stickyMilli = 3600000   // injected sticky duration
	pseudoIDVer = "org.matrix.msc4014"
)

type obs struct{ name, val string }

type c04 struct {
	dupFront bool // a forged copy of a top-level member was spliced in front of the genuine one
	r       *sim.Run
	t       *sim.Tape
	ver     gmsl.IRoomVersion
	verName string
	keep    *ref.KeepList
	fmtV2   bool
	evType  string

	built      gmsl.PDU
	builtID    string
	orig       map[string]any
	origProj   string
	origHashes string
	origObs    []obs
	origJSON   string // value of the built event minus stripped keys

	cur      []byte
	markers  []string
	nmark    int
	taint    taints
	sticky   bool // a sticky key was injected
	fired    []string
	verifier *world.Verifier
	received time.Time
}

func (c *c04) check(ok bool, oracle, tag, format string, a ...any) {
	if ok {
		return
	}
	o, s := c.taint.route("C04", oracle, tag)
	c.r.Violate("C04", o, s, format, a...)
	bail()
}

func (c *c04) marker() string {
	c.nmark++
	m := fmt.Sprintf("MRK%dqZx7", c.nmark)
	c.markers = append(c.markers, m)
	return m
}

func (c *c04) stripped() []string {
	ks := append([]string{"signatures", "hashes"}, strippedAlways...)
	if c.fmtV2 {
		ks = append(ks, "event_id")
	}
	return ks
}

// hashedProj is the value the content hash covers.
func (c *c04) hashedProj(m map[string]any) string {
	return ref.Render(ref.Without(m, c.stripped()...))
}

func (c *c04) receiptStripped() []string {
	ks := append([]string{}, strippedAlways...)
	if c.fmtV2 {
		ks = append(ks, "event_id")
	}
	return ks
}

func userIDForSender(roomID spec.RoomID, senderID spec.SenderID) (*spec.UserID, error) {
	return spec.NewUserID(string(senderID), true)
}

func b64url43(t *sim.Tape) string {
	return base64.RawURLEncoding.EncodeToString(world.CompactBytes(t, "id", 32))
}

var eventTypes = []string{"m.room.message", "m.room.member", "m.room.create", "m.room.join_rules", "m.room.power_levels",
	"m.room.aliases", "m.room.history_visibility", "m.room.redaction", "m.room.topic", "org.example.custom", "m.room.third_party_invite", "m.room.name"}

func safeCall(f func()) (pan string) {
	defer func() {
		if p := recover(); p != nil {
			pan = fmt.Sprintf("%v at %s", p, libSite(string(debug.Stack())))
		}
	}()
	f()
	return
}

// observe collects everything a caller can see of a PDU.
func observe(p gmsl.PDU, received time.Time) []obs {
	var out []obs
	add := func(name string, f func() string) {
		var v string
		if pan := safeCall(func() { v = f() }); pan != "" {
			v = "PANIC " + pan
		}
		out = append(out, obs{name, v})
	}
	add("EventID", func() string { return p.EventID() })
	add("Type", func() string { return p.Type() })
	add("StateKey", func() string {
		if sk := p.StateKey(); sk != nil {
			return "=" + *sk
		}
		return "<nil>"
	})
	add("Content", func() string {
		if v, err := ref.ParseJSON(p.Content()); err == nil {
			return ref.Render(v)
		}
		return "RAW " + string(p.Content())
	})
	add("SenderID", func() string { return string(p.SenderID()) })
	add("RoomID", func() string { rid := p.RoomID(); return rid.String() })
	add("Redacts", func() string { return p.Redacts() })
	add("Depth", func() string { return fmt.Sprint(p.Depth()) })
	add("OriginServerTS", func() string { return fmt.Sprint(int64(p.OriginServerTS())) })
	add("PrevEventIDs", func() string { return fmt.Sprintf("%q", p.PrevEventIDs()) })
	add("AuthEventIDs", func() string { return fmt.Sprintf("%q", p.AuthEventIDs()) })
	add("Version", func() string { return string(p.Version()) })
	add("Membership", func() string { v, err := p.Membership(); return fmt.Sprintf("%q err=%v", v, err != nil) })
	add("JoinRule", func() string { v, err := p.JoinRule(); return fmt.Sprintf("%q err=%v", v, err != nil) })
	add("HistoryVisibility", func() string { v, err := p.HistoryVisibility(); return fmt.Sprintf("%q err=%v", v, err != nil) })
	add("PowerLevels", func() string {
		v, err := p.PowerLevels()
		if err != nil || v == nil {
			return fmt.Sprintf("err=%v", err != nil)
		}
		return fmt.Sprintf("%+v", *v)
	})
	add("StickyEndTimeZero", func() string { return fmt.Sprint(p.StickyEndTime(received).IsZero()) })
	// not compared with the built event, only searched for markers:
	add("Unsigned", func() string { return string(p.Unsigned()) })
	add("ToHeaderedJSON", func() string { b, err := p.ToHeaderedJSON(); return fmt.Sprintf("%s err=%v", b, err != nil) })
	add("JSON", func() string { return string(p.JSON()) })
	return out
}

var notCompared = map[string]bool{"Unsigned": true, "ToHeaderedJSON": true, "JSON": true}

func runC04(r *sim.Run) {
	t := r.T
	c := &c04{r: r, t: t, taint: taints{}}
	base := time.Unix(1700000000, 0)
	c.received = base.Add(48 * time.Hour)

	// ---- room version: uniformly from the whole registered table
	var vers []string
	for v := range gmsl.RoomVersions() {
		vers = append(vers, string(v))
	}
	sort.Strings(vers)
	c.verName = vers[t.Intn(len(vers))]
	c.ver = gmsl.MustGetRoomVersion(gmsl.RoomVersion(c.verName))
	var known bool
	c.keep, known = ref.RedactionKeepList(c.verName)
	if !known {
		r.Probe("room_version_unknown_to_reference_table")
	}
	c.fmtV2 = c.ver.EventFormat() == gmsl.EventFormatV2
	r.Probe("version_" + c.verName)

	// ---- world
	led := world.NewLedger()
	origin := led.Add(world.NewCompactServer(t, "origin.example", base))
	remote := led.Add(world.NewCompactServer(t, "remote.example", base))
	auth := led.Add(world.NewCompactServer(t, "auth.example:8448", base))
	c.verifier = &world.Verifier{L: led}
	pseudo := c.verName == pseudoIDVer
	userKey := world.NewCompactKey(t, "user")
	otherKey := world.NewCompactKey(t, "other")
	sender := "@alice:" + string(origin.Name)
	other := "@bob:" + string(remote.Name)
	if pseudo {
		sender = string(spec.SenderIDFromPseudoIDKey(userKey))
		other = string(spec.SenderIDFromPseudoIDKey(otherKey))
	}
	faultMode := t.Intn(4)

	// ---- the event
	c.evType = eventTypes[t.Weighted([]int{3, 6, 2, 2, 2, 1, 1, 2, 1, 1, 1, 1})]
	eb := c.ver.NewEventBuilder()
	eb.SenderID = sender
	eb.Type = c.evType
	eb.RoomID = "!room" + fmt.Sprint(t.Intn(100)) + ":" + string(origin.Name)
	if c.ver.DomainlessRoomIDs() {
		eb.RoomID = "!" + b64url43(t)
	}
	mkIDs := func(n int) []string {
		ids := make([]string, 0, n)
		for i := 0; i < n; i++ {
			if c.fmtV2 {
				ids = append(ids, "$"+b64url43(t))
			} else {
				ids = append(ids, fmt.Sprintf("$ev%d:%s", t.Intn(1000), origin.Name))
			}
		}
		return ids
	}
	eb.PrevEvents = mkIDs(t.Range(0, 2))
	eb.AuthEvents = mkIDs(t.Range(0, 3))
	eb.Depth = int64(t.Range(1, 50))
	empty := ""
	var extraSigners []*world.Server
	var pseudoInvitee ed25519.PrivateKey
	content := map[string]any{}
	g := &gen{t: t, budget: 10, taint: taints{}, probe: func(string) {}}
	switch c.evType {
	case "m.room.message":
		content["msgtype"] = "m.text"
		content["body"] = g.str()
	case "m.room.member":
		ms := sim.Pick(t, []string{"join", "invite", "leave", "ban", "knock"})
		if pseudo && ms == "join" {
			ms = "leave" // a pseudo-ID join needs a signed mxid_mapping; not this engine's subject
		}
		content["membership"] = ms
		sk := sender
		if ms == "invite" || ms == "ban" || t.Bool() && ms == "leave" {
			sk = other
		}
		eb.StateKey = &sk
		if ms == "invite" {
			if pseudo {
				pseudoInvitee = otherKey
			} else {
				extraSigners = append(extraSigners, remote)
			}
		}
		if t.Bool() {
			content["displayname"] = g.str()
		}
		if t.Bool() {
			content["avatar_url"] = "mxc://origin.example/abc"
		}
		if t.Intn(3) == 2 {
			content["reason"] = "because"
		}
		if ms == "join" && t.Intn(3) != 0 {
			content["join_authorised_via_users_server"] = "@carol:" + string(auth.Name)
			extraSigners = append(extraSigners, auth)
		}
		if ms == "invite" && t.Intn(4) != 0 {
			content["third_party_invite"] = map[string]any{"display_name": "b...@example.org",
				"signed": map[string]any{"mxid": sk, "token": "tok", "signatures": map[string]any{"id.example": map[string]any{"ed25519:0": "c2ln"}}}}
		}
	case "m.room.create":
		eb.StateKey = &empty
		if c.ver.DomainlessRoomIDs() {
			eb.RoomID = ""
		} else {
			content["creator"] = sender
		}
		content["room_version"] = c.verName
		if t.Bool() {
			content["m.federate"] = true
		}
		if t.Bool() {
			content["predecessor"] = map[string]any{"room_id": "!old:origin.example", "event_id": "$old"}
		}
	case "m.room.join_rules":
		eb.StateKey = &empty
		content["join_rule"] = sim.Pick(t, []string{"public", "invite", "restricted", "knock"})
		if t.Bool() {
			content["allow"] = []any{map[string]any{"type": "m.room_membership", "room_id": "!other:origin.example"}}
		}
	case "m.room.power_levels":
		eb.StateKey = &empty
		// room versions 1-5 do not insist on canonical numbers: levels may be
		// spelt in forms that a float64 round trip would rewrite
		lax := map[string]bool{"1": true, "2": true, "3": true, "4": true, "5": true}[c.verName] && t.Chance(400)
		if lax {
			r.Probe("c04_numbers_in_non_canonical_form")
		}
		for _, k := range []string{"ban", "events_default", "kick", "redact", "state_default", "users_default", "invite"} {
			if t.Bool() {
				content[k] = num(int64(t.Range(0, 100)))
				if lax && t.Bool() {
					content[k] = json.Number(sim.Pick(t, []string{"50.0", "1e2", "9007199254740993", "-0", "1.5e1", "100.00"}))
				}
			}
		}
		if t.Bool() {
			content["users"] = map[string]any{sender: num(100)}
		}
		if t.Bool() {
			content["events"] = map[string]any{"m.room.name": num(50)}
		}
		if t.Bool() {
			content["notifications"] = map[string]any{"room": num(50)}
		}
	case "m.room.aliases":
		sk := string(origin.Name)
		eb.StateKey = &sk
		content["aliases"] = []any{"#a:" + string(origin.Name)}
	case "m.room.history_visibility":
		eb.StateKey = &empty
		content["history_visibility"] = sim.Pick(t, []string{"shared", "joined", "invited", "world_readable"})
	case "m.room.redaction":
		target := mkIDs(1)[0]
		eb.Redacts = target
		if t.Bool() {
			content["redacts"] = target
		}
		if t.Bool() {
			content["reason"] = "spam"
		}
	case "m.room.third_party_invite":
		sk := "tok123"
		eb.StateKey = &sk
		content["display_name"] = "b...@example.org"
		content["key_validity_url"] = "https://id.example/valid"
		content["public_key"] = "abc"
	default:
		if t.Bool() {
			eb.StateKey = &empty
		}
		content[strings.TrimPrefix(c.evType, "m.room.")] = g.str()
	}
	// arbitrary extra content (keys that need no escaping; integers only)
	for i, n := 0, t.Range(0, 2); i < n; i++ {
		k := sim.Pick(t, []string{"x_extra", "org.example.note", "é", "list", "zz"})
		if _, dup := content[k]; !dup {
			content[k] = cleanValue(g.value(2))
		}
	}
	if !pseudo && len(extraSigners) == 0 && t.Intn(4) == 3 {
		// any event may carry further signatures (e.g. of a server that relayed it)
		extraSigners = append(extraSigners, remote)
	}
	eb.Content = spell(content, style{})
	if t.Intn(4) == 3 {
		eb.Unsigned = []byte(`{"age":5,"builder":"x"}`)
	}
	now := base.Add(time.Duration(t.Intn(100000)) * time.Second)

	var ev gmsl.PDU
	var berr error
	pan := safeCall(func() {
		if pseudo {
			ev, berr = eb.Build(now, spec.ServerName(sender), "ed25519:1", userKey)
		} else {
			k := origin.Current()
			ev, berr = eb.Build(now, origin.Name, k.ID, k.Priv)
		}
		if berr != nil {
			return
		}
		for _, s := range extraSigners {
			k := s.Current()
			ev = ev.Sign(string(s.Name), k.ID, k.Priv)
		}
		if pseudoInvitee != nil {
			ev = ev.Sign(other, "ed25519:1", pseudoInvitee)
		}
	})
	r.Op()
	r.Logf("C04 version=%s type=%s faultmode=%d signers=%d content=%s", c.verName, c.evType, faultMode, 1+len(extraSigners), clip(ref.Render(content), 300))
	c.check(pan == "" && berr == nil, "build", "refused", "EventBuilder.Build / Sign failed for a well-formed %s event in room version %s: err=%v panic=%q content=%s", c.evType, c.verName, berr, pan, clip(ref.Render(content), 400))
	c.built = ev
	c.builtID = ev.EventID()
	var err error
	c.orig, err = parseObject(ev.JSON())
	harnessAssert(err == nil, "built event JSON does not parse: %v", err)
	c.origProj = c.hashedProj(c.orig)
	c.origHashes = ref.Render(c.orig["hashes"])
	// The content hash an event carries is the one every correct server
	// computes: SHA-256 over the canonical form of the event without unsigned,
	// signatures and hashes. A library that hashes some other byte sequence
	// turns every honest remote event of that shape into a redacted one. The
	// independent canonical form here is encoding/json's (sorted member names,
	// no HTML escaping), used only where it coincides with Matrix canonical
	// JSON: no control characters, no U+2028/2029, no U+FFFD anywhere.
	if body := ref.Without(c.orig, "unsigned", "signatures", "hashes"); plainEnough(body) {
		var buf bytes.Buffer
		enc := json.NewEncoder(&buf)
		enc.SetEscapeHTML(false)
		if enc.Encode(body) == nil {
			sum := sha256.Sum256(bytes.TrimRight(buf.Bytes(), "\n"))
			want := base64.RawStdEncoding.EncodeToString(sum[:])
			got := ""
			if h, ok := c.orig["hashes"].(map[string]any); ok {
				got, _ = h["sha256"].(string)
			}
			r.Probe("built_hash_compared_with_independent_canonical_form")
			c.check(got == want, "control_intact", "built_hash", "the content hash of a built %s event (%s) is not the SHA-256 of its canonical form (%s): content=%s", c.evType, got, want, clip(ref.Render(content), 400))
		}
	}
	c.origJSON = ref.Render(ref.Without(c.orig, c.receiptStripped()...))
	c.origObs = observe(ev, c.received)
	if len(extraSigners) > 0 || pseudoInvitee != nil {
		// PDU.Sign hands back a copy; take the baseline from a trusted re-parse
		// of the JSON that is actually sent, and note when the two disagree
		// (that would be a defect of Sign, not of untrusted parsing).
		if re, rerr := c.ver.NewEventFromTrustedJSON(ev.JSON(), false); rerr == nil {
			reObs := observe(re, c.received)
			for i := range reObs {
				if reObs[i].val != c.origObs[i].val {
					r.Probe("pdu_sign_result_differs_from_reparse_" + reObs[i].name)
					r.Logf("note: %s() of the PDU returned by Sign is %s, of the same JSON re-parsed %s", reObs[i].name, clip(c.origObs[i].val, 200), clip(reObs[i].val, 200))
				}
			}
			c.origObs = reObs
			c.builtID = re.EventID()
		}
	}
	r.Logf("built id=%s json=%s", c.builtID, clip(string(ev.JSON()), 700))
	if len(extraSigners) > 0 || pseudoInvitee != nil {
		r.Probe("event_with_several_signers")
	}

	// ---- hop 0: the untouched copy (control), then the relays
	c.cur = append([]byte{}, ev.JSON()...)
	c.receive(0)
	hops := t.Range(0, 4)
	for h := 1; h <= hops; h++ {
		m, perr := parseObject(c.cur)
		harnessAssert(perr == nil, "copy in flight does not parse: %v", perr)
		n := 1
		if faultMode >= 2 {
			n = t.Range(1, 3)
		}
		for i := 0; i < n; i++ {
			c.act(h, m, faultMode)
		}
		st := drawStyle(t)
		c.cur = spell(m, st)
		back, berr := parseObject(c.cur)
		harnessAssert(berr == nil && ref.Render(back) == ref.Render(m), "speller changed the value (style %v)", st)
		if !st.plain() {
			r.Fault("reserialise")
		}
		r.Logf("hop %d emitted %v -> %s", h, st, digest(c.cur))
		c.receive(h)
	}
	r.Nontriv = len(c.fired) > 0
	r.State(fmt.Sprintf("%s|%s|%v", c.verName, c.evType, c.fired))
}

// cleanValue removes keys that need escaping from generated content (the
// event workload is not about them) — values stay arbitrary.
func cleanValue(v any) any {
	switch x := v.(type) {
	case map[string]any:
		o := map[string]any{}
		for _, k := range sortedKeys(x) {
			if isEscKey(k) {
				continue
			}
			o[k] = cleanValue(x[k])
		}
		return o
	case []any:
		o := make([]any, len(x))
		for i, e := range x {
			o[i] = cleanValue(e)
		}
		return o
	}
	return v
}

type path []string

// redactableContent lists content paths outside the keep-list.
func (c *c04) redactableContent(content map[string]any) []path {
	var out []path
	for _, k := range sortedKeys(content) {
		if !c.keep.ContentKept(c.evType, k) {
			out = append(out, path{k})
			continue
		}
		if sub := c.keep.ContentSub(c.evType, k); sub != nil {
			if o, ok := content[k].(map[string]any); ok {
				for _, sk := range sortedKeys(o) {
					if !sub[sk] {
						out = append(out, path{k, sk})
					}
				}
			}
		}
	}
	return out
}

func (c *c04) fire(kind string) {
	c.fired = append(c.fired, kind)
	c.r.Fault(kind)
}

// act applies one tape-chosen action of a relay to the copy in flight.
func (c *c04) act(h int, m map[string]any, faultMode int) {
	r, t := c.r, c.t
	// none, stripped key, content edit / insert / delete, top insert, top insert (case variant), top edit/delete, hash
	w := [][]int{
		{1, 0, 0, 0, 0, 0, 0, 0, 0},
		{2, 3, 0, 0, 0, 0, 0, 0, 0},
		{4, 2, 2, 2, 1, 2, 1, 1, 1},
		{1, 2, 3, 3, 2, 3, 2, 2, 2},
	}[faultMode]
	kind := t.Weighted(w)
	if kind == 6 && disabled["casekey"] {
		kind = 5
	}
	content, _ := m["content"].(map[string]any)
	harnessAssert(content != nil, "content is not an object")
	switch kind {
	case 0:
		r.Logf("hop %d pass", h)
	case 1: // keys stripped on receipt: add or alter
		ks := c.receiptStripped()
		k := ks[t.Intn(len(ks))]
		mk := c.marker()
		switch k {
		case "unsigned":
			m[k] = map[string]any{"age": num(1), "note": mk, "prev_content": map[string]any{"body": mk}}
		case "age_ts":
			m[k] = num(ageMarker + int64(t.Intn(3)))
		case "outlier":
			m[k] = t.Bool()
		case "destinations":
			m[k] = []any{mk + ".example", "remote.example"}
		case "event_id":
			m[k] = "$" + mk
		}
		c.fire("stripped_key")
		r.Probe("stripped_" + k)
		r.Logf("hop %d set stripped-on-receipt key %q", h, k)
	case 2: // edit a content key outside the keep-list
		ps := c.redactableContent(content)
		if len(ps) == 0 {
			c.topInsert(h, m, false)
			return
		}
		p := ps[t.Intn(len(ps))]
		mk := c.marker()
		if len(p) == 1 {
			content[p[0]] = mk
		} else {
			content[p[0]].(map[string]any)[p[1]] = mk
			r.Probe("nested_partial_keep_edit")
		}
		c.fire("content_edit")
		r.Logf("hop %d content edit %q", h, strings.Join(p, "."))
	case 3: // insert a content key outside the keep-list
		pool := []string{"body", "zz_injected", "reason", "displayname", "aliases", "allow", "invite", "creator", "redacts",
			"join_authorised_via_users_server", "membership", "third_party_invite", "history_visibility", "join_rule", "users", "Membership"}
		var cands []string
		for _, k := range pool {
			if _, present := content[k]; !present && !c.keep.ContentKept(c.evType, k) {
				cands = append(cands, k)
			}
		}
		if len(cands) == 0 {
			c.topInsert(h, m, false)
			return
		}
		k := cands[t.Intn(len(cands))]
		mk := c.marker()
		switch t.Intn(3) {
		case 0:
			content[k] = mk
		case 1:
			content[k] = map[string]any{"signed": mk, "m": []any{mk}}
		case 2:
			content[k] = []any{mk}
		}
		c.fire("content_insert")
		r.Logf("hop %d content insert %q", h, k)
	case 4: // delete a content key outside the keep-list
		ps := c.redactableContent(content)
		if len(ps) == 0 {
			c.topInsert(h, m, false)
			return
		}
		p := ps[t.Intn(len(ps))]
		if len(p) == 1 {
			delete(content, p[0])
		} else {
			delete(content[p[0]].(map[string]any), p[1])
		}
		c.fire("content_delete")
		r.Logf("hop %d content delete %q", h, strings.Join(p, "."))
	case 5:
		c.topInsert(h, m, false)
	case 6:
		c.topInsert(h, m, true)
	case 7: // edit or delete an existing top-level key outside the keep-list
		var cands []string
		strip := map[string]bool{}
		for _, k := range c.stripped() {
			strip[k] = true
		}
		for _, k := range sortedKeys(m) {
			if !c.keep.TopKept(k) && !strip[k] {
				cands = append(cands, k)
			}
		}
		if len(cands) == 0 {
			c.topInsert(h, m, false)
			return
		}
		k := cands[t.Intn(len(cands))]
		if t.Bool() {
			delete(m, k)
			c.fire("top_delete")
			r.Logf("hop %d top-level delete %q", h, k)
			return
		}
		mk := c.marker()
		switch k {
		case "prev_state":
			m[k] = []any{[]any{"$" + mk, map[string]any{"sha256": ""}}}
		case "sticky", "msc4354_sticky":
			m[k] = map[string]any{"duration_ms": num(stickyMilli - 1)}
		default:
			if _, isStr := m[k].(string); isStr || isCaseVariantTop(k) == "" {
				m[k] = mk
			} else {
				delete(m, k) // a typed case-variant key: just drop it
			}
		}
		c.fire("top_edit")
		r.Logf("hop %d top-level edit %q", h, k)
	case 8: // the hash itself
		hs, _ := m["hashes"].(map[string]any)
		old, _ := hs["sha256"].(string)
		raw, derr := base64.RawStdEncoding.DecodeString(old)
		op := t.Intn(7)
		if hs == nil || derr != nil || len(raw) == 0 {
			op = 3
		}
		var what string
		switch op {
		case 0, 1:
			i := t.Intn(len(raw))
			raw[i] ^= 1 << uint(t.Intn(8))
			hs["sha256"] = base64.RawStdEncoding.EncodeToString(raw)
			what = "bitflip"
		case 2:
			hs["sha256"] = base64.RawStdEncoding.EncodeToString(raw[:t.Range(0, len(raw)-1)])
			what = "truncate"
		case 3:
			m["hashes"] = map[string]any{"sha256": sim.Pick(t, []string{"not base64 !!", "", "AAAA"})}
			what = "garbage"
		case 4:
			hs["sha256"] = num(5)
			what = "number"
		case 5:
			delete(hs, "sha256")
			what = "delete_sha256"
		case 6:
			// The right hash of the fields as they are now, under a member name
			// that only resembles sha256; sha256 itself is dropped or spoiled.
			// No hash of that name vouches for the fields: redacted form only.
			proj := map[string]any{}
			for k, v := range m {
				proj[k] = v
			}
			for _, k := range c.stripped() {
				delete(proj, k)
			}
			pb, _ := json.Marshal(proj)
			cj, cerr := gmsl.CanonicalJSON(pb)
			if cerr != nil {
				return
			}
			sum := sha256.Sum256(cj)
			hs[sim.Pick(t, []string{"SHA256", "Sha256", "\u017fha256", "sha256 ", "sha-256"})] = base64.RawStdEncoding.EncodeToString(sum[:])
			if t.Bool() {
				delete(hs, "sha256")
			} else {
				// spoiled for good (a later bit flip cannot restore it)
				hs["sha256"] = "c3BvaWxlZCBmb3IgZ29vZA"
			}
			what = "lookalike_member"
		}
		c.fire("hash_edit")
		r.Probe("hash_" + what)
		r.Logf("hop %d hash %s", h, what)
	}
}

// caseVariants: keys that differ from a kept top-level key only by letter
// case / Unicode case folding (JSON member names are case sensitive, so they
// are extra keys outside the keep-list). Values fit the type of the field
// they imitate, so that the event stays parseable.
var caseVariantKeys = []string{"State_key", "Membership", "Redacts", "Depth", "DEPTH", "Content", "ſender", "ſtate_key",
	"origin_ſerver_ts", "Type", "Room_id", "Hashes", "Signatures", "Origin", "state_Key", "memberſhip", "Event_id", "Prev_State"}

func isCaseVariantTop(k string) string {
	f := strings.ToLower(strings.ReplaceAll(strings.ReplaceAll(k, "ſ", "s"), "K", "k"))
	if f == k {
		return ""
	}
	for _, base := range []string{"state_key", "membership", "redacts", "depth", "content", "sender", "origin_server_ts", "type", "room_id",
		"hashes", "signatures", "origin", "event_id", "prev_state", "prev_events", "auth_events", "unsigned"} {
		if f == base {
			return base
		}
	}
	return ""
}

func (c *c04) topInsert(h int, m map[string]any, caseVariant bool) {
	r, t := c.r, c.t
	strip := map[string]bool{}
	for _, k := range c.stripped() {
		strip[k] = true
	}
	pool := []string{"zz_extra", "age", "redacts", "sticky", "msc4354_sticky", "membership", "origin", "prev_state",
		"replaces_state", "prev_content", "user_id", "invite_room_state", "é", "a.b", "content.body", "hashes.sha256"}
	if caseVariant {
		pool = caseVariantKeys
	}
	var cands []string
	for _, k := range pool {
		if _, present := m[k]; !present && !c.keep.TopKept(k) && !strip[k] {
			cands = append(cands, k)
		}
	}
	if len(cands) == 0 {
		r.Logf("hop %d top-level insert: nothing to insert", h)
		return
	}
	k := cands[t.Intn(len(cands))]
	mk := c.marker()
	base := isCaseVariantTop(k)
	switch {
	case k == "sticky" || k == "msc4354_sticky":
		m[k] = map[string]any{"duration_ms": num(stickyMilli), "note": mk}
		c.sticky = true
	case k == "prev_state" || base == "prev_state":
		m[k] = []any{[]any{"$" + mk, map[string]any{"sha256": ""}}}
	case base == "depth" || base == "origin_server_ts":
		m[k] = num(numMarker)
	case base == "content":
		cv := map[string]any{"body": mk, "zz": mk}
		if ks, all := c.keep.ContentKeys(c.evType); !all {
			for _, kk := range ks {
				if _, present := m["content"].(map[string]any)[kk]; !present {
					cv[kk] = mk
				}
			}
		}
		m[k] = cv
	case base == "sender":
		m[k] = "@" + strings.ToLower(mk) + ":evil.example"
	case base == "room_id":
		m[k] = "!" + mk + ":evil.example"
	case base == "hashes":
		m[k] = map[string]any{"sha256": mk}
	case base == "signatures":
		m[k] = map[string]any{mk + ".example": map[string]any{"ed25519:x": "AAAA"}}
	case base == "event_id" || k == "redacts" || base == "redacts":
		m[k] = "$" + mk
	default:
		m[k] = mk
	}
	if base == "sender" {
		c.markers = append(c.markers, strings.ToLower(mk))
	}
	if caseVariant {
		c.taint["casekey"] = true
		c.fire("top_insert_case_variant")
	} else {
		c.fire("top_insert")
	}
	r.Logf("hop %d top-level insert %q", h, k)
}

// receive parses the copy in flight as an untrusted event and judges the
// result against ground truth.
func (c *c04) receive(h int) {
	r := c.r
	r.Op()
	m, perr := parseObject(c.cur)
	harnessAssert(perr == nil, "copy in flight does not parse: %v", perr)
	projSame := c.hashedProj(m) == c.origProj
	hashSame := ref.Render(m["hashes"]) == c.origHashes
	expectRedacted := !projSame || !hashSame
	if c.t.Chance(60) && len(c.cur) > 2 && c.cur[0] == '{' {
		// The last relay splices a forged copy of a top-level member in FRONT
		// of the genuine one. A reader that keeps the last occurrence (the
		// model here, encoding/json) sees the event unchanged; the bytes the
		// hash was made over are not these bytes, and a reader that keeps the
		// first occurrence sees the forged copy: only the redacted form may
		// come out, without a trace of the forged copy.
		mk := c.marker()
		cands := []string{fmt.Sprintf(`"zz_forged":%q,`, mk)}
		if _, has := m["redacts"]; has && !c.keep.TopKept("redacts") {
			cands = append(cands, fmt.Sprintf(`"redacts":%q,`, "$"+mk))
		}
		if !c.keep.AllContent[c.evType] {
			// (where the whole content is kept, a forged content is kept material)
			cands = append(cands, fmt.Sprintf(`"content":{"body":%q,"zz_injected":%q},`, mk, mk), fmt.Sprintf(`"content":{"body":%q,"zz_injected":%q},`, mk, mk))
		}
		ins := sim.Pick(c.t, cands)
		if _, has := m[strings.SplitN(ins[1:], `"`, 2)[0]]; has || strings.HasPrefix(ins, `"zz_forged"`) {
			c.cur = append(append([]byte("{"), ins...), c.cur[1:]...)
			expectRedacted = true
			c.dupFront = true
			c.fire("top_duplicate_in_front")
			r.Probe("forged_copy_of_a_member_in_front_of_the_genuine_one")
		}
	}

	var p gmsl.PDU
	var err error
	pan := safeCall(func() { p, err = c.ver.NewEventFromUntrustedJSON(append([]byte{}, c.cur...)) })
	r.Logf("receive@%d %s: expectRedacted=%v (projSame=%v hashSame=%v) -> err=%v panic=%q", h, digest(c.cur), expectRedacted, projSame, hashSame, err, pan)
	c.check(pan == "", "parse_panic", "panic", "NewEventFromUntrustedJSON panicked: %s; input %q", pan, clip(string(c.cur), 700))

	if !expectRedacted {
		// control: untouched, re-serialised, or only stripped-on-receipt keys added
		r.Probe("control_copy")
		c.check(err == nil && p != nil, "control_intact", "refused", "hash matches but parsing failed: %v; input %q", err, clip(string(c.cur), 700))
		o := observe(p, c.received)
		r.Logf("  redacted=%v id=%s", p.Redacted(), o[0].val)
		c.check(!p.Redacted(), "control_intact", "flagged_redacted", "hash matches (only %v fired) but the event came back redacted: %q", c.fired, clip(string(p.JSON()), 600))
		got, gerr := parseObject(p.JSON())
		c.check(gerr == nil && ref.Render(got) == c.origJSON, "control_intact", "json", "hash matches but JSON() differs from the built event (minus keys stripped on receipt): got %s want %s", clip(string(p.JSON()), 600), clip(c.origJSON, 600))
		for i, ob := range o {
			if notCompared[ob.name] {
				continue
			}
			c.check(ob.val == c.origObs[i].val, "control_intact", "accessor_"+ob.name, "hash matches but %s() = %s, built event had %s", ob.name, clip(ob.val, 300), clip(c.origObs[i].val, 300))
		}
		c.sigs(p, "control")
		return
	}

	// tampered copy
	r.Probe("tampered_copy")
	c.check(err == nil && p != nil, "redacted_flag", "parse_error", "hash mismatch (%v) did not yield the redacted form but an error: %v; input %q", c.fired, err, clip(string(c.cur), 700))
	o := observe(p, c.received)
	r.Logf("  redacted=%v id=%s json=%s", p.Redacted(), o[0].val, clip(string(p.JSON()), 500))
	c.check(p.Redacted(), "redacted_flag", c.lastFault(), "hashed fields / hash differ from the built event (%v) but Redacted()==false; JSON() %q", c.fired, clip(string(p.JSON()), 600))
	r.Probe("redact_on_hash_mismatch")

	// keep-list (upper bound)
	got, gerr := parseObject(p.JSON())
	c.check(gerr == nil, "keeplist", "json_unparseable", "JSON() of the redacted event is not an object: %v", gerr)
	ex := c.keep.Excess(got)
	// Excess looks at the type in the JSON; judge content against the built type as well
	if cm, ok := got["content"].(map[string]any); ok {
		for _, e := range c.keep.ExcessContent(c.evType, cm) {
			if !contains(ex, e) {
				ex = append(ex, e)
			}
		}
	}
	c.check(len(ex) == 0, "keeplist", firstOf(ex), "redacted %s event in room version %s shows keys outside the specification's keep-list in JSON(): %v; JSON() %q", c.evType, c.verName, ex, clip(string(p.JSON()), 600))
	if cv, cerr := ref.ParseJSON(p.Content()); cerr == nil {
		if cm, ok := cv.(map[string]any); ok {
			ex := c.keep.ExcessContent(c.evType, cm)
			c.check(len(ex) == 0, "keeplist", "accessor_"+firstOf(ex), "redacted %s event in room version %s shows content keys outside the keep-list through Content(): %v", c.evType, c.verName, ex)
		}
	}

	// nothing injected is observable
	for _, ob := range o {
		for _, mk := range c.markers {
			c.check(!strings.Contains(ob.val, mk), "marker_leak", ob.name, "injected value %s is observable through %s() of the redacted event: %s (faults %v)", mk, ob.name, clip(ob.val, 500), c.fired)
		}
		if ob.name == "Depth" || ob.name == "OriginServerTS" {
			c.check(ob.val != fmt.Sprint(numMarker), "marker_leak", ob.name, "injected number %d is observable through %s() of the redacted event", numMarker, ob.name)
		}
		if ob.name == "StickyEndTimeZero" && c.sticky {
			c.check(ob.val == "true", "marker_leak", "sticky", "injected sticky duration is observable through StickyEndTime() of the redacted event")
		}
		if ob.name == "JSON" {
			for _, n := range []int{numMarker, ageMarker} {
				c.check(!strings.Contains(ob.val, fmt.Sprint(n)), "marker_leak", "JSON_number", "injected number %d is observable in JSON() of the redacted event: %s", n, clip(ob.val, 500))
			}
		}
	}

	// What an accessor derives from the content is a function of the content:
	// an event with the same (redacted) JSON but another identity - its depth
	// raised by one, hence another event ID where IDs are hashes - must report
	// the same membership, join rule, history visibility and power levels.
	// (A copy of the original that differs only in redactable material shares
	// the original's ID; nothing may be remembered under that ID.)
	if c.fmtV2 {
		if tm, terr := parseObject(p.JSON()); terr == nil {
			if d, ok := tm["depth"].(json.Number); ok {
				if n, nerr := d.Int64(); nerr == nil {
					tm["depth"] = num(n + 1)
					if tb, merr := json.Marshal(tm); merr == nil {
						if twin, perr := c.ver.NewEventFromTrustedJSON(tb, false); perr == nil && twin.EventID() != p.EventID() {
							to := observe(twin, c.received)
							for i, ob := range o {
								switch ob.name {
								case "Membership", "JoinRule", "HistoryVisibility", "PowerLevels":
									c.check(ob.val == to[i].val, "marker_leak", "accessor_remembers:"+ob.name, "%s() of the redacted event is %s, of an event with the same JSON and another identity %s (faults %v)", ob.name, clip(ob.val, 300), clip(to[i].val, 300), c.fired)
								}
							}
							r.Probe("redacted_copy_compared_with_a_twin_of_another_identity")
						}
					}
				}
			}
		}
	}

	// identity and signatures survive when only redactable material changed
	if hashSame && !c.dupFront {
		// (with a member given twice it depends on the reader which of the two
		// "the" event carries: identity is not judged for those copies)
		r.Probe("only_redactable_material_altered")
		c.check(o[0].val == c.builtID, "id_and_sigs", "event_id", "only redactable material was altered (%v) but EventID() = %s, the original is %s; JSON() %q", c.fired, o[0].val, c.builtID, clip(string(p.JSON()), 600))
		c.sigs(p, "redacted")
	} else {
		r.Probe("hash_itself_altered")
	}
}

// sigs demands that the original signers' signatures still verify.
func (c *c04) sigs(p gmsl.PDU, where string) {
	r := c.r
	r.Op()
	var verr error
	pan := safeCall(func() { verr = gmsl.VerifyEventSignatures(context.Background(), p, c.verifier, userIDForSender) })
	r.Logf("  VerifyEventSignatures(%s) -> err=%v panic=%q", where, verr, pan)
	c.check(pan == "" && verr == nil, "id_and_sigs", "signatures_"+where, "the signatures of the original signers no longer verify on the %s copy (faults %v): err=%v panic=%q; JSON() %q", where, c.fired, verr, pan, clip(string(p.JSON()), 600))
}

func (c *c04) lastFault() string {
	for i := len(c.fired) - 1; i >= 0; i-- {
		if c.fired[i] != "stripped_key" {
			return c.fired[i]
		}
	}
	return "none"
}

func contains(xs []string, s string) bool {
	for _, x := range xs {
		if x == s {
			return true
		}
	}
	return false
}

func firstOf(xs []string) string {
	if len(xs) == 0 {
		return "none"
	}
	return xs[0]
}

// plainEnough: no string or member name in the tree holds a character on which
// encoding/json and Matrix canonical JSON spell differently.
func plainEnough(v any) bool {
	okStr := func(x string) bool {
		for _, c := range x {
			if c < 0x20 || c == 0x2028 || c == 0x2029 || c == 0xfffd {
				return false
			}
		}
		return true
	}
	switch x := v.(type) {
	case string:
		return okStr(x)
	case map[string]any:
		for k, e := range x {
			if !okStr(k) || !plainEnough(e) {
				return false
			}
		}
	case []any:
		for _, e := range x {
			if !plainEnough(e) {
				return false
			}
		}
	}
	return true
}
