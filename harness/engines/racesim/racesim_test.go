// racesim: the race audit of property C19 (DESIGN §4 C19c). This is NOT
// deterministic simulation: a serialising simulator orders every access, so a
// data race is invisible to it. The seeded workloads below run free on real
// goroutines under `go test -race`; stubs synchronise only their own state and
// release it before returning into library code, so they order nothing the
// library does afterwards. The driver turns a race report whose stacks are in
// library code into a violation; its replay is "re-run this seed under -race".
package racesim

import (
	"context"
	"errors"
	"fmt"
	"net"
	"net/http"
	"net/url"
	"sync"
	"testing"
	"time"

	gmsl "github.com/matrix-org/gomatrixserverlib"
	"github.com/matrix-org/gomatrixserverlib/fclient"
	"github.com/matrix-org/gomatrixserverlib/spec"
	"github.com/matrix-org/gomatrixserverlib/verifrt"

	"verifharness/sim"
	"verifharness/world"
)

type pair = gmsl.PublicKeyLookupRequest
type entry = gmsl.PublicKeyLookupResult

// ---- thread-safe stubs ------------------------------------------------------------

type safeDB struct {
	mu sync.Mutex
	m  map[pair]entry
}

func (d *safeDB) FetcherName() string { return "safeDB" }
func (d *safeDB) FetchKeys(ctx context.Context, reqs map[pair]spec.Timestamp) (map[pair]entry, error) {
	d.mu.Lock()
	defer d.mu.Unlock()
	out := map[pair]entry{}
	for p := range reqs {
		if e, ok := d.m[p]; ok {
			out[p] = e
		}
	}
	return out, nil
}
func (d *safeDB) StoreKeys(ctx context.Context, res map[pair]entry) error {
	d.mu.Lock()
	defer d.mu.Unlock()
	for p, e := range res {
		d.m[p] = e
	}
	return nil
}

type safeClient struct {
	responses map[spec.ServerName]gmsl.ServerKeys // immutable after construction
	fail      map[spec.ServerName]bool
}

func (c *safeClient) GetServerKeys(ctx context.Context, s spec.ServerName) (gmsl.ServerKeys, error) {
	if c.fail[s] {
		return gmsl.ServerKeys{}, errors.New("refused")
	}
	k, ok := c.responses[s]
	if !ok {
		return gmsl.ServerKeys{}, errors.New("no such host")
	}
	return k, nil
}
func (c *safeClient) LookupServerKeys(ctx context.Context, via spec.ServerName, reqs map[pair]spec.Timestamp) ([]gmsl.ServerKeys, error) {
	if k, ok := c.responses[via]; ok {
		return []gmsl.ServerKeys{k}, nil
	}
	return nil, errors.New("no such host")
}

type safeResolver struct {
	mu  sync.Mutex
	n   int
	err int // every err-th call fails (0 = never)
}

func (r *safeResolver) LookupIPAddr(ctx context.Context, host string) ([]net.IPAddr, error) {
	r.mu.Lock()
	r.n++
	n := r.n
	r.mu.Unlock()
	if r.err > 0 && n%r.err == 0 {
		return nil, errors.New("servfail")
	}
	return []net.IPAddr{{IP: net.IPv4(10, byte(n>>16), byte(n>>8), byte(n))}}, nil
}

// ---- workloads ----------------------------------------------------------------------

func keyringWorkload(r *sim.Run) {
	t := r.T
	now := time.Now()
	led := world.NewLedger()
	var origins []*world.Server
	n := t.Range(2, 6)
	if t.Chance(100) {
		n = 70 // beyond the 64-worker bound
	}
	cl := &safeClient{responses: map[spec.ServerName]gmsl.ServerKeys{}, fail: map[spec.ServerName]bool{}}
	for i := 0; i < n; i++ {
		s := led.Add(world.NewCompactServer(t, fmt.Sprintf("o%d.example", i), now))
		origins = append(origins, s)
		cl.responses[s.Name] = s.KeyResponse(now)
		if t.Chance(150) {
			cl.fail[s.Name] = true
		}
	}
	local := world.NewCompactServer(t, "local.example", now)
	ring := &gmsl.KeyRing{KeyDatabase: &safeDB{m: map[pair]entry{}}, KeyFetchers: []gmsl.KeyFetcher{&gmsl.DirectKeyFetcher{
		Client: cl, IsLocalServerName: func(s spec.ServerName) bool { return s == local.Name }, LocalPublicKey: spec.Base64Bytes(local.Keys[0].Pub)}}}
	// messages are prepared up front (the tape is not shared between goroutines)
	callers := t.Range(2, 6)
	batches := make([][]gmsl.VerifyJSONRequest, callers)
	for c := range batches {
		nr := t.Range(1, 5)
		if n == 70 {
			nr = 70
		}
		for i := 0; i < nr; i++ {
			s := origins[t.Intn(len(origins))]
			if n == 70 {
				s = origins[i]
			}
			msg, _ := gmsl.SignJSON(string(s.Name), s.Keys[0].ID, s.Keys[0].Priv, []byte(fmt.Sprintf(`{"n":%d}`, t.Intn(100))))
			batches[c] = append(batches[c], gmsl.VerifyJSONRequest{ServerName: s.Name, AtTS: spec.AsTimestamp(now), Message: msg, ValidityCheckingFunc: gmsl.StrictValiditySignatureCheck})
		}
	}
	var wg sync.WaitGroup
	for c := 0; c < callers; c++ {
		wg.Add(1)
		go func(reqs []gmsl.VerifyJSONRequest) {
			defer wg.Done()
			for i := 0; i < 3; i++ {
				res, err := ring.VerifyJSONs(context.Background(), reqs)
				_, _ = res, err
			}
		}(batches[c])
	}
	wg.Wait()
	r.Op()
	r.Logf("keyring: %d servers, %d callers", n, callers)
}

func dnsWorkload(r *sim.Run) {
	t := r.T
	if !fclient.VerifInternals {
		r.Probe("degraded_dnscache_workload_skipped") // no resolver seam on this tree
		return
	}
	size := t.Range(1, 4)
	life := time.Duration(t.Range(1, 5)) * time.Millisecond
	c := fclient.NewDNSCache(size, life, []string{"0.0.0.0/0"}, nil)
	c.VerifSetResolver(&safeResolver{err: sim.Pick(t, []int{0, 0, 5})})
	hosts := []string{"a.example", "b.example", "c.example", "d.example", "e.example"}
	callers := t.Range(2, 6)
	plans := make([][]string, callers)
	for i := range plans {
		for k := t.Range(5, 40); k > 0; k-- {
			plans[i] = append(plans[i], sim.Pick(t, hosts))
		}
	}
	var wg sync.WaitGroup
	for i := 0; i < callers; i++ {
		wg.Add(1)
		go func(plan []string) {
			defer wg.Done()
			for k, h := range plan {
				c.VerifLookup(context.Background(), h)
				if k%7 == 3 {
					time.Sleep(life / 2)
				}
				_ = c.VerifEntries()
			}
		}(plans[i])
	}
	wg.Wait()
	r.Op()
	r.Logf("dnscache: size %d, %d callers", size, callers)
}

func tripperWorkload(r *sim.Run) {
	t := r.T
	verifrt.DialHook = func(d *net.Dialer, ctx context.Context, network, addr string) (net.Conn, error) {
		return nil, errors.New("simnet: connection refused")
	}
	defer func() { verifrt.DialHook = nil }()
	opts := []fclient.ClientOption{fclient.WithWellKnownSRVLookups(false), fclient.WithSkipVerify(true), fclient.WithKeepAlives(t.Bool()), fclient.WithTimeout(2 * time.Second)}
	if t.Bool() && fclient.VerifInternals {
		dc := fclient.NewDNSCache(t.Range(1, 3), 50*time.Millisecond, []string{"0.0.0.0/0"}, nil)
		dc.VerifSetResolver(&safeResolver{})
		opts = append(opts, fclient.WithDNSCache(dc))
	}
	cl := fclient.NewClient(opts...)
	hosts := []string{"a.example:8448", "b.example:8448", "10.0.0.1:8448", "c.example:1234"}
	callers := t.Range(2, 5)
	plans := make([][]string, callers)
	for i := range plans {
		for k := t.Range(2, 10); k > 0; k-- {
			plans[i] = append(plans[i], sim.Pick(t, hosts))
		}
	}
	var wg sync.WaitGroup
	for i := 0; i < callers; i++ {
		wg.Add(1)
		go func(plan []string) {
			defer wg.Done()
			for _, h := range plan {
				u := url.URL{Scheme: "matrix", Host: h, Path: "/_matrix/federation/v1/version"}
				req, _ := http.NewRequest("GET", u.String(), nil)
				resp, err := cl.DoHTTPRequest(context.Background(), req)
				if err == nil {
					resp.Body.Close()
				}
				_ = cl.VerifTransports()
			}
		}(plans[i])
	}
	wg.Wait()
	cl.VerifCloseIdle()
	r.Op()
	r.Logf("tripper: %d callers", callers)
}

// roVerifier verifies against one server's current key and keeps no state: it
// may be shared by goroutines.
type roVerifier struct{ s *world.Server }

func (v roVerifier) VerifyJSONs(ctx context.Context, reqs []gmsl.VerifyJSONRequest) ([]gmsl.VerifyJSONResult, error) {
	out := make([]gmsl.VerifyJSONResult, len(reqs))
	for i, q := range reqs {
		k := v.s.Current()
		out[i].Error = gmsl.VerifyJSON(string(q.ServerName), k.ID, k.Pub, q.Message)
	}
	return out, nil
}

func accessorWorkload(r *sim.Run) {
	t := r.T
	now := time.Now()
	ver := sim.Pick(t, world.Versions())
	if ver == gmsl.RoomVersionPseudoIDs {
		ver = gmsl.RoomVersionV10
	}
	impl := gmsl.MustGetRoomVersion(ver)
	s := world.NewCompactServer(t, "a.example", now)
	sk := "@u:a.example"
	p := world.Proto{RoomID: world.FakeRoomID(t, impl, s.Name), Sender: "@u:a.example", Type: spec.MRoomMember, StateKey: &sk,
		Content: map[string]any{"membership": "join"}, Depth: 3, Prev: []string{world.FakeEventID(t, impl, s.Name)}, Auth: []string{world.FakeEventID(t, impl, s.Name)}}
	switch t.Intn(5) {
	case 3: // power levels with a notifications object: PowerLevels() parses content and fills in defaults
		empty := ""
		p.Type, p.StateKey = spec.MRoomPowerLevels, &empty
		p.Content = map[string]any{"users": map[string]any{"@u:a.example": 100}, "users_default": 0, "events": map[string]any{"m.room.name": 50},
			"notifications": map[string]any{"room": 20 + t.Intn(60), "org.example.custom": t.Intn(100)}}
	case 4:
		empty := ""
		p.Type, p.StateKey, p.Content = spec.MRoomJoinRules, &empty, map[string]any{"join_rule": "restricted", "allow": []any{map[string]any{"type": "m.room_membership", "room_id": "!x:a.example"}}}
	case 1: // the create event: its room ID is derived in the newest event format
		empty := ""
		p = world.Proto{RoomID: p.RoomID, Sender: "@u:a.example", Type: spec.MRoomCreate, StateKey: &empty, Depth: 1,
			Content: map[string]any{"room_version": string(ver), "creator": "@u:a.example"}}
		if impl.DomainlessRoomIDs() {
			p.RoomID = ""
			p.Content = map[string]any{"room_version": string(ver)}
		}
	case 2:
		p.Type, p.StateKey, p.Content = "m.room.message", nil, map[string]any{"body": "x", "msgtype": "m.text"}
	}
	built, err := world.Build(impl, p, now, s.Name, s.Current())
	if err != nil {
		panic(err)
	}
	var ev gmsl.PDU
	path := t.Intn(4)
	switch path {
	case 0:
		ev, err = impl.NewEventFromUntrustedJSON(built.JSON())
	case 1:
		ev, err = impl.NewEventFromTrustedJSON(built.JSON(), false)
	case 2:
		ev, err = impl.NewEventFromTrustedJSONWithEventID(built.EventID(), built.JSON(), false)
	default:
		var h []byte
		h, err = built.ToHeaderedJSON()
		if err == nil {
			ev, err = gmsl.NewEventFromHeaderedJSON(h, false)
		}
	}
	if err != nil {
		panic(err)
	}
	var wg sync.WaitGroup
	for i := 0; i < 6; i++ {
		wg.Add(1)
		go func() {
			defer wg.Done()
			_ = ev.EventID()
			_ = ev.RoomID()
			_ = ev.Type()
			_ = ev.StateKey()
			_ = ev.Content()
			_, _ = ev.Membership()
			_ = ev.SenderID()
			_ = ev.PrevEventIDs()
			_ = ev.AuthEventIDs()
			_ = ev.OriginServerTS()
			_ = ev.Depth()
			_ = ev.JSON()
			_ = ev.Redacted()
			_ = ev.Unsigned()
			_ = ev.Version()
			_, _ = ev.ToHeaderedJSON()
			_ = ev.IsSticky(now, now)
			// accessors that parse the content afresh on every call
			if pl, perr := ev.PowerLevels(); perr == nil && pl != nil {
				_ = pl.UserLevel("@u:a.example")
				_ = pl.NotificationLevel("room")
			}
			_, _ = ev.JoinRule()
			_, _ = ev.HistoryVisibility()
			_ = ev.Redacts()
			// signature verification reads the event through the same accessors
			_ = gmsl.VerifyEventSignatures(context.Background(), ev, roVerifier{s}, func(roomID spec.RoomID, sender spec.SenderID) (*spec.UserID, error) {
				return spec.NewUserID(string(sender), true)
			})
			_ = gmsl.VerifyAllEventSignatures(context.Background(), []gmsl.PDU{ev, ev}, roVerifier{s}, func(roomID spec.RoomID, sender spec.SenderID) (*spec.UserID, error) {
				return spec.NewUserID(string(sender), true)
			})
		}()
	}
	wg.Wait()
	r.Op()
	r.Logf("accessors: version %s parse path %d", ver, path)
}

func body(r *sim.Run) {
	switch r.T.Intn(4) {
	case 0:
		keyringWorkload(r)
	case 1:
		dnsWorkload(r)
	case 2:
		tripperWorkload(r)
	default:
		accessorWorkload(r)
	}
	r.Nontriv = true
}

func TestEngine(t *testing.T) {
	sim.Main(t, &sim.Engine{
		Name:     "racesim",
		Body:     body,
		NoBubble: true,
		Rule: func(string) string {
			return "race audit (not deterministic simulation): seeded workloads on free-running goroutines under the Go race detector — 2-6 callers of one KeyRing+DirectKeyFetcher (2-6 servers, occasionally 70), 2-6 callers of one DNSCache (size 1-4, ms lifetimes), 2-5 callers of one destinationTripper (transport map, resolution cache), 6 goroutines calling every read-only accessor of one freshly parsed event (4 parse paths x room versions)"
		},
		Real:        []string{"KeyRing", "DirectKeyFetcher", "DNSCache", "destinationTripper", "event accessors"},
		Stub:        []string{"KeyClient / KeyDatabase / resolver (mutex-protected, released before returning)", "dialer (always refuses)"},
		Assumptions: []string{"the Go race detector reports a pair of conflicting accesses with no happens-before between them whenever both execute"},
	})
}
