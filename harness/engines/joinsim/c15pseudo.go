package joinsim

import (
	"context"
	"crypto/ed25519"
	"errors"
	"fmt"
	"time"

	gmsl "github.com/matrix-org/gomatrixserverlib"
	"github.com/matrix-org/gomatrixserverlib/spec"

	"verifharness/sim"
	"verifharness/world"
)

// send_join in a pseudo-ID room (org.matrix.msc4014). The sender of an event
// is a per-room ed25519 public key; the event is signed by that key under the
// key ID "ed25519:1"; a join carries content.mxid_mapping {user_room_key,
// user_id, signatures} in which the server of user_id vouches for the key.
// Room state - memberships included - is keyed by the per-room key, and the
// resident learns which user stands behind a key from the mappings it stored
// (the directory behind UserIDQuerier / StoreSenderIDFromPublicID).
//
// HandleSendJoin does not look at the room's DAG (no auth check), so the
// operation needs no generated pseudo-ID history: the join cites made-up
// ancestors. The property's clauses read, for this version:
//   join whose sender equals its state key; room and event ID match the
//   request; the sender belongs to the requesting server = the directory maps
//   the sender key to a user of that server; that server has validly signed =
//   the sender key signed the event and the server of mapping.user_id signed
//   the mapping with a key valid at origin_server_ts; not banned = the
//   membership filed under the SENDER KEY is not ban; authorising user local;
//   what comes back carries a valid signature of the local server over the
//   unmodified event.

const pseudoKeyID = gmsl.KeyID("ed25519:1")

type pseudoDir struct {
	m     map[string]string // sender key -> user ID, as the resident stored it
	calls []string
	fail  bool
}

func (d *pseudoDir) store(ctx context.Context, senderID spec.SenderID, userID string, roomID spec.RoomID) error {
	d.calls = append(d.calls, string(senderID)+"->"+userID)
	if d.fail {
		return errors.New("sender-id directory unavailable")
	}
	d.m[string(senderID)] = userID
	return nil
}

func (d *pseudoDir) lookup(roomID spec.RoomID, senderID spec.SenderID) (*spec.UserID, error) {
	u, ok := d.m[string(senderID)]
	if !ok {
		return nil, fmt.Errorf("no user known for sender %s", senderID)
	}
	return spec.NewUserID(u, true)
}

// pseudoMembers answers strictly by sender key, as a store keyed by state key does.
type pseudoMembers struct {
	m    map[string]string
	fail bool
	asks []string
}

func (q *pseudoMembers) CurrentMembership(ctx context.Context, roomID spec.RoomID, senderID spec.SenderID) (string, error) {
	q.asks = append(q.asks, string(senderID))
	if q.fail {
		return "", errors.New("membership store unavailable")
	}
	return q.m[string(senderID)], nil
}

func signUnder(name string, kid gmsl.KeyID, k ed25519.PrivateKey, obj []byte) []byte {
	out, err := gmsl.SignJSON(name, kid, k, obj)
	if err != nil {
		return obj
	}
	return out
}

func (c *c15) opSendJoinPseudo() {
	r, t, rm := c.r, c.t, c.rm
	impl := gmsl.MustGetRoomVersion(gmsl.RoomVersionPseudoIDs)
	R, J := rm.R(), rm.J()
	roomID := "!pseudo:" + string(R.Name)
	uk := ed25519.NewKeyFromSeed(world.CompactBytes(t, "pseudo-user-room-key", 32))
	otherKey := ed25519.NewKeyFromSeed(world.CompactBytes(t, "pseudo-other-room-key", 32))
	sender := string(spec.SenderIDFromPseudoIDKey(uk))
	other := string(spec.SenderIDFromPseudoIDKey(otherKey))
	userID := c.ju.id
	r.Logf("op send_join (pseudo-ID room) %s as key %s -> %s", userID, shortID(sender), R.Name)
	r.Probe("send_join_pseudo_id_room")

	dir := &pseudoDir{m: map[string]string{}}
	mems := &pseudoMembers{m: map[string]string{}}
	// residents already in the room, under their own keys
	for i := 0; i < 2; i++ {
		k := ed25519.NewKeyFromSeed(world.CompactBytes(t, fmt.Sprintf("pseudo-resident-%d", i), 32))
		id := string(spec.SenderIDFromPseudoIDKey(k))
		dir.m[id] = rm.users[i].id
		mems.m[id] = "join"
	}
	// Not faults: the key has been seen before (an earlier join, a leave since),
	// is currently joined (a replay), or the user ID happens to have a
	// membership filed under it by a confused writer - which a store keyed by
	// sender key never consults.
	switch t.Weighted([]int{6, 2, 2, 1}) {
	case 1:
		dir.m[sender], mems.m[sender] = userID, "leave"
		r.Probe("pseudo_key_known_left")
	case 2:
		dir.m[sender], mems.m[sender] = userID, "join"
		r.Probe("pseudo_key_known_joined")
	case 3:
		mems.m[userID] = sim.Pick(t, []string{"join", "leave"})
		r.Probe("pseudo_membership_filed_under_user_id")
	}

	var verifier gmsl.JSONVerifier
	verifier, useKeyRing := c.pickVerifier()
	origin := J.Name
	pathRoom, pathEvent := "", ""
	typ := spec.MRoomMember
	stateKey := world.Str(sender)
	content := map[string]any{"membership": "join"}
	mapUser, mapKey := userID, sender
	mapSigner, mapSignKey := J, J.Current()
	mapFault, evFault := "", ""
	ts := timeNow()

	kinds := []string{"path_room_mismatch", "path_event_mismatch", "membership_not_join", "state_key_other", "wrong_type", "origin_mismatch", "event_other_room",
		"mapping_absent", "mapping_unsigned", "mapping_signed_by_other_server", "mapping_sig_corrupt", "mapping_user_of_other_server", "mapping_names_other_key", "mapping_expired_key", "mapping_user_invalid",
		"event_sig_absent", "event_sig_corrupt", "event_sig_other_key", "event_signed_by_server_only",
		"banned_under_sender_key", "membership_error", "authorised_via_remote_user", "verifier_error", "directory_error", "mapping_future_ts"}
	weights := []int{2, 2, 2, 2, 1, 3, 1, 2, 3, 3, 2, 3, 3, 2, 1, 3, 2, 2, 2, 6, 1, 2, 1, 1, 1}
	nf := t.Weighted([]int{4, 5, 2, 1})
	sigFaulted := false
	for i := 0; i < nf; i++ {
		k := kinds[t.Weighted(weights)]
		switch k {
		case "path_room_mismatch":
			pathRoom = "!elsewhere:" + string(R.Name)
		case "path_event_mismatch":
			pathEvent = world.FakeEventID(t, impl, J.Name)
		case "membership_not_join":
			content["membership"] = sim.Pick(t, []string{"leave", "invite", "knock", "ban"})
		case "state_key_other":
			stateKey = world.Str(sim.Pick(t, []string{other, userID, ""}))
		case "wrong_type":
			typ = sim.Pick(t, []string{"m.room.topic", "org.example.thing"})
		case "origin_mismatch":
			origin = c.mismatchedOrigin()
		case "event_other_room":
			roomID = "!another:" + string(R.Name)
			pathRoom = "!pseudo:" + string(R.Name)
		case "mapping_absent", "mapping_unsigned", "mapping_signed_by_other_server", "mapping_sig_corrupt":
			if mapFault != "" {
				continue
			}
			mapFault = k
		case "mapping_user_of_other_server":
			// a user of another server, vouched for by that server: a valid mapping, but not the requester's user
			// (not on top of a signing-key fault: this one replaces signer and
			// key, and the mapping would be validly signed after all)
			if mapFault != "" || mapSigner != J || sigFaulted {
				continue
			}
			o := c.third()
			mapUser, mapSigner, mapSignKey = "@someone:"+string(o.Name), o, o.Current()
		case "mapping_names_other_key":
			mapKey = other
		case "mapping_user_invalid":
			mapUser = sim.Pick(t, []string{"not a user id", "@:", "j0"})
		case "mapping_expired_key":
			if sigFaulted || mapSigner != J {
				continue
			}
			old := J.Current()
			J.Rotate(t, timeNow())
			time.Sleep(time.Duration(t.Range(1, 3600)) * time.Second)
			mapSignKey, ts, sigFaulted = old, timeNow(), true
			r.Fault("key_rotate")
			r.Fault("clock_jump")
		case "mapping_future_ts":
			if sigFaulted || !useKeyRing {
				continue
			}
			ts, sigFaulted = timeNow().Add(time.Duration(t.Range(8, 30))*24*time.Hour), true
		case "event_sig_absent", "event_sig_corrupt", "event_sig_other_key", "event_signed_by_server_only":
			if evFault != "" {
				continue
			}
			evFault = k
		case "banned_under_sender_key":
			mems.m[sender] = "ban"
			dir.m[sender] = userID
		case "membership_error":
			mems.fail = true
		case "authorised_via_remote_user":
			content["join_authorised_via_users_server"] = sim.Pick(t, []string{"@nobody:" + string(c.third().Name), rm.users[3].id})
			if s := rm.serverOf(content["join_authorised_via_users_server"].(string)); s == R {
				content["join_authorised_via_users_server"] = rm.users[2].id
			}
		case "verifier_error":
			c.ver.Fail = errors.New("key ring: database unavailable")
			c.db.fail = true
		case "directory_error":
			dir.fail = true
		}
		c.fault(k)
	}
	if len(c.faults) == 0 && t.Chance(200) {
		// not a fault: authorised via a user of the resident
		content["join_authorised_via_users_server"] = rm.users[0].id
		r.Probe("pseudo_authorised_via_local_user")
	}

	// the mapping, vouched for (or not) by a server
	mappingOK := false
	if mapFault != "mapping_absent" {
		mp := gmsl.MXIDMapping{UserRoomKey: spec.SenderID(mapKey), UserID: mapUser}
		switch mapFault {
		case "mapping_unsigned":
		case "mapping_signed_by_other_server":
			// any server but the one the mapping's user belongs to
			o := R
			for _, sv := range rm.servers {
				if sv != mapSigner {
					o = sv
				}
			}
			_ = mp.Sign(o.Name, o.Current().ID, o.Current().Priv)
		case "mapping_sig_corrupt":
			_ = mp.Sign(mapSigner.Name, mapSignKey.ID, mapSignKey.Priv)
			b := mp.Signatures[mapSigner.Name][mapSignKey.ID]
			b[t.Intn(len(b))] ^= 1 << uint(t.Intn(8))
		default:
			_ = mp.Sign(mapSigner.Name, mapSignKey.ID, mapSignKey.Priv)
			mappingOK = true
			if t.Chance(150) {
				// not a fault: somebody else's signature next to the right one
				o := c.third()
				if mp.Signatures[o.Name] == nil {
					mp.Signatures[o.Name] = map[gmsl.KeyID]spec.Base64Bytes{o.Current().ID: spec.Base64Bytes(world.CompactBytes(t, "stray-mapping-signature", 64))}
					r.Probe("pseudo_mapping_carries_stray_signature")
				}
			}
		}
		content["mxid_mapping"] = mp
	}

	p := world.Proto{RoomID: roomID, Sender: sender, Type: typ, StateKey: stateKey, Content: content,
		Prev: []string{world.FakeEventID(t, impl, R.Name)}, Auth: []string{world.FakeEventID(t, impl, R.Name), world.FakeEventID(t, impl, R.Name)}, Depth: int64(t.Range(3, 40))}
	evKey := &world.Key{ID: pseudoKeyID, Priv: uk, Pub: uk.Public().(ed25519.PublicKey)}
	ev, err := world.Build(impl, p, ts, spec.ServerName(sender), evKey)
	if err != nil {
		r.Probe("send_join_build_refused")
		r.Logf("  join event could not be built: %v", err)
		return
	}
	raw := append([]byte{}, ev.JSON()...)
	evSigned := true
	switch evFault {
	case "event_sig_absent":
		raw = setSigs(raw, map[string]map[string]string{})
		evSigned = false
	case "event_sig_corrupt":
		sigs := getSigs(raw)
		var b spec.Base64Bytes
		_ = b.Decode(sigs[sender][string(pseudoKeyID)])
		b[t.Intn(len(b))] ^= 1 << uint(t.Intn(8))
		sigs[sender][string(pseudoKeyID)] = b.Encode()
		raw = setSigs(raw, sigs)
		evSigned = false
	case "event_sig_other_key":
		raw = setSigs(raw, map[string]map[string]string{})
		raw = signUnder(sender, pseudoKeyID, otherKey, raw)
		evSigned = false
	case "event_signed_by_server_only":
		raw = setSigs(raw, map[string]map[string]string{})
		red, _ := impl.RedactEventJSON(raw)
		signed := signUnder(string(J.Name), J.Current().ID, J.Current().Priv, red)
		raw = setSigs(raw, getSigs(signed))
		evSigned = false
	}
	if evSigned && t.Chance(150) {
		// not a fault: the requesting server signed as well
		red, _ := impl.RedactEventJSON(raw)
		signed := signUnder(string(J.Name), J.Current().ID, J.Current().Priv, red)
		raw = setSigs(raw, getSigs(signed))
		r.Probe("pseudo_join_also_signed_by_server")
	}
	submitted := append([]byte{}, raw...)
	if pathRoom == "" {
		pathRoom = roomID
	}
	if pathEvent == "" {
		pathEvent = ev.EventID()
	}
	rid, err := spec.NewRoomID(pathRoom)
	if err != nil {
		return
	}
	k := R.Current()
	in := gmsl.HandleSendJoinInput{Context: context.Background(), RoomID: *rid, EventID: pathEvent, JoinEvent: raw, RoomVersion: gmsl.RoomVersionPseudoIDs, RequestOrigin: origin,
		LocalServerName: R.Name, KeyID: k.ID, PrivateKey: k.Priv, Verifier: verifier, MembershipQuerier: mems, UserIDQuerier: dir.lookup, StoreSenderIDFromPublicID: dir.store}
	var resp *gmsl.HandleSendJoinResponse
	if guard(r, "HandleSendJoin", func() { resp, err = gmsl.HandleSendJoin(in) }) {
		return
	}
	accepted := err == nil && resp != nil && resp.JoinEvent != nil

	// guards, from what was built and what the resident's stores hold now
	mem, _ := ev.Membership()
	gJoin := ev.Type() == spec.MRoomMember && ev.StateKey() != nil && mem == "join"
	gSelf := ev.StateKey() != nil && *ev.StateKey() != "" && *ev.StateKey() == string(ev.SenderID())
	gRoom := ev.RoomID().String() == in.RoomID.String()
	gEventID := ev.EventID() == in.EventID
	known, kerr := dir.lookup(in.RoomID, ev.SenderID())
	gOrigin := kerr == nil && known.Domain() == in.RequestOrigin
	// the mapping is vouched for by the server of the user it names, with a key valid at the event's timestamp
	gMapping := mappingOK && !sigFaulted && c.ver.Fail == nil
	if gMapping {
		if _, e := spec.NewUserID(mapUser, true); e != nil {
			gMapping = false
		}
	}
	gSigned := evSigned
	gNotBanned := !mems.fail && mems.m[string(ev.SenderID())] != "ban"
	gVia := true
	if via, ok := content["join_authorised_via_users_server"].(string); ok && via != "" {
		u, e := spec.NewUserID(via, true)
		gVia = e == nil && u.Domain() == in.LocalServerName
	}
	r.State(fmt.Sprintf("send_join_pseudo %s accepted=%v err=%s", c.sig(), accepted, errText(err)))
	r.Logf("  HandleSendJoin (pseudo-ID) -> accepted=%v err=%v ; guards join=%v self=%v room=%v event_id=%v origin=%v mapping=%v signed=%v not_banned=%v via_local=%v ; directory writes %v ; membership asked for %v",
		accepted, errText(err), gJoin, gSelf, gRoom, gEventID, gOrigin, gMapping, gSigned, gNotBanned, gVia, dir.calls, shortAll(mems.asks))
	if accepted {
		r.Probe("send_join_pseudo_accepted")
		r.Check(gJoin, "C15", "sendjoin_accepts_non_join", "pseudo:"+c.sig(), "HandleSendJoin (pseudo-ID room) accepted an event that is not a join (type %s membership %q)", ev.Type(), mem)
		r.Check(gSelf, "C15", "sendjoin_sender_not_state_key", "pseudo:"+c.sig(), "HandleSendJoin (pseudo-ID room) accepted a join whose sender differs from its state key")
		r.Check(gRoom, "C15", "sendjoin_room_mismatch", "pseudo:"+c.sig(), "HandleSendJoin (pseudo-ID room) accepted an event of room %s for request room %s", ev.RoomID().String(), in.RoomID.String())
		r.Check(gEventID, "C15", "sendjoin_event_id_mismatch", "pseudo:"+c.sig(), "HandleSendJoin (pseudo-ID room) accepted event %s for request event ID %s", ev.EventID(), in.EventID)
		r.Check(gOrigin, "C15", "sendjoin_foreign_sender", "pseudo:"+c.sig(), "HandleSendJoin (pseudo-ID room) accepted a join of a key the resident knows as %v (err %v), submitted by server %s", known, kerr, in.RequestOrigin)
		r.Check(gMapping, "C15", "sendjoin_unsigned", "pseudo_mapping:"+c.sig(), "HandleSendJoin (pseudo-ID room) accepted a join whose mxid_mapping (%s -> %s) the user's server has not validly signed", shortID(mapKey), mapUser)
		r.Check(gSigned, "C15", "sendjoin_unsigned", "pseudo_event:"+c.sig(), "HandleSendJoin (pseudo-ID room) accepted a join that its sender key has not validly signed (%s)", evFault)
		r.Check(gNotBanned, "C15", "sendjoin_banned", "pseudo:"+c.sig(), "HandleSendJoin (pseudo-ID room) accepted a join of a sender key whose membership is %q (membership was asked for %v)", mems.m[string(ev.SenderID())], shortAll(mems.asks))
		r.Check(gVia, "C15", "sendjoin_remote_authoriser", "pseudo:"+c.sig(), "HandleSendJoin (pseudo-ID room) accepted a join authorised via %v which is not a user of %s", content["join_authorised_via_users_server"], in.LocalServerName)
		// counter-signature of the local server over the unmodified event
		got := resp.JoinEvent
		red, rerr := impl.RedactEventJSON(got.JSON())
		signedLocal := false
		if rerr == nil {
			for kid := range getSigs(got.JSON())[string(R.Name)] {
				if kk := R.KeyByID(gmsl.KeyID(kid)); kk != nil && gmsl.VerifyJSON(string(R.Name), gmsl.KeyID(kid), kk.Pub, red) == nil {
					signedLocal = true
				}
			}
		}
		r.Check(signedLocal, "C15", "sendjoin_not_countersigned", "pseudo:"+c.sig(), "send_join (pseudo-ID room): the returned event carries no valid signature of the local server %s", R.Name)
		r.Check(sameProjection(got.JSON(), submitted), "C15", "sendjoin_event_modified", "pseudo:"+c.sig(), "send_join (pseudo-ID room): the returned event differs from the submitted one outside signatures/unsigned")
		r.Check(keepsSignatures(submitted, got.JSON(), R.Name), "C15", "sendjoin_signatures_lost", "pseudo:"+c.sig(), "send_join (pseudo-ID room): the returned event lost a signature the submitted event carried")
		if want := mems.m[sender] == "join"; resp.AlreadyJoined != want && !mems.fail {
			r.Probe("send_join_pseudo_already_joined_flag_differs")
		}
		if resp.AlreadyJoined {
			r.Probe("send_join_pseudo_already_joined")
		}
		return
	}
	r.Probe("send_join_pseudo_refused")
	if gJoin && gSelf && gRoom && gEventID && gOrigin && gMapping && gSigned && gNotBanned && gVia && len(c.faults) == 0 {
		r.Violate("C15", "sendjoin_spurious_refusal", "pseudo:"+c.sig(), "HandleSendJoin (pseudo-ID room) refused although every guard holds and no fault was injected: %v", err)
	}
}

func shortAll(ids []string) []string {
	out := make([]string, len(ids))
	for i, s := range ids {
		out[i] = shortID(s)
	}
	return out
}
