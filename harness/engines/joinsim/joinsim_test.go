package joinsim

import (
	"io"
	"testing"

	"github.com/sirupsen/logrus"

	gmsl "github.com/matrix-org/gomatrixserverlib"
	"github.com/matrix-org/gomatrixserverlib/verifrt"

	"verifharness/sim"
	"verifharness/world"
)

func pickVersion(t *sim.Tape) gmsl.RoomVersion {
	var pool []gmsl.RoomVersion
	for _, v := range world.Versions() {
		if v == gmsl.RoomVersionPseudoIDs {
			continue // pseudo-ID rooms need a sender-key directory; not modelled
		}
		w := 1
		switch v {
		case "10", "11", "12":
			w = 3
		case "1", "8", "9":
			w = 2
		}
		for i := 0; i < w; i++ {
			pool = append(pool, v)
		}
	}
	return sim.Pick(t, pool)
}

func init() { logrus.SetOutput(io.Discard) }

func body(r *sim.Run) {
	t := r.T
	verifrt.SetSalt(0)
	r.Defer(func() { verifrt.SetSalt(0) })
	ver := pickVersion(t)
	rm := newWorld(r, ver)
	if err := rm.generate(1, 26); err != nil {
		r.Violate(r.Prop, "bootstrap", "error", "room bootstrap failed in version %s: %v", ver, err)
	}
	r.Logf("room %s version %s: %d events, %d servers, rule %s", rm.roomID, ver, len(rm.order), len(rm.servers), rm.joinRule(rm.tip.after))
	r.Probe("rule_" + rm.joinRule(rm.tip.after))
	if r.Prop == "C15" {
		runC15(rm)
		return
	}
	c := &c14{rm: rm, r: r, t: t, bad: map[string]gmsl.PDU{}, ver: &world.Verifier{L: rm.ledger}, prov: newProvider(r)}
	c.other = rm.sibling()
	for id, n := range rm.nodes {
		c.prov.store[id] = n.ev
	}
	if c.other != nil {
		for id, n := range c.other.nodes {
			c.prov.store[id] = n.ev
		}
		c.prov.other = c.other.nodes[c.other.order[len(c.other.order)-1]].ev
		if t.Bool() {
			c.prov.other = c.other.nodes[c.other.order[0]].ev
		}
	}
	c.run()
}

func TestEngine(t *testing.T) {
	sim.Main(t, &sim.Engine{
		Name: "joinsim",
		Body: body,
		Rule: func(p string) string { return "TODO" },
	})
}
