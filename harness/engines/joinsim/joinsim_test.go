package joinsim

import (
	"io"
	"testing"

	"github.com/sirupsen/logrus"

	gmsl "github.com/matrix-org/gomatrixserverlib"
	"github.com/matrix-org/gomatrixserverlib/verifrt"

	"verifharness/sim"
	"verifharness/world"
)

func pickVersion(t *sim.Tape) gmsl.RoomVersion {
	var pool []gmsl.RoomVersion
	for _, v := range world.Versions() {
		if v == gmsl.RoomVersionPseudoIDs {
			continue // generated histories are not pseudo-ID rooms (c15pseudo.go runs send_join in one, without a history)
		}
		w := 1
		switch v {
		case "10", "11", "12":
			w = 3
		case "1", "4", "8", "9":
			w = 2
		}
		for i := 0; i < w; i++ {
			pool = append(pool, v)
		}
	}
	return sim.Pick(t, pool)
}

func init() { logrus.SetOutput(io.Discard) }

func body(r *sim.Run) {
	t := r.T
	verifrt.SetSalt(0)
	r.Defer(func() { verifrt.SetSalt(0) })
	ver := pickVersion(t)
	rm := newWorld(r, ver)
	if err := rm.generate(1, 26); err != nil {
		r.Violate(r.Prop, "bootstrap", "error", "room bootstrap failed in version %s: %v", ver, err)
	}
	r.Logf("room %s version %s: %d events, %d servers, rule %s", rm.roomID, ver, len(rm.order), len(rm.servers), rm.joinRule(rm.tip.after))
	r.Probe("rule_" + rm.joinRule(rm.tip.after))
	if t.Chance(120) {
		rm.restart()
	}
	if r.Prop == "C15" {
		runC15(rm)
		return
	}
	c := &c14{rm: rm, r: r, t: t, bad: map[string]gmsl.PDU{}, ver: &world.Verifier{L: rm.ledger}, prov: newProvider(r)}
	c.other = rm.sibling()
	for id, n := range rm.nodes {
		c.prov.store[id] = n.ev
	}
	if c.other != nil {
		for id, n := range c.other.nodes {
			c.prov.store[id] = n.ev
		}
		c.prov.other = c.other.nodes[c.other.order[len(c.other.order)-1]].ev
		if t.Bool() {
			c.prov.other = c.other.nodes[c.other.order[0]].ev
		}
	}
	c.run()
}

func TestEngine(t *testing.T) {
	sim.Main(t, &sim.Engine{
		Name: "joinsim",
		Body: body,
		Rule: func(p string) string {
			base := "one run = one world of 2-3 servers (compact ledger keys) and one room (version drawn from the whole registry except the pseudo-ID version, weighted towards 8-12 and 1) whose history of 3-30 events is generated fault-free with the real EventBuilder.AddAuthEvents/Build (honest users: joins incl. restricted joins counter-signed by the authorising server, invites counter-signed by the invited server, knocks, bans/kicks, power levels, join rules public/invite/knock/restricted/knock_restricted, topic/custom state, messages forking off older events and merged back); "
			if p == "C15" {
				return base + "then the room is steered into a tape-chosen situation for a user of the asking server J (banned / invited / joined / another join rule) and ONE handshake runs with 0-3 parameter, event-shape, signature (corrupt, stripped, wrong key, key expired by rotation + clock advance, timestamp beyond key validity under a real KeyRing) or querier faults: HandleMakeJoin, HandleMakeLeave, HandleSendJoin (also in a pseudo-ID room: sender = per-room key signing the event, mxid_mapping vouched for - or not - by the user's server, directory and membership store keyed by sender key; mapping / event-signature / directory / ban faults), HandleInvite (directly), HandleInviteV3 (request checks only), PerformJoin through a FederatedJoinClient stub that calls the resident's real HandleMakeJoin/HandleSendJoin and assembles the send_join response from the resident's store (template / create-event / returned-event / state faults), PerformInvite through a FederatedInviteClient stub calling the real HandleInvite; oracle = independent guard predicate per handler transcribed from the property text; non-trivial = at least one fault fired; distinct = distinct event-log hash"
			}
			return base + "then 2-4 operations, each assembling the resident's answer (/state before an event, /send_join for a join built on the tip or on a stale base, auth chain of an event through a scripted EventProvider, state before an event through a scripted StateProvider or the real FederatedStateProvider over /state_ids + /state answers, a /backfill batch through LoadAndVerify, RequestBackfill over 1-2 servers) and giving a tape-chosen subset of 0-5 events one fault each (signature corrupt / stripped / wrong key, rebuilt-and-resigned event not allowed by its auth events, cited auth event removed with the provider returning it / nothing / an error, event of another room, non-state event, duplicate state key, malformed entry, duplicate listing, Byzantine child citing a refused parent, event citing stale auth events, reordering, key-ring failure, ctx cancellation inside a provider callback); oracle = reference model computing which events carry which fault and re-deriving allowed-ness with Allowed on exactly the verified-or-provided auth events; non-trivial = at least one fault fired; distinct = distinct event-log hash"
		},
		Real: []string{"CheckStateResponse", "CheckSendJoinResponse", "VerifyEventAuthChain", "VerifyAuthRulesAtState", "FederatedStateProvider", "EventsLoader.LoadAndVerify", "RequestBackfill", "EventJSONs.UntrustedEvents", "VerifyEventSignatures",
			"HandleMakeJoin", "HandleMakeLeave", "HandleSendJoin", "HandleInvite", "HandleInviteV3 (request checks)", "PerformJoin", "PerformInvite", "KeyRing.VerifyJSONs (over a ledger-backed key database)", "EventBuilder.AddAuthEvents/Build", "Allowed"},
		Stub: []string{"resident's and asker's event stores (generated history)", "EventProvider / StateProvider / BackfillRequester / FederatedStateClient (scripted)", "FederatedJoinClient / FederatedInviteClient (in-process transport calling the peer's real handler)",
			"RestrictedRoomJoinQuerier / MembershipQuerier / RoomQuerier / StateQuerier (answering from the resident's store, with scripted lies and errors)", "JSONVerifier = ledger of published keys (world.Verifier) or real KeyRing over a ledger database", "clock (synctest bubble)"},
		Assumptions: []string{"per-event Allowed verdicts (property C07) are trusted inside the reference models", "signature verification of a single event (C06) is trusted: ground truth is which events were given a signature fault",
			"event-provider answers outside the property's quantifier (another event than the one asked for) are exercised as probes only", "guards are evaluated on the queriers' answers (what the handler can know)", "of the pseudo-ID room version only HandleSendJoin is exercised (C15), on a join citing made-up ancestors: the handler does not look at the room's DAG"},
	})
}
