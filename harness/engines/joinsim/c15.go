package joinsim

func runC15(rm *room) {}
