package joinsim

import (
	"bytes"
	"context"
	"crypto/ed25519"
	"encoding/base64"
	"encoding/json"
	"errors"
	"fmt"
	"sort"
	"strings"
	"time"

	gmsl "github.com/matrix-org/gomatrixserverlib"
	"github.com/matrix-org/gomatrixserverlib/fclient"
	"github.com/matrix-org/gomatrixserverlib/spec"
	"github.com/tidwall/sjson"

	"verifharness/sim"
	"verifharness/world"
)

// c15 drives one handshake between the resident R and the asking server J.
type c15 struct {
	rm     *room
	r      *sim.Run
	t      *sim.Tape
	ju     user // the J-side user of the handshake
	c14    *c14
	faults []string // parameter / signature / querier faults that fired
	ver    *world.Verifier
	db     *ledgerDB
}

func (c *c15) fault(kind string) {
	c.r.Fault(kind)
	c.faults = append(c.faults, kind)
	c.r.Nontriv = true
	c.r.Logf("  fault %s", kind)
}

func (c *c15) sig() string {
	if len(c.faults) == 0 {
		return "no_fault"
	}
	f := append([]string{}, c.faults...)
	sort.Strings(f)
	return strings.Join(f, "+")
}

func runC15(rm *room) {
	r, t := rm.r, rm.t
	c := &c15{rm: rm, r: r, t: t, ver: &world.Verifier{L: rm.ledger}, db: &ledgerDB{l: rm.ledger}}
	c.ju = rm.users[2+t.Intn(2)] // j0 or j1
	c.c14 = &c14{rm: rm, r: r, t: t, bad: map[string]gmsl.PDU{}, ver: c.ver, prov: newProvider(r)}
	c.c14.other = rm.sibling()
	c.prepare()
	for id, n := range rm.nodes {
		c.c14.prov.store[id] = n.ev
	}
	r.Op()
	switch t.Weighted([]int{6, 2, 6, 6, 6, 2, 3, 4}) {
	case 0:
		c.opMakeJoin()
	case 1:
		c.opMakeLeave()
	case 2:
		c.opSendJoin()
	case 3:
		c.opInvite()
	case 4:
		c.opPerformJoin()
	case 5:
		c.opPerformInvite()
	case 6:
		c.opInviteV3()
	case 7:
		c.opSendJoinPseudo()
	}
}

// prepare steers the room into a tape-chosen situation for the handshake user
// (all by honest events: refused ones are skipped).
func (c *c15) prepare() {
	rm, t := c.rm, c.t
	admin := rm.users[0]
	st := rm.tip.after
	switch t.Weighted([]int{5, 2, 2, 2, 3}) {
	case 1:
		if rm.tryAdd(admin, spec.MRoomMember, world.Str(c.ju.id), map[string]any{"membership": "ban"}) != nil {
			c.r.Probe("scenario_user_banned")
		}
	case 2:
		if rm.tryAdd(admin, spec.MRoomMember, world.Str(c.ju.id), map[string]any{"membership": "invite"}) != nil {
			c.r.Probe("scenario_user_invited")
		}
	case 3:
		if rm.tryAdd(c.ju, spec.MRoomMember, world.Str(c.ju.id), rm.joinContent(st, c.ju.id)) != nil {
			c.r.Probe("scenario_user_joined")
		}
	case 4:
		jr := rm.pickJoinRule()
		if rm.tryAdd(admin, spec.MRoomJoinRules, world.Str(""), rm.joinRuleContent(jr)) != nil {
			c.r.Probe("scenario_rule_" + jr)
		}
	}
	c.r.Logf("handshake user %s: membership %q, join rule %s", c.ju.id, rm.membership(rm.tip.after, c.ju.id), rm.joinRule(rm.tip.after))
}

func (c *c15) third() *world.Server {
	if len(c.rm.servers) > 2 {
		return c.rm.servers[2]
	}
	return c.rm.R()
}

func (c *c15) localInRoom() bool {
	for _, u := range c.rm.joined(c.rm.tip.after) {
		if u.srv == c.rm.R() {
			return true
		}
	}
	return false
}

// ---- queriers of the resident --------------------------------------------------------------

const (
	qTruth = iota
	qError
	qNil
	qLie
)

type querier struct {
	c       *c15
	jr, inv int
	pl, crt int
	info    int
	mem     int
	memLie  string
	infoAns gmsl.RestrictedRoomJoinInfo
	// per allow-listed room answers (first room: infoAns) and every joined
	// local user's membership event, whatever its power
	infoByRoom map[string]*gmsl.RestrictedRoomJoinInfo
	allLocal   []gmsl.PDU
	fakeJR     gmsl.PDU
	invLie     bool
	infoArgs   []string
}

func (q *querier) st() map[skey]string { return q.c.rm.tip.after }

func (q *querier) stateEvent(typ, sk string) (gmsl.PDU, error) {
	mode := qTruth
	switch typ {
	case spec.MRoomJoinRules:
		mode = q.jr
	case spec.MRoomPowerLevels:
		mode = q.pl
	case spec.MRoomCreate:
		mode = q.crt
	}
	switch mode {
	case qError:
		return nil, errors.New("querier: database error")
	case qNil:
		return nil, nil
	case qLie:
		if typ == spec.MRoomJoinRules && q.fakeJR != nil {
			return q.fakeJR, nil
		}
	}
	id, ok := q.st()[skey{typ, sk}]
	if !ok {
		return nil, nil
	}
	return q.c.rm.nodes[id].ev, nil
}

func (q *querier) CurrentStateEvent(ctx context.Context, roomID spec.RoomID, typ string, sk string) (gmsl.PDU, error) {
	ev, err := q.stateEvent(typ, sk)
	q.c.r.Logf("  querier CurrentStateEvent(%s) -> found=%v err=%v", strings.TrimPrefix(typ, "m.room."), ev != nil, err != nil)
	return ev, err
}

func (q *querier) invitePending(sender string) (bool, error) {
	switch q.inv {
	case qError:
		return false, errors.New("querier: database error")
	case qLie:
		return q.invLie, nil
	}
	return q.c.rm.membership(q.st(), sender) == "invite", nil
}

func (q *querier) InvitePending(ctx context.Context, roomID spec.RoomID, senderID spec.SenderID) (bool, error) {
	b, err := q.invitePending(string(senderID))
	q.c.r.Logf("  querier InvitePending(%s) -> %v err=%v", senderID, b, err != nil)
	return b, err
}

// roomInfo answers about one allow-listed room. The first room asked about
// gets the answer drawn in newQuerier; every further room gets its own
// tape-drawn answer (resident or not, user joined or not, which local users
// are joined), remembered so that the library and the oracle see the same.
func (q *querier) roomInfo(roomID string) (*gmsl.RestrictedRoomJoinInfo, error) {
	switch q.info {
	case qError:
		return nil, errors.New("querier: database error")
	case qNil:
		return nil, nil
	}
	if q.infoByRoom == nil {
		q.infoByRoom = map[string]*gmsl.RestrictedRoomJoinInfo{}
	}
	if a, ok := q.infoByRoom[roomID]; ok {
		if a == nil {
			return nil, nil
		}
		i := *a
		return &i, nil
	}
	if len(q.infoByRoom) == 0 {
		a := q.infoAns
		q.infoByRoom[roomID] = &a
		return &a, nil
	}
	t := q.c.t
	q.c.r.Probe("restricted_join_several_allowed_rooms")
	if t.Chance(100) {
		q.infoByRoom[roomID] = nil
		return nil, nil
	}
	a := &gmsl.RestrictedRoomJoinInfo{LocalServerInRoom: t.Bool(), UserJoinedToRoom: t.Bool()}
	for _, m := range q.infoAns.JoinedUsers {
		if t.Bool() {
			a.JoinedUsers = append(a.JoinedUsers, m)
		}
	}
	if len(a.JoinedUsers) == 0 && len(q.allLocal) > 0 && t.Bool() {
		a.JoinedUsers = append(a.JoinedUsers, sim.Pick(t, q.allLocal))
	}
	q.infoByRoom[roomID] = a
	i := *a
	return &i, nil
}

func (q *querier) RestrictedRoomJoinInfo(ctx context.Context, roomID spec.RoomID, senderID spec.SenderID, local spec.ServerName) (*gmsl.RestrictedRoomJoinInfo, error) {
	q.infoArgs = append(q.infoArgs, roomID.String())
	i, err := q.roomInfo(roomID.String())
	q.c.r.Logf("  querier RestrictedRoomJoinInfo(%s) -> nil=%v err=%v", roomID.String(), i == nil, err != nil)
	return i, err
}

func (q *querier) membership(sender string) (string, error) {
	switch q.mem {
	case qError:
		return "", errors.New("querier: database error")
	case qLie:
		return q.memLie, nil
	}
	return q.c.rm.membership(q.st(), sender), nil
}

func (q *querier) CurrentMembership(ctx context.Context, roomID spec.RoomID, senderID spec.SenderID) (string, error) {
	m, err := q.membership(string(senderID))
	q.c.r.Logf("  querier CurrentMembership(%s) -> %q err=%v", senderID, m, err != nil)
	return m, err
}

// newQuerier draws the scripted answers about the allow-listed room.
func (c *c15) newQuerier() *querier {
	rm, t := c.rm, c.t
	q := &querier{c: c}
	q.infoAns.LocalServerInRoom = !t.Chance(150)
	q.infoAns.UserJoinedToRoom = !t.Chance(300)
	mode := t.Weighted([]int{6, 1, 1})
	for _, u := range rm.joined(rm.tip.after) {
		if u.srv != rm.R() {
			continue
		}
		q.allLocal = append(q.allLocal, rm.nodes[rm.tip.after[skey{spec.MRoomMember, u.id}]].ev)
		if mode == 1 {
			break // nobody
		}
		if mode == 2 && rm.mayInvite(rm.tip.after, u.id) {
			continue // only users without the power to invite
		}
		q.infoAns.JoinedUsers = append(q.infoAns.JoinedUsers, rm.nodes[rm.tip.after[skey{spec.MRoomMember, u.id}]].ev)
	}
	return q
}

// ---- guards transcribed from the property text ----------------------------------------------

// restrictedGuard: "a restricted join can be authorised by a local user
// entitled to invite" (or needs no authorisation because an invite is
// pending), judged on the queriers' answers.
func (c *c15) restrictedGuard(q *querier, sender string) (bool, string) {
	rm := c.rm
	if !rm.canRestrict {
		return true, "" // the version has no restricted joins: nothing to authorise
	}
	jrEv, err := q.stateEvent(spec.MRoomJoinRules, "")
	if err != nil {
		return false, "join rules unavailable"
	}
	if jrEv == nil {
		return true, ""
	}
	var jr struct {
		Rule  string `json:"join_rule"`
		Allow []struct {
			Type   string `json:"type"`
			RoomID string `json:"room_id"`
		} `json:"allow"`
	}
	if json.Unmarshal(jrEv.Content(), &jr) != nil {
		return false, "join rules unreadable"
	}
	if jr.Rule != "restricted" && jr.Rule != "knock_restricted" {
		return true, ""
	}
	pending, err := q.invitePending(sender)
	if err != nil {
		return false, "pending invites unavailable"
	}
	if pending {
		return true, ""
	}
	plEv, err := q.stateEvent(spec.MRoomPowerLevels, "")
	if err != nil || plEv == nil {
		return false, "power levels unavailable"
	}
	pl, err := plEv.PowerLevels()
	if err != nil {
		return false, "power levels unreadable"
	}
	if rm.priv {
		if ce, err := q.stateEvent(spec.MRoomCreate, ""); err != nil || ce == nil {
			return false, "create event unavailable"
		}
	}
	for _, a := range jr.Allow {
		if a.Type != "m.room_membership" {
			continue
		}
		if _, err := spec.NewRoomID(a.RoomID); err != nil {
			continue
		}
		info, err := q.roomInfo(a.RoomID)
		if err != nil || info == nil || !info.LocalServerInRoom || !info.UserJoinedToRoom {
			continue
		}
		for _, m := range info.JoinedUsers {
			if m.Type() != spec.MRoomMember || m.StateKey() == nil {
				continue
			}
			u := *m.StateKey()
			if (rm.priv && rm.isCreator(u)) || pl.UserLevel(spec.SenderID(u)) >= pl.Invite {
				return true, ""
			}
		}
	}
	return false, "nobody entitled to invite can authorise the join"
}

// ---- template builder of the resident --------------------------------------------------------

type templateBuilder struct {
	c      *c15
	mode   string // "", wrong_type, nil_event, nil_state, error, state_incomplete
	called bool
	ev     gmsl.PDU
	state  []gmsl.PDU
	err    error
}

func (b *templateBuilder) build(p *gmsl.ProtoEvent) (gmsl.PDU, []gmsl.PDU, error) {
	rm := b.c.rm
	b.called = true
	if b.mode == "error" {
		b.err = spec.InternalServerError{Err: "template: database error"}
		return nil, nil, b.err
	}
	if p.RoomID != rm.roomID {
		b.err = spec.NotFound("template: unknown room")
		return nil, nil, b.err
	}
	st := rm.tip.after
	p.PrevEvents = []string{rm.tip.id}
	p.Depth = rm.tip.ev.Depth() + 1
	eb := rm.impl.NewEventBuilderFromProtoEvent(p)
	if b.mode == "wrong_type" {
		eb.Type = "m.room.topic"
	}
	if err := eb.AddAuthEvents(rm.provider(st)); err != nil {
		b.err = err
		return nil, nil, err
	}
	if eb.AuthEvents == nil {
		eb.AuthEvents = []string{}
	}
	p.AuthEvents = eb.AuthEvents
	k := rm.R().Current()
	ev, err := eb.Build(timeNow(), rm.R().Name, k.ID, k.Priv)
	if err != nil {
		b.err = err
		return nil, nil, err
	}
	var state []gmsl.PDU
	for _, a := range ev.AuthEventIDs() {
		if n := rm.nodes[a]; n != nil {
			state = append(state, n.ev)
		}
	}
	if state == nil {
		state = []gmsl.PDU{}
	}
	switch b.mode {
	case "nil_event":
		ev = nil
	case "nil_state":
		state = nil
	case "state_incomplete":
		if len(state) > 1 {
			state = state[:len(state)-1]
		}
	}
	b.ev, b.state = ev, state
	return ev, state, nil
}

func (b *templateBuilder) passesAuth() bool {
	return b.called && b.err == nil && b.ev != nil && b.state != nil && b.ev.Type() == spec.MRoomMember && allowedBy(b.ev, b.state) == nil
}

// ---- make_join -----------------------------------------------------------------------------------

func allVersions() []gmsl.RoomVersion { return world.Versions() }

func (c *c15) honestMakeJoin(q *querier, tb *templateBuilder, origin spec.ServerName, uid *spec.UserID, roomID *spec.RoomID) gmsl.HandleMakeJoinInput {
	rm := c.rm
	return gmsl.HandleMakeJoinInput{
		Context: context.Background(), UserID: *uid, SenderID: spec.SenderID(uid.String()), RoomID: *roomID,
		RoomVersion: rm.ver, RemoteVersions: allVersions(), RequestOrigin: origin, LocalServerName: rm.R().Name,
		LocalServerInRoom: c.localInRoom(), RoomQuerier: q, UserIDQuerier: uidFor, BuildEventTemplate: tb.build,
	}
}

// callMakeJoin runs the real handler and judges it against the guards.
func (c *c15) callMakeJoin(in gmsl.HandleMakeJoinInput, q *querier, tb *templateBuilder) (*gmsl.HandleMakeJoinResponse, error) {
	r, rm := c.r, c.rm
	var resp *gmsl.HandleMakeJoinResponse
	var err error
	if guard(r, "HandleMakeJoin", func() { resp, err = gmsl.HandleMakeJoin(in) }) {
		return nil, errors.New("aborted")
	}
	accepted := err == nil && resp != nil
	gVersion := false
	for _, v := range in.RemoteVersions {
		if v == in.RoomVersion {
			gVersion = true
		}
	}
	gOrigin := in.UserID.Domain() == in.RequestOrigin
	gInRoom := in.LocalServerInRoom
	gRestricted, whyR := c.restrictedGuard(q, string(in.SenderID))
	gAuth := tb.passesAuth()
	r.State(fmt.Sprintf("make_join %s accepted=%v err=%s", c.sig(), accepted, errText(err)))
	r.Logf("  HandleMakeJoin -> accepted=%v err=%v ; guards version=%v origin=%v in_room=%v restricted=%v(%s) template_auth=%v(called=%v)", accepted, errText(err), gVersion, gOrigin, gInRoom, gRestricted, whyR, gAuth, tb.called)
	if accepted {
		r.Probe("make_join_accepted")
		r.Check(gVersion, "C15", "makejoin_ignores_version_list", c.sig(), "HandleMakeJoin returned a template although the remote's version list %v lacks room version %s", in.RemoteVersions, in.RoomVersion)
		r.Check(gOrigin, "C15", "makejoin_foreign_user", c.sig(), "HandleMakeJoin returned a template for %s requested by server %s", in.UserID.String(), in.RequestOrigin)
		r.Check(gInRoom, "C15", "makejoin_not_resident", c.sig(), "HandleMakeJoin returned a template although the local server is not in the room")
		r.Check(gRestricted, "C15", "makejoin_restricted_unauthorised", c.sig(), "HandleMakeJoin returned a template for a restricted join that cannot be authorised: %s", whyR)
		r.Check(gAuth, "C15", "makejoin_template_fails_auth", c.sig(), "HandleMakeJoin returned a template whose event does not pass the auth rules (builder called=%v err=%v)", tb.called, tb.err)
		t := resp.JoinTemplateEvent
		var mc struct {
			Membership string `json:"membership"`
			Via        string `json:"join_authorised_via_users_server"`
		}
		_ = json.Unmarshal(t.Content, &mc)
		ok := t.Type == spec.MRoomMember && t.StateKey != nil && *t.StateKey == string(in.SenderID) && t.SenderID == string(in.SenderID) && t.RoomID == in.RoomID.String() && mc.Membership == "join" && resp.RoomVersion == in.RoomVersion
		r.Check(ok, "C15", "makejoin_template_shape", c.sig(), "HandleMakeJoin template is not a join of %s in %s (version %s): type=%s sender=%s room=%s membership=%s version=%s", in.SenderID, in.RoomID.String(), in.RoomVersion, t.Type, t.SenderID, t.RoomID, mc.Membership, resp.RoomVersion)
		if mc.Via != "" {
			r.Probe("make_join_nominates_authoriser")
			if s := rm.serverOf(mc.Via); s == nil || s.Name != in.LocalServerName {
				r.Probe("make_join_nominates_non_local_authoriser")
			}
		}
		return resp, err
	}
	r.Probe("make_join_refused")
	if gVersion && gOrigin && gInRoom && gRestricted && len(c.faults) == 0 && (gAuth || !tb.called) {
		r.Violate("C15", "makejoin_spurious_refusal", c.sig(), "HandleMakeJoin refused although every guard holds and no fault was injected: %v", err)
	}
	return resp, err
}

func failingDirectory(roomID spec.RoomID, sender spec.SenderID) (*spec.UserID, error) {
	return nil, errors.New("directory: lookup failed")
}

func errText(err error) string {
	if err == nil {
		return "<nil>"
	}
	var me spec.MatrixError
	if errors.As(err, &me) {
		return "MatrixError:" + string(me.ErrCode)
	}
	s := err.Error()
	if len(s) > 80 {
		s = s[:80]
	}
	return s
}

func (c *c15) applyQuerierFault(q *querier, k string) {
	switch k {
	case "querier_joinrules_error":
		q.jr = qError
	case "querier_joinrules_lie_restricted":
		ev, err := c.rm.buildWith(c.rm.users[0], []string{c.rm.tip.id}, c.rm.tip.ev.Depth()+1, c.rm.pdus(c.rm.tip.after), spec.MRoomJoinRules, world.Str(""), c.rm.joinRuleContent("restricted"))
		if err == nil {
			q.jr, q.fakeJR = qLie, ev
		}
	case "querier_invite_error":
		q.inv = qError
	case "querier_invite_lie":
		q.inv, q.invLie = qLie, c.t.Bool()
	case "querier_pl_missing":
		q.pl = qNil
	case "querier_pl_error":
		q.pl = qError
	case "querier_create_missing":
		q.crt = qNil
	case "querier_info_error":
		q.info = qError
	case "querier_info_nil":
		q.info = qNil
	}
}

// mismatchedOrigin returns a request origin that is not the joining user's
// server: another server, or a near miss of the right name (explicit default
// or other port, other case, trailing dot, sub- / super-string).
func (c *c15) mismatchedOrigin() spec.ServerName {
	t := c.t
	j := string(c.rm.J().Name)
	switch t.Weighted([]int{5, 2, 1, 1, 1, 1, 1}) {
	case 1:
		c.r.Probe("origin_near_miss")
		return spec.ServerName(j + ":8448")
	case 2:
		c.r.Probe("origin_near_miss")
		return spec.ServerName(j + ":" + sim.Pick(t, []string{"443", "8449", "80"}))
	case 3:
		c.r.Probe("origin_near_miss")
		return spec.ServerName(strings.ToUpper(j))
	case 4:
		c.r.Probe("origin_near_miss")
		return spec.ServerName(j + ".")
	case 5:
		c.r.Probe("origin_near_miss")
		return spec.ServerName("x" + j)
	case 6:
		c.r.Probe("origin_near_miss")
		return spec.ServerName(j[1:])
	}
	return c.third().Name
}

func (c *c15) opMakeJoin() {
	r, t, rm := c.r, c.t, c.rm
	q := c.newQuerier()
	tb := &templateBuilder{c: c}
	uid, _ := spec.NewUserID(c.ju.id, true)
	rid, _ := spec.NewRoomID(rm.roomID)
	in := c.honestMakeJoin(q, tb, rm.J().Name, uid, rid)
	r.Logf("op make_join %s -> %s", c.ju.id, rm.R().Name)
	kinds := []string{"versions_lack_room_version", "origin_mismatch", "user_of_other_server", "server_not_in_room", "unknown_room",
		"querier_joinrules_error", "querier_joinrules_lie_restricted", "querier_invite_error", "querier_invite_lie", "querier_pl_missing", "querier_pl_error", "querier_create_missing", "querier_info_error", "querier_info_nil",
		"template_wrong_type", "template_nil_event", "template_nil_state", "template_error", "template_state_incomplete", "directory_error"}
	nf := t.Weighted([]int{4, 4, 2, 1})
	for i := 0; i < nf; i++ {
		k := kinds[t.Weighted([]int{5, 4, 2, 3, 2, 1, 1, 1, 1, 1, 1, 1, 1, 1, 1, 1, 1, 1, 2, 2})]
		switch {
		case k == "directory_error":
			// the user directory fails: whether the template passes the auth
			// rules cannot be established, which is not the same as passing
			in.UserIDQuerier = failingDirectory
			if t.Chance(700) {
				// ... for the requesting user only
				who := string(in.SenderID)
				in.UserIDQuerier = func(roomID spec.RoomID, sender spec.SenderID) (*spec.UserID, error) {
					if string(sender) == who {
						return nil, errors.New("directory: lookup failed")
					}
					return uidFor(roomID, sender)
				}
			}
		case k == "versions_lack_room_version":
			var vs []gmsl.RoomVersion
			if !t.Chance(200) {
				for _, v := range allVersions() {
					if v != rm.ver {
						vs = append(vs, v)
					}
				}
				vs = sim.Shuffle(t, vs)[:t.Range(0, len(vs))]
			}
			in.RemoteVersions = vs
		case k == "origin_mismatch":
			in.RequestOrigin = c.mismatchedOrigin()
		case k == "user_of_other_server":
			other := rm.users[0]
			if len(rm.servers) > 2 && t.Bool() {
				other = rm.users[len(rm.users)-1]
			}
			ou, _ := spec.NewUserID(other.id, true)
			in.UserID, in.SenderID = *ou, spec.SenderID(other.id)
		case k == "server_not_in_room":
			in.LocalServerInRoom = false
		case k == "unknown_room":
			orid, _ := spec.NewRoomID("!nowhere:" + string(rm.R().Name))
			if c.c14.other != nil && t.Bool() {
				orid, _ = spec.NewRoomID(c.c14.other.roomID)
			}
			in.RoomID = *orid
		case strings.HasPrefix(k, "querier_"):
			c.applyQuerierFault(q, k)
		case strings.HasPrefix(k, "template_"):
			tb.mode = strings.TrimPrefix(k, "template_")
		}
		c.fault(k)
	}
	c.callMakeJoin(in, q, tb)
}

// ---- make_leave ----------------------------------------------------------------------------------

func (c *c15) opMakeLeave() {
	r, t, rm := c.r, c.t, c.rm
	tb := &templateBuilder{c: c}
	uid, _ := spec.NewUserID(c.ju.id, true)
	rid, _ := spec.NewRoomID(rm.roomID)
	in := gmsl.HandleMakeLeaveInput{UserID: *uid, SenderID: spec.SenderID(c.ju.id), RoomID: *rid, RoomVersion: rm.ver, RequestOrigin: rm.J().Name,
		LocalServerName: rm.R().Name, LocalServerInRoom: c.localInRoom(), UserIDQuerier: uidFor, BuildEventTemplate: tb.build}
	r.Logf("op make_leave %s -> %s", c.ju.id, rm.R().Name)
	nf := t.Weighted([]int{4, 4, 2})
	for i := 0; i < nf; i++ {
		k := []string{"origin_mismatch", "server_not_in_room", "template_wrong_type", "template_nil_event", "template_nil_state", "template_error", "user_of_other_server", "directory_error"}[t.Weighted([]int{4, 3, 1, 1, 1, 1, 2, 2})]
		switch {
		case k == "directory_error":
			in.UserIDQuerier = failingDirectory
			if t.Chance(700) {
				// ... for the requesting user only
				who := string(in.SenderID)
				in.UserIDQuerier = func(roomID spec.RoomID, sender spec.SenderID) (*spec.UserID, error) {
					if string(sender) == who {
						return nil, errors.New("directory: lookup failed")
					}
					return uidFor(roomID, sender)
				}
			}
		case k == "origin_mismatch":
			in.RequestOrigin = c.mismatchedOrigin()
		case k == "server_not_in_room":
			in.LocalServerInRoom = false
		case k == "user_of_other_server":
			ou, _ := spec.NewUserID(rm.users[0].id, true)
			in.UserID, in.SenderID = *ou, spec.SenderID(rm.users[0].id)
		default:
			tb.mode = strings.TrimPrefix(k, "template_")
		}
		c.fault(k)
	}
	var resp *gmsl.HandleMakeLeaveResponse
	var err error
	if guard(r, "HandleMakeLeave", func() { resp, err = gmsl.HandleMakeLeave(in) }) {
		return
	}
	accepted := err == nil && resp != nil
	gOrigin := in.UserID.Domain() == in.RequestOrigin
	gAuth := tb.passesAuth()
	r.State(fmt.Sprintf("make_leave %s accepted=%v err=%s", c.sig(), accepted, errText(err)))
	r.Logf("  HandleMakeLeave -> accepted=%v err=%v ; guards origin=%v in_room=%v template_auth=%v", accepted, errText(err), gOrigin, in.LocalServerInRoom, gAuth)
	if accepted {
		r.Probe("make_leave_accepted")
		r.Check(gOrigin, "C15", "makeleave_foreign_user", c.sig(), "HandleMakeLeave returned a template for %s requested by server %s", in.UserID.String(), in.RequestOrigin)
		r.Check(in.LocalServerInRoom, "C15", "makeleave_not_resident", c.sig(), "HandleMakeLeave returned a template although the local server is not in the room")
		r.Check(gAuth, "C15", "makeleave_template_fails_auth", c.sig(), "HandleMakeLeave returned a template whose event does not pass the auth rules")
		tp := resp.LeaveTemplateEvent
		var mc struct {
			Membership string `json:"membership"`
		}
		_ = json.Unmarshal(tp.Content, &mc)
		r.Check(tp.Type == spec.MRoomMember && tp.StateKey != nil && *tp.StateKey == string(in.SenderID) && tp.RoomID == in.RoomID.String() && mc.Membership == "leave", "C15", "makeleave_template_shape", c.sig(), "HandleMakeLeave template is not a leave of %s", in.SenderID)
		return
	}
	r.Probe("make_leave_refused")
	if gOrigin && in.LocalServerInRoom && len(c.faults) == 0 && (gAuth || !tb.called) {
		r.Violate("C15", "makeleave_spurious_refusal", c.sig(), "HandleMakeLeave refused although every guard holds and no fault was injected: %v", err)
	}
}

// ---- signature helpers --------------------------------------------------------------------------

// validlySignedBy: ground-truth check (ledger keys, strict validity at the
// event's timestamp) that ev carries a signature of server over its signed
// projection.
func (c *c15) validlySignedBy(ev gmsl.PDU, server spec.ServerName) bool {
	red, err := c.rm.impl.RedactEventJSON(ev.JSON())
	if err != nil {
		return false
	}
	s := c.rm.ledger.Servers[server]
	if s == nil {
		return false
	}
	ts := ev.OriginServerTS()
	for keyID := range getSigs(ev.JSON())[string(server)] {
		k := s.KeyByID(gmsl.KeyID(keyID))
		if k == nil {
			continue
		}
		if !k.Current() && ts >= spec.AsTimestamp(k.ExpiredAt) {
			continue
		}
		if k.Current() && ts.Time().After(timeNow().Add(s.ValidFor)) {
			continue
		}
		if gmsl.VerifyJSON(string(server), gmsl.KeyID(keyID), k.Pub, red) == nil {
			return true
		}
	}
	return false
}

func sameProjection(a, b []byte) bool {
	var ma, mb map[string]json.RawMessage
	if json.Unmarshal(a, &ma) != nil || json.Unmarshal(b, &mb) != nil {
		return false
	}
	for _, m := range []map[string]json.RawMessage{ma, mb} {
		delete(m, "signatures")
		delete(m, "unsigned")
	}
	ca, _ := json.Marshal(ma)
	cb, _ := json.Marshal(mb)
	xa, e1 := gmsl.CanonicalJSON(ca)
	xb, e2 := gmsl.CanonicalJSON(cb)
	return e1 == nil && e2 == nil && bytes.Equal(xa, xb)
}

// keepsSignatures reports whether every signature of before is still in after.
func keepsSignatures(before, after []byte, local spec.ServerName) bool {
	sa := getSigs(after)
	for srv, ks := range getSigs(before) {
		if srv == string(local) {
			continue // the local server may replace what was filed under its own name
		}
		for k, v := range ks {
			if sa[srv][k] != v {
				return false
			}
		}
	}
	return true
}

// pickVerifier returns the JSONVerifier the handler is given: the ledger
// verifier or a real KeyRing over a ledger-backed key database.
func (c *c15) pickVerifier() (gmsl.JSONVerifier, bool) {
	if c.t.Chance(400) {
		return &gmsl.KeyRing{KeyDatabase: c.db}, true
	}
	return c.ver, false
}

// ---- send_join -----------------------------------------------------------------------------------

type joinShape struct {
	typ      string
	sender   user
	stateKey *string
	roomID   string
	content  map[string]any
	raw      json.RawMessage // content given as text (repeated or oddly-cased member names)
	signer   *world.Server
	key      *world.Key
	ts       time.Time
	sigFault string
}

func (c *c15) buildShape(s joinShape, authFrom []gmsl.PDU) (gmsl.PDU, error) {
	rm := c.rm
	p := world.Proto{RoomID: s.roomID, Sender: s.sender.id, Type: s.typ, StateKey: s.stateKey, Content: s.content, Prev: []string{rm.tip.id}, Depth: rm.tip.ev.Depth() + 1, AuthFrom: provOf(authFrom)}
	if s.raw != nil {
		p.Content = s.raw
	}
	return world.Build(rm.impl, p, s.ts, s.signer.Name, s.key)
}

func (c *c15) opSendJoin() {
	r, t, rm := c.r, c.t, c.rm
	q := c.newQuerier()
	st := rm.tip.after
	sh := joinShape{typ: spec.MRoomMember, sender: c.ju, stateKey: world.Str(c.ju.id), roomID: rm.roomID, content: rm.joinContent(st, c.ju.id), signer: rm.J(), key: rm.J().Current(), ts: timeNow()}
	origin := rm.J().Name
	r.Logf("op send_join %s -> %s", c.ju.id, rm.R().Name)
	pathRoom, pathEvent := "", ""
	useKeyRing := false
	var verifier gmsl.JSONVerifier
	verifier, useKeyRing = c.pickVerifier()
	kinds := []string{"path_room_mismatch", "path_event_mismatch", "membership_not_join", "state_key_other_user", "state_key_empty", "not_a_state_event", "sender_of_other_server", "origin_mismatch",
		"event_other_room", "sig_corrupt", "sig_strip", "sig_wrong_key", "sig_expired_key", "sig_future_ts", "querier_says_banned", "querier_membership_error", "authorised_via_remote_user", "authorised_via_invalid", "wrong_type", "verifier_error", "authorised_via_shadowed"}
	nf := t.Weighted([]int{4, 4, 2, 1})
	sigFaulted := false
	for i := 0; i < nf; i++ {
		k := kinds[t.Weighted([]int{3, 3, 3, 3, 1, 1, 3, 3, 2, 2, 2, 2, 2, 1, 3, 1, 3, 1, 2, 1, 2})]
		switch k {
		case "path_room_mismatch":
			pathRoom = "!elsewhere:" + string(rm.R().Name)
			if c.c14.other != nil {
				pathRoom = c.c14.other.roomID
			}
		case "path_event_mismatch":
			pathEvent = world.FakeEventID(t, rm.impl, rm.J().Name)
		case "membership_not_join":
			sh.content = map[string]any{"membership": sim.Pick(t, []string{"leave", "invite", "knock", "ban"})}
			if t.Chance(150) {
				sh.content = map[string]any{"reason": "no membership"}
			}
		case "state_key_other_user":
			sh.stateKey = world.Str(rm.users[3-(t.Intn(2))].id)
			if *sh.stateKey == sh.sender.id {
				sh.stateKey = world.Str(rm.users[0].id)
			}
		case "state_key_empty":
			sh.stateKey = world.Str("")
		case "not_a_state_event":
			sh.stateKey = nil
		case "sender_of_other_server":
			if sh.key != sh.signer.Current() {
				continue // an expired key of the original signer was already chosen
			}
			// somebody else's user, signed by that user's server, submitted by J
			o := rm.users[0]
			if len(rm.servers) > 2 {
				o = rm.users[len(rm.users)-1]
			}
			sh.sender, sh.stateKey, sh.signer, sh.key = o, world.Str(o.id), o.srv, o.srv.Current()
		case "origin_mismatch":
			origin = c.mismatchedOrigin()
		case "event_other_room":
			if c.c14.other == nil {
				continue
			}
			sh.roomID = c.c14.other.roomID
		case "sig_corrupt", "sig_strip", "sig_wrong_key":
			if sigFaulted {
				continue
			}
			sh.sigFault, sigFaulted = k, true
		case "sig_expired_key":
			if sigFaulted {
				continue
			}
			// the signer rotated its key; the join is signed with the old key but dated after the rotation
			old := sh.signer.Current()
			sh.signer.Rotate(t, timeNow())
			time.Sleep(time.Duration(t.Range(1, 3600)) * time.Second)
			sh.key, sh.ts, sigFaulted = old, timeNow(), true
			r.Fault("key_rotate")
			r.Fault("clock_jump")
		case "sig_future_ts":
			if sigFaulted || !useKeyRing {
				continue
			}
			sh.ts, sigFaulted = timeNow().Add(time.Duration(t.Range(2, 30))*24*time.Hour), true
		case "querier_says_banned":
			q.mem, q.memLie = qLie, "ban"
		case "querier_membership_error":
			q.mem = qError
		case "authorised_via_remote_user":
			sh.content = map[string]any{"membership": "join", "join_authorised_via_users_server": sim.Pick(t, []string{rm.users[3].id, "@nobody:" + string(c.third().Name), rm.users[2].id})}
			if s := rm.serverOf(sh.content["join_authorised_via_users_server"].(string)); s == rm.R() {
				sh.content["join_authorised_via_users_server"] = rm.users[2].id
			}
		case "authorised_via_shadowed":
			// the authorising user named twice, or under another letter case:
			// readers of the content (encoding/json: last occurrence, names
			// matched case-insensitively) see the remote user
			local, remote := rm.users[0].id, sim.Pick(t, []string{rm.users[3].id, "@nobody:" + string(c.third().Name)})
			if rm.serverOf(remote) == rm.R() {
				remote = "@nobody:" + string(c.third().Name)
			}
			switch t.Intn(3) {
			case 0:
				sh.raw = json.RawMessage(fmt.Sprintf(`{"join_authorised_via_users_server":%q,"join_authorised_via_users_server":%q,"membership":"join"}`, local, remote))
			case 1:
				sh.raw = json.RawMessage(fmt.Sprintf(`{"Join_Authorised_Via_Users_Server":%q,"membership":"join"}`, remote))
			case 2:
				sh.raw = json.RawMessage(fmt.Sprintf(`{"join_authorised_via_users_server":%q,"membership":"join","JOIN_AUTHORISED_VIA_USERS_SERVER":%q}`, local, remote))
			}
		case "authorised_via_invalid":
			sh.content = map[string]any{"membership": "join", "join_authorised_via_users_server": sim.Pick(t, []string{"not a user id", "@:", "r0"})}
		case "wrong_type":
			sh.typ = sim.Pick(t, []string{"m.room.topic", "org.example.thing", "m.room.join_rules"})
		case "verifier_error":
			c.ver.Fail = errors.New("key ring: database unavailable")
			c.db.fail = true
		}
		c.fault(k)
	}
	authFrom := rm.pdus(st)
	if sh.roomID != rm.roomID && c.c14.other != nil {
		authFrom = c.c14.other.pdus(c.c14.other.tip.after)
	}
	ev, err := c.buildShape(sh, authFrom)
	if err != nil {
		r.Probe("send_join_build_refused")
		r.Logf("  join event could not be built: %v", err)
		return
	}
	raw := append([]byte{}, ev.JSON()...)
	if sh.sigFault != "" {
		raw = rm.sigFault(ev, sh.sigFault, string(sh.signer.Name))
	}
	// Not faults, so acceptance stays due: a replayed send_join (the user is
	// already joined), and an event that arrives with something under the
	// resident's own name among its signatures - a forgery, or a signature
	// under a key the resident has since rotated away. What comes back must
	// still carry a valid signature of the resident.
	if t.Chance(150) {
		q.mem, q.memLie = qLie, "join"
		r.Probe("send_join_replayed_user_already_joined")
	}
	if t.Chance(150) {
		sigs := getSigs(raw)
		kid := sim.Pick(t, []string{string(rm.R().Current().ID), "ed25519:retired"})
		if sigs[string(rm.R().Name)] == nil {
			sigs[string(rm.R().Name)] = map[string]string{}
		}
		sigs[string(rm.R().Name)][kid] = base64.RawStdEncoding.EncodeToString(world.CompactBytes(t, "forged-local-signature", 64))
		raw = setSigs(raw, sigs)
		r.Probe("send_join_carries_signature_under_resident_name")
		if t.Chance(300) {
			// ... or just a null entry under the resident's name
			var top map[string]json.RawMessage
			var sm map[string]json.RawMessage
			if json.Unmarshal(raw, &top) == nil && json.Unmarshal(top["signatures"], &sm) == nil {
				sm[string(rm.R().Name)] = json.RawMessage("null")
				top["signatures"], _ = json.Marshal(sm)
				if nb, err := json.Marshal(top); err == nil {
					raw = nb
					r.Probe("send_join_carries_null_entry_under_resident_name")
				}
			}
		}
	}
	submitted := append([]byte{}, raw...)
	if pathRoom == "" {
		pathRoom = ev.RoomID().String()
	}
	if pathEvent == "" {
		pathEvent = ev.EventID()
	}
	rid, err := spec.NewRoomID(pathRoom)
	if err != nil {
		r.Probe("send_join_bad_path_room")
		return
	}
	k := rm.R().Current()
	in := gmsl.HandleSendJoinInput{Context: context.Background(), RoomID: *rid, EventID: pathEvent, JoinEvent: raw, RoomVersion: rm.ver, RequestOrigin: origin,
		LocalServerName: rm.R().Name, KeyID: k.ID, PrivateKey: k.Priv, Verifier: verifier, MembershipQuerier: q, UserIDQuerier: uidFor,
		StoreSenderIDFromPublicID: func(ctx context.Context, senderID spec.SenderID, userID string, id spec.RoomID) error { return nil }}
	c.callSendJoin(in, ev, submitted, q, sigFaulted)
}

// callSendJoin runs the real handler and judges it. ev is the event as built
// (before any signature fault), submitted the bytes handed over.
func (c *c15) callSendJoin(in gmsl.HandleSendJoinInput, ev gmsl.PDU, submitted []byte, q *querier, sigFaulted bool) (*gmsl.HandleSendJoinResponse, error) {
	r, rm := c.r, c.rm
	var resp *gmsl.HandleSendJoinResponse
	var err error
	if guard(r, "HandleSendJoin", func() { resp, err = gmsl.HandleSendJoin(in) }) {
		return nil, errors.New("aborted")
	}
	accepted := err == nil && resp != nil && resp.JoinEvent != nil
	mem, _ := ev.Membership()
	gJoin := ev.Type() == spec.MRoomMember && ev.StateKey() != nil && mem == "join"
	gSelf := ev.StateKey() != nil && *ev.StateKey() != "" && *ev.StateKey() == string(ev.SenderID())
	gRoom := ev.RoomID().String() == in.RoomID.String()
	gEventID := ev.EventID() == in.EventID
	sender, uerr := spec.NewUserID(string(ev.SenderID()), true)
	gOrigin := uerr == nil && sender.Domain() == in.RequestOrigin
	sub := rm.parse(submitted)
	gSigned := !sigFaulted && sub != nil && c.validlySignedBy(sub, in.RequestOrigin) && c.ver.Fail == nil
	m, merr := q.membership(string(ev.SenderID()))
	gNotBanned := merr == nil && m != "ban"
	var mc struct {
		Via string `json:"join_authorised_via_users_server"`
	}
	_ = json.Unmarshal(ev.Content(), &mc)
	gVia := true
	if mc.Via != "" {
		u, e := spec.NewUserID(mc.Via, true)
		gVia = e == nil && u.Domain() == in.LocalServerName
	}
	r.State(fmt.Sprintf("send_join %s accepted=%v err=%s", c.sig(), accepted, errText(err)))
	r.Logf("  HandleSendJoin -> accepted=%v err=%v ; guards join=%v self=%v room=%v event_id=%v origin=%v signed=%v not_banned=%v via_local=%v", accepted, errText(err), gJoin, gSelf, gRoom, gEventID, gOrigin, gSigned, gNotBanned, gVia)
	if accepted {
		r.Probe("send_join_accepted")
		if ev.Type() != spec.MRoomMember {
			r.Violate("C15", "sendjoin_accepts_non_member_event", "not_a_member_event", "HandleSendJoin accepted and counter-signed an event of type %s (content.membership=%q)", ev.Type(), mem)
		}
		r.Check(gJoin, "C15", "sendjoin_accepts_non_join", c.sig(), "HandleSendJoin accepted an event that is not a join (type %s membership %q)", ev.Type(), mem)
		r.Check(gSelf, "C15", "sendjoin_sender_not_state_key", c.sig(), "HandleSendJoin accepted a join whose sender %s differs from its state key", ev.SenderID())
		r.Check(gRoom, "C15", "sendjoin_room_mismatch", c.sig(), "HandleSendJoin accepted an event of room %s for request room %s", ev.RoomID().String(), in.RoomID.String())
		r.Check(gEventID, "C15", "sendjoin_event_id_mismatch", c.sig(), "HandleSendJoin accepted event %s for request event ID %s", ev.EventID(), in.EventID)
		r.Check(gOrigin, "C15", "sendjoin_foreign_sender", c.sig(), "HandleSendJoin accepted a join of %s submitted by server %s", ev.SenderID(), in.RequestOrigin)
		r.Check(gSigned, "C15", "sendjoin_unsigned", c.sig(), "HandleSendJoin accepted a join that the requesting server %s has not validly signed", in.RequestOrigin)
		r.Check(gNotBanned, "C15", "sendjoin_banned", c.sig(), "HandleSendJoin accepted a join of a user whose membership is %q (err=%v)", m, merr)
		r.Check(gVia, "C15", "sendjoin_remote_authoriser", c.sig(), "HandleSendJoin accepted a join authorised via %q which is not a user of %s", mc.Via, in.LocalServerName)
		c.checkCounterSigned("sendjoin", resp.JoinEvent, submitted, in.LocalServerName)
		if resp.AlreadyJoined {
			r.Probe("send_join_already_joined")
		}
		return resp, err
	}
	r.Probe("send_join_refused")
	if gJoin && gSelf && gRoom && gEventID && gOrigin && gSigned && gNotBanned && gVia && len(c.faults) == 0 {
		r.Violate("C15", "sendjoin_spurious_refusal", c.sig(), "HandleSendJoin refused although every guard holds and no fault was injected: %v", err)
	}
	return resp, err
}

// checkCounterSigned: what a handler returns carries a valid signature of the
// local server over the unmodified event.
func (c *c15) checkCounterSigned(op string, got gmsl.PDU, submitted []byte, local spec.ServerName) {
	r := c.r
	// the returned PDU is the submitted event: what it reports about itself is
	// what its own JSON says
	if p := c.rm.parse(got.JSON()); p != nil {
		same := strings.Join(p.AuthEventIDs(), ",") == strings.Join(got.AuthEventIDs(), ",") && strings.Join(p.PrevEventIDs(), ",") == strings.Join(got.PrevEventIDs(), ",") &&
			p.EventID() == got.EventID() && p.Type() == got.Type() && p.SenderID() == got.SenderID() && p.Version() == got.Version()
		if same && !(p.Type() == spec.MRoomCreate) {
			same = p.RoomID().String() == got.RoomID().String()
		}
		r.Check(same, "C15", op+"_event_modified", "accessors:"+c.sig(), "%s: the returned PDU misreports the event it carries (auth events %v, its JSON says %v; id %s vs %s)", op, got.AuthEventIDs(), p.AuthEventIDs(), got.EventID(), p.EventID())
	}
	r.Check(c.validlySignedBy(got, local), "C15", op+"_not_countersigned", c.sig(), "%s: the returned event carries no valid signature of the local server %s", op, local)
	r.Check(sameProjection(got.JSON(), submitted), "C15", op+"_event_modified", c.sig(), "%s: the returned event differs from the submitted one outside signatures/unsigned", op)
	r.Check(keepsSignatures(submitted, got.JSON(), local), "C15", op+"_signatures_lost", c.sig(), "%s: the returned event lost a signature the submitted event carried", op)
}

// ---- invite ------------------------------------------------------------------------------------------

type inviteQ struct {
	c               *c15
	known           bool
	knownErr        bool
	mem             string
	memErr          bool
	stateErr        bool
	stateEmpty      bool
	membershipCalls int
}

func (q *inviteQ) IsKnownRoom(ctx context.Context, roomID spec.RoomID) (bool, error) {
	if q.knownErr {
		return false, errors.New("querier: database error")
	}
	return q.known, nil
}

func (q *inviteQ) CurrentMembership(ctx context.Context, roomID spec.RoomID, senderID spec.SenderID) (string, error) {
	q.membershipCalls++
	if q.memErr {
		return "", errors.New("querier: database error")
	}
	return q.mem, nil
}

func (q *inviteQ) GetAuthEvents(ctx context.Context, ev gmsl.PDU) (gmsl.AuthEventProvider, error) {
	return q.c.rm.provider(q.c.rm.tip.after), nil
}

func (q *inviteQ) GetState(ctx context.Context, roomID spec.RoomID, wanted []gmsl.StateKeyTuple) ([]gmsl.PDU, error) {
	if q.stateErr {
		return nil, errors.New("querier: database error")
	}
	if q.stateEmpty {
		return nil, nil
	}
	var out []gmsl.PDU
	for _, w := range wanted {
		if id, ok := q.c.rm.tip.after[skey{w.EventType, w.StateKey}]; ok {
			out = append(out, q.c.rm.nodes[id].ev)
		}
	}
	return out, nil
}

func (c *c15) strippedState() []gmsl.InviteStrippedState {
	var out []gmsl.InviteStrippedState
	for _, k := range []skey{{spec.MRoomCreate, ""}, {spec.MRoomJoinRules, ""}} {
		if id, ok := c.rm.tip.after[k]; ok {
			out = append(out, gmsl.NewInviteStrippedState(c.rm.nodes[id].ev))
		}
	}
	return out
}

func (c *c15) opInvite() {
	r, t, rm := c.r, c.t, c.rm
	inviter := rm.users[0]
	for _, u := range rm.joined(rm.tip.after) {
		if u.srv == rm.R() && rm.mayInvite(rm.tip.after, u.id) {
			inviter = u
			break
		}
	}
	target := c.ju
	sh := joinShape{typ: spec.MRoomMember, sender: inviter, stateKey: world.Str(target.id), roomID: rm.roomID, content: map[string]any{"membership": "invite"}, signer: rm.R(), key: rm.R().Current(), ts: timeNow()}
	if t.Chance(150) {
		// not a fault: the inviter is a user of the invited user's own server
		// (the invite reaches it over federation all the same, relayed by a
		// resident); the server that has to have signed it is then the very
		// server that is about to counter-sign it
		inviter = rm.users[5-indexOf(rm.users, target)]
		sh.sender, sh.signer, sh.key = inviter, rm.J(), rm.J().Current()
		r.Probe("invite_by_user_of_the_invited_server")
	}
	q := &inviteQ{c: c, known: t.Chance(400), mem: rm.membership(rm.tip.after, target.id)}
	if q.mem == "join" {
		q.known = true
	}
	verifier, useKeyRing := c.pickVerifier()
	pathRoom := ""
	version := rm.ver
	r.Logf("op invite %s by %s (J knows room=%v, membership %q)", target.id, inviter.id, q.known, q.mem)
	kinds := []string{"membership_not_invite", "wrong_type", "state_key_other_user", "path_room_mismatch", "event_other_room", "sig_corrupt", "sig_strip", "sig_wrong_key", "sig_expired_key", "sig_future_ts",
		"already_joined_known_room", "already_joined_unknown_room", "querier_known_error", "querier_membership_error", "querier_state_error", "unsupported_version", "not_a_state_event", "verifier_error", "known_room_no_stripped_state"}
	nf := t.Weighted([]int{4, 4, 2, 1})
	sigFaulted := false
	noStripped := false
	for i := 0; i < nf; i++ {
		k := kinds[t.Weighted([]int{5, 3, 3, 3, 2, 2, 2, 2, 2, 1, 3, 1, 1, 1, 1, 1, 1, 1, 1})]
		switch k {
		case "membership_not_invite":
			sh.content = map[string]any{"membership": sim.Pick(t, []string{"join", "leave", "ban", "knock"})}
			if t.Chance(150) {
				sh.content = map[string]any{"reason": "x"}
			}
		case "wrong_type":
			sh.typ = sim.Pick(t, []string{"m.room.topic", "m.room.power_levels", "org.example.thing"})
			if sh.typ == "m.room.power_levels" {
				sh.stateKey = world.Str("")
				sh.content = map[string]any{"users": map[string]any{inviter.id: 100}}
			}
		case "state_key_other_user":
			o := rm.users[5-indexOf(rm.users, target)] // the other J user
			sh.stateKey = world.Str(o.id)
		case "not_a_state_event":
			sh.stateKey, sh.typ, sh.content = nil, "m.room.message", map[string]any{"body": "x", "msgtype": "m.text"}
		case "path_room_mismatch":
			pathRoom = "!elsewhere:" + string(rm.R().Name)
			if c.c14.other != nil {
				pathRoom = c.c14.other.roomID
			}
		case "event_other_room":
			if c.c14.other == nil {
				continue
			}
			sh.roomID = c.c14.other.roomID
		case "sig_corrupt", "sig_strip", "sig_wrong_key":
			if sigFaulted {
				continue
			}
			sh.sigFault, sigFaulted = k, true
		case "sig_expired_key":
			if sigFaulted {
				continue
			}
			old := sh.signer.Current()
			sh.signer.Rotate(t, timeNow())
			time.Sleep(time.Duration(t.Range(1, 3600)) * time.Second)
			sh.key, sh.ts, sigFaulted = old, timeNow(), true
			r.Fault("key_rotate")
			r.Fault("clock_jump")
		case "sig_future_ts":
			if sigFaulted || !useKeyRing {
				continue
			}
			sh.ts, sigFaulted = timeNow().Add(time.Duration(t.Range(2, 30))*24*time.Hour), true
		case "already_joined_known_room":
			q.known, q.mem = true, "join"
		case "already_joined_unknown_room":
			q.known, q.mem = false, "join"
		case "querier_known_error":
			q.knownErr = true
		case "querier_membership_error":
			q.memErr = true
		case "querier_state_error":
			q.stateErr, noStripped = true, true
		case "known_room_no_stripped_state":
			q.known, q.stateEmpty, noStripped = true, true, true
		case "unsupported_version":
			version = "99.unknown"
		case "verifier_error":
			c.ver.Fail = errors.New("key ring: database unavailable")
			c.db.fail = true
		}
		c.fault(k)
	}
	authFrom := rm.pdus(rm.tip.after)
	if sh.roomID != rm.roomID && c.c14.other != nil {
		authFrom = c.c14.other.pdus(c.c14.other.tip.after)
	}
	ev, err := c.buildShape(sh, authFrom)
	if err != nil {
		r.Probe("invite_build_refused")
		r.Logf("  invite event could not be built: %v", err)
		return
	}
	raw := append([]byte{}, ev.JSON()...)
	if sh.sigFault != "" {
		raw = rm.sigFault(ev, sh.sigFault, string(sh.signer.Name))
	}
	if pathRoom == "" {
		pathRoom = ev.RoomID().String()
	}
	rid, err := spec.NewRoomID(pathRoom)
	if err != nil {
		return
	}
	var stripped []gmsl.InviteStrippedState
	if !noStripped && t.Chance(700) {
		stripped = c.strippedState()
	}
	c.callInvite(raw, ev, *rid, version, target, q, verifier, stripped, sigFaulted)
}

func indexOf(us []user, u user) int {
	for i := range us {
		if us[i].id == u.id {
			return i
		}
	}
	return 0
}

// callInvite hands the invite to the real HandleInvite of J and judges it.
func (c *c15) callInvite(raw []byte, built gmsl.PDU, roomID spec.RoomID, version gmsl.RoomVersion, target user, q *inviteQ, verifier gmsl.JSONVerifier, stripped []gmsl.InviteStrippedState, sigFaulted bool) (gmsl.PDU, error) {
	r, rm := c.r, c.rm
	ev, perr := rm.impl.NewEventFromUntrustedJSON(raw)
	if perr != nil {
		r.Probe("invite_unparsable")
		r.Logf("  invite does not parse: %v", perr)
		return nil, perr
	}
	submitted := append([]byte{}, ev.JSON()...)
	tu, _ := spec.NewUserID(target.id, true)
	k := target.srv.Current()
	in := gmsl.HandleInviteInput{RoomID: roomID, RoomVersion: version, InvitedUser: *tu, InvitedSenderID: spec.SenderID(target.id), InviteEvent: ev, StrippedState: stripped,
		KeyID: k.ID, PrivateKey: k.Priv, Verifier: verifier, RoomQuerier: q, MembershipQuerier: q, StateQuerier: q, UserIDQuerier: uidFor}
	var got gmsl.PDU
	var err error
	if guard(r, "HandleInvite", func() { got, err = gmsl.HandleInvite(context.Background(), in) }) {
		return nil, errors.New("aborted")
	}
	accepted := err == nil && got != nil
	mem, _ := built.Membership()
	gInvite := built.Type() == spec.MRoomMember && built.StateKey() != nil && mem == "invite"
	gTarget := built.StateKey() != nil && *built.StateKey() == target.id
	gRoom := built.RoomID().String() == roomID.String()
	sender, uerr := spec.NewUserID(string(built.SenderID()), true)
	sub := rm.parse(submitted)
	gSigned := !sigFaulted && uerr == nil && sub != nil && c.validlySignedBy(sub, sender.Domain()) && c.ver.Fail == nil
	gNotJoined := !(q.known && !q.knownErr && q.mem == "join" && !q.memErr)
	_, verr := gmsl.GetRoomVersion(version)
	gVersion := verr == nil
	r.State(fmt.Sprintf("invite %s accepted=%v err=%s", c.sig(), accepted, errText(err)))
	r.Logf("  HandleInvite -> accepted=%v err=%v ; guards invite=%v target=%v room=%v signed=%v not_joined=%v version=%v", accepted, errText(err), gInvite, gTarget, gRoom, gSigned, gNotJoined, gVersion)
	if accepted {
		r.Probe("invite_accepted")
		if built.Type() != spec.MRoomMember || mem != "invite" {
			what := "membership_not_invite"
			if built.Type() != spec.MRoomMember {
				what = "not_a_member_event"
			}
			r.Violate("C15", "invite_accepts_non_invite", what, "HandleInvite accepted and counter-signed an event that is not an invite (type %s, membership %q)", built.Type(), mem)
		}
		r.Check(gRoom, "C15", "invite_room_mismatch", c.sig(), "HandleInvite accepted an event of room %s for request room %s", built.RoomID().String(), roomID.String())
		r.Check(gSigned, "C15", "invite_unsigned", c.sig(), "HandleInvite accepted an invite that the sender's server has not validly signed")
		r.Check(gNotJoined, "C15", "invite_already_joined", c.sig(), "HandleInvite accepted an invite for a user already joined to a known room")
		r.Check(gVersion, "C15", "invite_unknown_version", c.sig(), "HandleInvite accepted an invite for unsupported room version %s", version)
		if !gTarget {
			r.Probe("invite_accepted_with_state_key_other_than_invited_user")
		}
		c.checkCounterSigned("invite", got, submitted, tu.Domain())
		return got, err
	}
	r.Probe("invite_refused")
	if gInvite && gTarget && gRoom && gSigned && gNotJoined && gVersion && len(c.faults) == 0 {
		r.Violate("C15", "invite_spurious_refusal", c.sig(), "HandleInvite refused although every guard holds and no fault was injected: %v", err)
	}
	return got, err
}

// opInviteV3: the invite handler that builds the event itself from a proto
// event (the pseudo-ID flow; the pseudo-ID room version is not modelled, the
// handler is version-agnostic). It must refuse unsupported versions, a room ID
// other than the request's, proto events that are not invites, and invites of
// users already joined to a known room; what it returns is the invite, with
// the sender ID it was given as state key, signed with the key it was given.
func (c *c15) opInviteV3() {
	r, t, rm := c.r, c.t, c.rm
	tu, _ := spec.NewUserID(c.ju.id, true)
	rid, _ := spec.NewRoomID(rm.roomID)
	k := rm.J().Current()
	q := &inviteQ{c: c, known: t.Chance(400), mem: rm.membership(rm.tip.after, c.ju.id)}
	if q.mem == "join" {
		q.known = true
	}
	typ, member := spec.MRoomMember, map[string]any{"membership": "invite"}
	senderErr := false
	in := gmsl.HandleInviteV3Input{HandleInviteInput: gmsl.HandleInviteInput{RoomID: *rid, RoomVersion: rm.ver, InvitedUser: *tu, InvitedSenderID: spec.SenderID(c.ju.id), KeyID: k.ID, PrivateKey: k.Priv,
		Verifier: c.ver, RoomQuerier: q, MembershipQuerier: q, StateQuerier: q, UserIDQuerier: uidFor},
		InviteProtoEvent: gmsl.ProtoEvent{SenderID: rm.users[0].id, RoomID: rm.roomID, Type: typ, StateKey: world.Str(c.ju.id), PrevEvents: []string{rm.tip.id}, AuthEvents: []string{}, Depth: rm.tip.ev.Depth() + 1},
		GetOrCreateSenderID: func(ctx context.Context, userID spec.UserID, roomID spec.RoomID, roomVersion string) (spec.SenderID, ed25519.PrivateKey, error) {
			if senderErr {
				return "", nil, errors.New("sender id store unavailable")
			}
			return spec.SenderID(userID.String()), k.Priv, nil
		}}
	r.Logf("op invite_v3 %s", c.ju.id)
	kinds := []string{"path_room_mismatch", "unsupported_version", "membership_not_invite", "wrong_type", "already_joined_known_room", "sender_id_error", "querier_membership_error", "querier_known_error"}
	nf := t.Weighted([]int{3, 5, 2})
	noStripped := false
	for i := 0; i < nf; i++ {
		kind := kinds[t.Weighted([]int{3, 2, 4, 3, 3, 1, 1, 1})]
		switch kind {
		case "path_room_mismatch":
			in.InviteProtoEvent.RoomID = "!elsewhere:" + string(rm.R().Name)
		case "unsupported_version":
			in.RoomVersion = "99.unknown"
		case "membership_not_invite":
			member = map[string]any{"membership": sim.Pick(t, []string{"join", "leave", "ban", "knock"})}
		case "wrong_type":
			typ = sim.Pick(t, []string{"m.room.topic", "org.example.thing"})
		case "already_joined_known_room":
			q.known, q.mem = true, "join"
		case "sender_id_error":
			senderErr = true
		case "querier_membership_error":
			q.memErr = true
		case "querier_known_error":
			q.knownErr = true
		}
		c.fault(kind)
	}
	in.InviteProtoEvent.Type = typ
	in.InviteProtoEvent.Content, _ = json.Marshal(member)
	if !noStripped && t.Chance(700) {
		in.StrippedState = c.strippedState()
	}
	var got gmsl.PDU
	var err error
	if guard(r, "HandleInviteV3", func() { got, err = gmsl.HandleInviteV3(context.Background(), in) }) {
		return
	}
	accepted := err == nil && got != nil
	_, verr := gmsl.GetRoomVersion(in.RoomVersion)
	gVersion := verr == nil
	gRoom := in.InviteProtoEvent.RoomID == rm.roomID
	gInvite := typ == spec.MRoomMember && member["membership"] == "invite"
	gNotJoined := !(q.known && !q.knownErr && q.mem == "join" && !q.memErr)
	r.State(fmt.Sprintf("invite_v3 %s accepted=%v", c.sig(), accepted))
	r.Logf("  HandleInviteV3 -> accepted=%v err=%v ; guards version=%v room=%v invite=%v not_joined=%v", accepted, errText(err), gVersion, gRoom, gInvite, gNotJoined)
	if !accepted {
		r.Probe("invite_v3_refused")
		if gVersion && gRoom && gInvite && gNotJoined && len(c.faults) == 0 {
			r.Violate("C15", "invitev3_spurious_refusal", c.sig(), "HandleInviteV3 refused although every guard holds and no fault was injected: %v", err)
		}
		return
	}
	r.Probe("invite_v3_accepted")
	r.Check(gVersion, "C15", "invitev3_accepts_bad_request", "unsupported_version", "HandleInviteV3 accepted a request for unsupported room version %s", in.RoomVersion)
	r.Check(gRoom, "C15", "invitev3_accepts_bad_request", "path_room_mismatch", "HandleInviteV3 accepted a proto event of room %s for request room %s", in.InviteProtoEvent.RoomID, rm.roomID)
	if !gInvite {
		what := "membership_not_invite"
		if typ != spec.MRoomMember {
			what = "not_a_member_event"
		}
		r.Violate("C15", "invite_accepts_non_invite", "v3:"+what, "HandleInviteV3 built and signed an event that is not an invite (type %s, content %v)", typ, member)
	}
	r.Check(gNotJoined, "C15", "invite_already_joined", "v3:"+c.sig(), "HandleInviteV3 accepted an invite for a user already joined to a known room")
	r.Check(!senderErr, "C15", "invitev3_accepts_bad_request", "sender_id_error", "HandleInviteV3 returned an event although no sender ID could be obtained")
	// the event it returns: the invite, for the sender ID it was given, signed with the key it was given
	gm, _ := got.Membership()
	r.Check(got.Type() == spec.MRoomMember && gm == "invite" && got.StateKey() != nil && *got.StateKey() == c.ju.id && got.RoomID().String() == rm.roomID && string(got.SenderID()) == rm.users[0].id,
		"C15", "invitev3_event_modified", c.sig(), "HandleInviteV3 returned %s in room %s, not the requested invite of %s by %s", describe(got), got.RoomID().String(), c.ju.id, rm.users[0].id)
	red, rerr := rm.impl.RedactEventJSON(got.JSON())
	if rerr != nil || gmsl.VerifyJSON(c.ju.id, "ed25519:1", ed25519.PublicKey(k.Priv.Public().(ed25519.PublicKey)), red) != nil {
		r.Violate("C15", "invite_not_countersigned", "v3:"+c.sig(), "HandleInviteV3's event carries no valid signature under the sender ID's key")
	}
}

// ---- PerformJoin against the resident ----------------------------------------------------------------

type joinClient struct {
	c          *c15
	tplFault   string
	sjFault    string
	respFaults bool
	answer     *answer
	sentJoin   gmsl.PDU
	mjErr      error
	sjErr      error
	honest     bool
	createLost bool
	// rogue: a resident that admits anybody, with a template citing only state
	// events that do not stand in the way
	rogue bool
}

func (jc *joinClient) MakeJoin(ctx context.Context, origin, s spec.ServerName, roomID, userID string) (gmsl.MakeJoinResponse, error) {
	c, rm := jc.c, jc.c.rm
	c.r.Logf("  fed make_join(%s, %s) at %s", roomID, userID, s)
	if d := time.Duration(c.t.Intn(4)) * 700 * time.Millisecond; d > 0 {
		time.Sleep(d) // simulated network latency
		c.r.Fault("delay")
	}
	if err := ctx.Err(); err != nil {
		jc.mjErr = err
		return nil, err
	}
	uid, err := spec.NewUserID(userID, true)
	if err != nil {
		return nil, err
	}
	rid, err := spec.NewRoomID(roomID)
	if err != nil {
		return nil, err
	}
	q := c.newQuerier()
	tb := &templateBuilder{c: c}
	var tpl gmsl.ProtoEvent
	var ver gmsl.RoomVersion
	if jc.rogue {
		// The template cites the room's create, power-levels and join-rules
		// events - every one of them part of the current state - and leaves
		// out the user's own membership event, whatever it says.
		tpl = gmsl.ProtoEvent{SenderID: userID, RoomID: roomID, Type: spec.MRoomMember, StateKey: &userID}
		_ = tpl.SetContent(map[string]any{"membership": "join"})
		tpl.PrevEvents = []string{rm.tip.id}
		tpl.Depth = rm.tip.ev.Depth() + 1
		var cited []gmsl.PDU
		for _, typ := range []string{spec.MRoomCreate, spec.MRoomPowerLevels, spec.MRoomJoinRules} {
			if n := rm.nodes[rm.tip.after[skey{typ, ""}]]; n != nil {
				cited = append(cited, n.ev)
			}
		}
		eb := rm.impl.NewEventBuilderFromProtoEvent(&tpl)
		if err := eb.AddAuthEvents(provOf(cited)); err != nil {
			jc.mjErr = err
			return nil, err
		}
		tpl.AuthEvents = eb.AuthEvents
		ver = rm.ver
		c.r.Probe("rogue_resident_offers_a_template_without_the_member_event")
	} else {
		resp, err := c.callMakeJoin(c.honestMakeJoin(q, tb, origin, uid, rid), q, tb)
		if err != nil {
			jc.mjErr = err
			return nil, err
		}
		tpl = resp.JoinTemplateEvent
		ver = resp.RoomVersion
	}
	switch jc.tplFault {
	case "template_wrong_type":
		tpl.Type = "m.room.power_levels"
	case "template_wrong_room":
		tpl.RoomID = "!elsewhere:" + string(rm.R().Name)
	case "template_redacts":
		tpl.Redacts = rm.order[0]
	case "template_unknown_version":
		ver = "99.unknown"
	case "template_other_sender":
		tpl.SenderID = rm.users[0].id
		tpl.StateKey = world.Str(rm.users[0].id)
	case "template_no_version":
		// "If not provided, the room version is assumed to be either 1 or 2":
		// the library then takes 1 or 4 by the shape of the template's auth
		// events, which is right for rooms of exactly those versions
		if rm.ver == "1" || rm.ver == "4" {
			ver = ""
			c.r.Probe("make_join_answer_without_room_version")
		}
	}
	b, err := json.Marshal(map[string]any{"event": tpl, "room_version": ver})
	if err != nil {
		return nil, err
	}
	var out fclient.RespMakeJoin
	if err := json.Unmarshal(b, &out); err != nil {
		return nil, err
	}
	return &out, nil
}

func (jc *joinClient) SendJoin(ctx context.Context, origin, s spec.ServerName, event gmsl.PDU) (gmsl.SendJoinResponse, error) {
	c, rm, t := jc.c, jc.c.rm, jc.c.t
	jc.sentJoin = event
	c.r.Logf("  fed send_join(%s) at %s", describe(event), s)
	q := c.newQuerier()
	k := rm.R().Current()
	in := gmsl.HandleSendJoinInput{Context: context.Background(), RoomID: event.RoomID(), EventID: event.EventID(), JoinEvent: append([]byte{}, event.JSON()...), RoomVersion: rm.ver, RequestOrigin: origin,
		LocalServerName: rm.R().Name, KeyID: k.ID, PrivateKey: k.Priv, Verifier: c.ver, MembershipQuerier: q, UserIDQuerier: uidFor,
		StoreSenderIDFromPublicID: func(ctx context.Context, senderID spec.SenderID, userID string, id spec.RoomID) error { return nil }}
	if event.RoomID().String() != rm.roomID {
		jc.sjErr = spec.NotFound("unknown room")
		return nil, jc.sjErr
	}
	var acceptedJoin []byte
	if jc.rogue {
		// ... and accepts the join as it comes, adding its signature
		acceptedJoin = event.Sign(string(rm.R().Name), k.ID, k.Priv).JSON()
		c.r.Probe("rogue_resident_accepts_the_join")
	} else {
		resp, err := c.callSendJoin(in, event, append([]byte{}, event.JSON()...), q, false)
		if err != nil {
			jc.sjErr = err
			return nil, err
		}
		acceptedJoin = resp.JoinEvent.JSON()
	}
	state := rm.pdus(rm.tip.after)
	// an honest resident also runs the auth rules on the join before accepting it
	if jc.honest && allowedBy(event, state) != nil {
		jc.sjErr = spec.Forbidden("join not allowed by the room state")
		return nil, jc.sjErr
	}
	a := c.c14.newAnswer(state, rm.authChainOf(append(append([]gmsl.PDU{}, state...), event)))
	c.c14.prov.reset()
	if jc.respFaults {
		c.c14.applyFaults(a, true)
		if a.nfaults > 0 {
			c.faults = append(c.faults, "send_join_state_faults")
			c.r.Nontriv = true
		}
	}
	out := &fclient.RespSendJoin{Origin: rm.R().Name, Event: append([]byte{}, acceptedJoin...)}
	switch jc.sjFault {
	case "create_missing":
		create := rm.order[0]
		a.removeAll(create)
		c.c14.pickMissingBehaviour(create)
	case "create_only_in_state":
		var keep []*entry
		for _, e := range a.auth {
			if e.ev == nil || e.ev.Type() != spec.MRoomCreate {
				keep = append(keep, e)
			}
		}
		a.auth = keep
	case "create_unknown_version":
		p := world.Proto{RoomID: rm.roomID, Sender: rm.users[0].id, Type: spec.MRoomCreate, StateKey: world.Str(""), Content: map[string]any{"room_version": "99.unknown", "creator": rm.users[0].id}, Depth: 1}
		if rm.impl.DomainlessRoomIDs() {
			p.RoomID = ""
		}
		if ne, err := world.Build(rm.impl, p, rm.nodes[rm.order[0]].ev.OriginServerTS().Time(), rm.R().Name, rm.R().Current()); err == nil {
			a.replaceAll(rm.order[0], append([]byte{}, ne.JSON()...), ne, "create_unknown_version")
			c.c14.bad[ne.EventID()] = ne
			c.c14.pickMissingBehaviour(rm.order[0])
		}
	case "remote_event_not_a_join":
		if lv, err := rm.buildWith(c.ju, []string{rm.tip.id}, rm.tip.ev.Depth()+1, state, spec.MRoomMember, world.Str(c.ju.id), map[string]any{"membership": "leave"}); err == nil {
			out.Event = lv.JSON()
		}
	case "remote_event_other_user":
		if o, err := rm.buildWith(rm.users[0], []string{rm.tip.id}, rm.tip.ev.Depth()+1, state, spec.MRoomMember, world.Str(rm.users[0].id), map[string]any{"membership": "join"}); err == nil {
			out.Event = o.JSON()
		}
	case "remote_event_other_sender":
		// looks like the join we sent (membership, room, state key) but another user sent it
		if o, err := rm.buildWith(rm.users[0], []string{rm.tip.id}, rm.tip.ev.Depth()+1, state, spec.MRoomMember, world.Str(c.ju.id), map[string]any{"membership": "join"}); err == nil {
			out.Event = o.JSON()
		}
	case "remote_event_thin_auth":
		// the joiner's own join, but citing only a tape-chosen part of the state as auth events
		var part []gmsl.PDU
		for _, e := range state {
			if e.Type() == spec.MRoomCreate || t.Chance(400) {
				part = append(part, e)
			}
		}
		if o, err := rm.buildWith(c.ju, []string{rm.tip.id}, rm.tip.ev.Depth()+1, part, spec.MRoomMember, world.Str(c.ju.id), map[string]any{"membership": "join"}); err == nil {
			out.Event = o.JSON()
		}
	case "remote_event_other_room":
		// the joiner's own join, properly signed, of another room
		other := "!elsewhere:" + string(rm.R().Name)
		if rm.impl.DomainlessRoomIDs() {
			other = "!" + strings.Repeat("A", 43)
		}
		p := world.Proto{RoomID: other, Sender: c.ju.id, Type: spec.MRoomMember, StateKey: world.Str(c.ju.id), Content: map[string]any{"membership": "join"},
			Prev: []string{rm.tip.id}, Depth: rm.tip.ev.Depth() + 1, AuthFrom: provOf(state)}
		if o, err := world.Build(rm.impl, p, rm.nextTS(), c.ju.srv.Name, c.ju.srv.Current()); err == nil {
			out.Event = o.JSON()
		} else {
			c.r.Probe("remote_event_other_room_not_buildable")
		}
	case "remote_event_odd_membership":
		// the event the resident accepted, with a membership that is not a string
		if b, err := sjson.SetRawBytes(append([]byte{}, out.Event...), "content.membership", []byte(sim.Pick(t, []string{"5", "null", `["join"]`, `{"join":true}`}))); err == nil {
			out.Event = b
		}
	case "remote_event_garbage":
		out.Event = []byte(sim.Pick(t, malformedSamples[1:]))
	case "remote_event_absent":
		out.Event = nil
	}
	jc.answer = a
	out.StateEvents, out.AuthEvents = rawList(a.state), rawList(a.auth)
	return out, nil
}

func (c *c15) opPerformJoin() {
	r, t, rm := c.r, c.t, c.rm
	jc := &joinClient{c: c, honest: true}
	r.Logf("op perform_join %s via %s", c.ju.id, rm.R().Name)
	nf := t.Weighted([]int{4, 4, 2})
	for i := 0; i < nf; i++ {
		k := []string{"template_wrong_type", "template_wrong_room", "template_redacts", "template_unknown_version", "template_other_sender",
			"create_missing", "create_only_in_state", "create_unknown_version", "remote_event_not_a_join", "remote_event_other_user", "remote_event_garbage", "remote_event_absent",
			"send_join_state_faults", "resident_skips_auth", "remote_event_other_sender", "remote_event_thin_auth",
			"template_no_version", "remote_event_other_room", "remote_event_odd_membership", "resident_admits_whom_the_state_forbids"}[t.Weighted([]int{2, 2, 2, 2, 1, 4, 2, 3, 2, 2, 1, 1, 6, 2, 3, 3, 2, 2, 1, 4})]
		switch {
		case k == "resident_admits_whom_the_state_forbids":
			jc.rogue, jc.honest = true, false
		case k == "template_no_version":
			// a legitimate answer where it is applied (rooms of version 1 or 4): not a fault
			if jc.tplFault == "" {
				jc.tplFault = k
			}
			continue
		case strings.HasPrefix(k, "template_"):
			jc.tplFault = k
		case k == "send_join_state_faults":
			jc.respFaults = true
			continue // counted when a fault is really applied
		case k == "resident_skips_auth":
			jc.honest = false
		default:
			jc.sjFault = k
		}
		c.fault(k)
	}
	if jc.tplFault == "" && (rm.ver == "1" || rm.ver == "4") && t.Chance(350) {
		// residents of old rooms often answer make_join without room_version
		jc.tplFault = "template_no_version"
	}
	uid, _ := spec.NewUserID(c.ju.id, true)
	rid, _ := spec.NewRoomID(rm.roomID)
	k := rm.J().Current()
	ctx, cancel := context.WithCancel(context.Background())
	defer cancel()
	if t.Chance(60) {
		cancel()
		c.fault("ctx_cancel")
	}
	in := gmsl.PerformJoinInput{UserID: uid, RoomID: rid, ServerName: rm.R().Name, Content: map[string]interface{}{}, PrivateKey: k.Priv, KeyID: k.ID,
		KeyRing: &gmsl.KeyRing{KeyDatabase: c.db}, EventProvider: c.c14.prov.fn, UserIDQuerier: uidFor,
		GetOrCreateSenderID: func(ctx context.Context, userID spec.UserID, roomID spec.RoomID, roomVersion string) (spec.SenderID, ed25519.PrivateKey, error) {
			return spec.SenderID(userID.String()), k.Priv, nil
		},
		StoreSenderIDFromPublicID: func(ctx context.Context, senderID spec.SenderID, userID string, id spec.RoomID) error { return nil }}
	if t.Chance(300) {
		in.Unsigned = map[string]interface{}{"org.example.note": "x"}
	}
	var res *gmsl.PerformJoinResponse
	var ferr *gmsl.FederationError
	if guard(r, "PerformJoin", func() { res, ferr = gmsl.PerformJoin(ctx, jc, in) }) {
		return
	}
	ok := ferr == nil && res != nil
	r.Logf("  PerformJoin -> ok=%v err=%v", ok, ferr != nil)
	r.State(fmt.Sprintf("perform_join %s ok=%v", c.sig(), ok))
	if c.c14.prov.offContract {
		r.Probe("off_contract_provider_answer_used")
		return
	}
	if !ok {
		r.Probe("perform_join_failed")
		if len(c.faults) == 0 && jc.mjErr == nil && jc.sjErr == nil {
			r.Violate("C15", "performjoin_spurious_failure", c.sig(), "PerformJoin failed against an honest resident that accepted make_join and send_join: %v", ferr)
		}
		if len(c.faults) == 0 && jc.mjErr == nil && jc.sjErr != nil && jc.sentJoin != nil {
			// the resident offered a template and nothing changed since: the
			// join built from it is refused only if it was built wrongly
			r.Violate("C15", "performjoin_spurious_failure", "own_join_refused", "the honest resident that had just offered the template refused the join PerformJoin built from it (%s): %v", describe(jc.sentJoin), jc.sjErr)
		}
		return
	}
	r.Probe("perform_join_succeeded")
	a := jc.answer
	if a == nil || res.JoinEvent == nil || res.StateSnapshot == nil {
		r.Violate("C15", "performjoin_without_send_join", c.sig(), "PerformJoin returned a join without a send_join response (answer=%v)", a != nil)
	}
	// (a) the join it returns is a join of the user in the room, signed by J
	je := res.JoinEvent
	if p := rm.parse(je.JSON()); p != nil {
		if strings.Join(p.AuthEventIDs(), ",") != strings.Join(je.AuthEventIDs(), ",") {
			r.Probe("returned_pdu_accessors_disagree_with_its_json")
		}
		je = p
	}
	mem, _ := je.Membership()
	r.Check(je.Type() == spec.MRoomMember && mem == "join" && je.StateKey() != nil && *je.StateKey() == c.ju.id && je.RoomID().String() == rm.roomID, "C15", "performjoin_returns_non_join", c.sig(),
		"PerformJoin returned %s in room %s, not a join of %s in %s", describe(je), je.RoomID().String(), c.ju.id, rm.roomID)
	// (b) the remote's state contains a create event of a known room version
	createOK := false
	for _, e := range a.all() {
		if e.ev != nil && e.ev.Type() == spec.MRoomCreate && e.ev.StateKey() != nil && *e.ev.StateKey() == "" {
			var cc struct {
				V *string `json:"room_version"`
			}
			_ = json.Unmarshal(e.ev.Content(), &cc)
			v := "1"
			if cc.V != nil {
				v = *cc.V
			}
			if _, err := gmsl.GetRoomVersion(gmsl.RoomVersion(v)); err == nil {
				createOK = true
			}
		}
	}
	r.Check(createOK, "C15", "performjoin_without_create_event", c.sig(), "PerformJoin returned a join although the remote's state has no create event of a known room version")
	// (c) the state passes the federation-response checks (C14's model)
	if len(a.splitSig) > 0 {
		r.Probe("answer_with_one_damaged_copy_of_an_event_listed_twice")
		return
	}
	model := c.c14.modelState(a, false)
	if !model.contract {
		r.Probe("off_contract_provider_answer_used")
		return
	}
	if model.err != "" {
		r.Violate("C15", "performjoin_accepts_failing_state", model.err, "PerformJoin returned a join although the send_join state must fail as a whole (%s)", model.err)
	}
	byID := map[string]gmsl.PDU{}
	var st []gmsl.PDU
	seen := map[string]bool{}
	for _, e := range a.all() {
		if e.ev != nil && model.dropped[e.id()] == "" {
			byID[e.id()] = e.ev
		}
	}
	for _, e := range a.state {
		if e.ev != nil && model.dropped[e.id()] == "" && !seen[e.id()] {
			seen[e.id()] = true
			st = append(st, e.ev)
		}
	}
	contract := true
	auth := c.c14.authSet(je, byID, map[string]bool{}, &contract)
	if !contract {
		r.Probe("off_contract_provider_answer_used")
		return
	}
	if e := allowedBy(je, auth); e != nil {
		r.Violate("C15", "performjoin_accepts_failing_state", "join_not_allowed_by_auth_events", "PerformJoin returned a join that is not allowed by its auth events as they survive the response checks: %v (auth events %s of %s; dropped %d)", e, shortIDs(pduIDs(auth)), shortIDs(je.AuthEventIDs()), len(model.dropped))
	}
	if allowedBy(je, st) != nil {
		r.Violate("C15", "performjoin_accepts_failing_state", "join_not_allowed_by_state", "PerformJoin returned a join that is not allowed by the returned state")
	}
	gotA := c.c14.idsOf(res.StateSnapshot.GetAuthEvents())
	gotS := c.c14.idsOf(res.StateSnapshot.GetStateEvents())
	if strings.Join(gotA, ",") != strings.Join(model.auth, ",") || strings.Join(gotS, ",") != strings.Join(model.state, ",") {
		r.Violate("C15", "performjoin_state_differs", a.neighbourFault(), "PerformJoin's state snapshot is not what the response checks admit: auth got %s want %s ; state got %s want %s", shortIDs(gotA), shortIDs(model.auth), shortIDs(gotS), shortIDs(model.state))
	}
	r.Check(c.validlySignedBy(je, rm.J().Name), "C15", "performjoin_join_unsigned", c.sig(), "PerformJoin returned a join that its own server has not validly signed")
}

// ---- PerformInvite -> HandleInvite ---------------------------------------------------------------------

type inviteClient struct {
	c        *c15
	q        *inviteQ
	verifier gmsl.JSONVerifier
	called   bool
}

func (ic *inviteClient) SendInvite(ctx context.Context, event gmsl.PDU, stripped []gmsl.InviteStrippedState) (gmsl.PDU, error) {
	ic.called = true
	c := ic.c
	c.r.Logf("  fed invite(%s)", describe(event))
	return c.callInvite(append([]byte{}, event.JSON()...), event, event.RoomID(), c.rm.ver, c.ju, ic.q, ic.verifier, stripped, false)
}

func (ic *inviteClient) SendInviteV3(ctx context.Context, event gmsl.ProtoEvent, userID spec.UserID, roomVersion gmsl.RoomVersion, stripped []gmsl.InviteStrippedState) (gmsl.PDU, error) {
	return nil, errors.New("invite v3 not supported by this resident")
}

func (c *c15) opPerformInvite() {
	r, t, rm := c.r, c.t, c.rm
	inviter := sim.Pick(t, rm.users[:2])
	q := &inviteQ{c: c, known: t.Chance(300), mem: rm.membership(rm.tip.after, c.ju.id)}
	if q.mem == "join" {
		q.known = true
	}
	verifier, _ := c.pickVerifier()
	ic := &inviteClient{c: c, q: q, verifier: verifier}
	iu, _ := spec.NewUserID(inviter.id, true)
	tu, _ := spec.NewUserID(c.ju.id, true)
	rid, _ := spec.NewRoomID(rm.roomID)
	k := rm.R().Current()
	content, _ := json.Marshal(map[string]any{"membership": "invite"})
	rq := &inviteQ{c: c, known: true, mem: rm.membership(rm.tip.after, c.ju.id)}
	in := gmsl.PerformInviteInput{RoomID: *rid, RoomVersion: rm.ver, Inviter: *iu, Invitee: *tu, IsTargetLocal: false,
		EventTemplate: gmsl.ProtoEvent{SenderID: inviter.id, RoomID: rm.roomID, Type: spec.MRoomMember, StateKey: world.Str(c.ju.id), Content: content},
		KeyID:         k.ID, SigningKey: k.Priv, EventTime: timeNow(), MembershipQuerier: rq, StateQuerier: rq, UserIDQuerier: uidFor,
		SenderIDQuerier: func(roomID spec.RoomID, userID spec.UserID) (*spec.SenderID, error) {
			s := spec.SenderID(userID.String())
			return &s, nil
		},
		SenderIDCreator: func(ctx context.Context, userID spec.UserID, roomID spec.RoomID, roomVersion string) (spec.SenderID, ed25519.PrivateKey, error) {
			return spec.SenderID(userID.String()), k.Priv, nil
		},
		EventQuerier: func(ctx context.Context, roomID spec.RoomID, needed []gmsl.StateKeyTuple) (gmsl.LatestEvents, error) {
			var evs []gmsl.PDU
			for _, n := range needed {
				if id, ok := rm.tip.after[skey{n.EventType, n.StateKey}]; ok {
					evs = append(evs, rm.nodes[id].ev)
				}
			}
			return gmsl.LatestEvents{RoomExists: true, StateEvents: evs, PrevEventIDs: []string{rm.tip.id}, Depth: rm.tip.ev.Depth() + 1}, nil
		},
		StoreSenderIDFromPublicID: func(ctx context.Context, senderID spec.SenderID, userID string, id spec.RoomID) error { return nil }}
	if t.Chance(600) {
		in.StrippedState = c.strippedState()
	}
	r.Logf("op perform_invite %s invites %s (membership %q)", inviter.id, c.ju.id, q.mem)
	var got gmsl.PDU
	var err error
	if guard(r, "PerformInvite", func() { got, err = gmsl.PerformInvite(context.Background(), in, ic) }) {
		return
	}
	r.Logf("  PerformInvite -> ok=%v err=%v (remote asked=%v)", err == nil && got != nil, errText(err), ic.called)
	if err == nil && got != nil {
		r.Probe("perform_invite_succeeded")
		r.Check(ic.called, "C15", "performinvite_without_remote", c.sig(), "PerformInvite returned an invite for a remote user without asking the remote server")
		r.Check(c.validlySignedBy(got, rm.J().Name) && c.validlySignedBy(got, rm.R().Name), "C15", "performinvite_signatures", c.sig(), "the invite PerformInvite returned is not validly signed by both servers")
	} else {
		r.Probe("perform_invite_failed")
	}
}

var _ = fmt.Sprintf
