package joinsim

import (
	"context"
	"encoding/json"
	"errors"
	"fmt"
	"sort"
	"strings"

	gmsl "github.com/matrix-org/gomatrixserverlib"
	"github.com/matrix-org/gomatrixserverlib/spec"

	"verifharness/sim"
	"verifharness/world"
)

// buildWith builds an event whose auth events are selected (by the real
// AddAuthEvents) from an explicit list of events.
func (rm *room) buildWith(actor user, prevs []string, depth int64, authEvs []gmsl.PDU, typ string, sk *string, content map[string]any) (gmsl.PDU, error) {
	p := world.Proto{RoomID: rm.roomID, Sender: actor.id, Type: typ, StateKey: sk, Content: content, Prev: prevs, Depth: depth, AuthFrom: provOf(authEvs)}
	ev, err := world.Build(rm.impl, p, rm.nextTS(), actor.srv.Name, actor.srv.Current())
	if err != nil {
		return nil, err
	}
	for _, s := range rm.extraSigners(typ, sk, content, actor.id) {
		ev = rm.countersign(ev, s)
	}
	return ev, nil
}

func (c *c14) ownAuth(ev gmsl.PDU) []gmsl.PDU {
	var own []gmsl.PDU
	for _, a := range ev.AuthEventIDs() {
		if e := c.lookup(a); e != nil {
			own = append(own, e)
		}
	}
	return own
}

// byzPair builds a Byzantine pair at the tip: B is not allowed by its auth
// events, child cites B and IS allowed by its own auth events (so only the
// recursion into the auth chain, or the state at the event, exposes it).
func (c *c14) byzPair() (bad, child gmsl.PDU) {
	rm, t := c.rm, c.t
	st := rm.tip.after
	stEvs := rm.pdus(st)
	depth := rm.tip.ev.Depth() + 1
	for _, u := range sim.Shuffle(t, rm.users) {
		mem := rm.membership(st, u.id)
		if mem == "join" && !rm.isCreator(u.id) {
			// power grab: u gives itself level 100
			content := map[string]any{}
			if id, ok := st[skey{spec.MRoomPowerLevels, ""}]; ok {
				_ = json.Unmarshal(rm.nodes[id].ev.Content(), &content)
			} else {
				content = map[string]any{"users_default": 0, "events_default": 0, "state_default": 50, "ban": 50, "kick": 50, "redact": 50, "invite": 0}
			}
			us, _ := content["users"].(map[string]any)
			if us == nil {
				us = map[string]any{}
			}
			us[u.id] = 100
			content["users"] = us
			b, err := rm.buildWith(u, []string{rm.tip.id}, depth, stEvs, spec.MRoomPowerLevels, world.Str(""), content)
			if err != nil || allowedBy(b, c.ownAuth(b)) == nil {
				continue
			}
			var with []gmsl.PDU
			for _, e := range stEvs {
				if e.Type() != spec.MRoomPowerLevels {
					with = append(with, e)
				}
			}
			with = append(with, b)
			c.bad[b.EventID()] = b
			ch, err := rm.buildWith(u, []string{b.EventID()}, depth+1, with, "m.room.topic", world.Str(""), map[string]any{"topic": "seized"})
			if err != nil || allowedBy(ch, c.ownAuth(ch)) != nil {
				delete(c.bad, b.EventID())
				continue
			}
			c.bad[ch.EventID()] = ch
			return b, ch
		}
		if mem != "join" && u.srv != rm.R() {
			// uninvited / banned user "joins", then talks
			b, err := rm.buildWith(u, []string{rm.tip.id}, depth, stEvs, spec.MRoomMember, world.Str(u.id), map[string]any{"membership": "join"})
			if err != nil || allowedBy(b, c.ownAuth(b)) == nil {
				continue
			}
			var with []gmsl.PDU
			for _, e := range stEvs {
				if !(e.Type() == spec.MRoomMember && *e.StateKey() == u.id) {
					with = append(with, e)
				}
			}
			with = append(with, b)
			c.bad[b.EventID()] = b
			ch, err := rm.buildWith(u, []string{b.EventID()}, depth+1, with, "m.room.message", nil, map[string]any{"body": "hi", "msgtype": "m.text"})
			if err != nil || allowedBy(ch, c.ownAuth(ch)) != nil {
				delete(c.bad, b.EventID())
				continue
			}
			c.bad[ch.EventID()] = ch
			return b, ch
		}
	}
	return nil, nil
}

// staleCiting builds an event at the tip whose auth events are those of an
// older point of the history.
func (c *c14) staleCiting() gmsl.PDU {
	rm, t := c.rm, c.t
	if len(rm.order) < 4 {
		return nil
	}
	old := rm.nodes[rm.order[t.Range(1, len(rm.order)-2)]]
	if !old.main {
		return nil
	}
	for _, u := range sim.Shuffle(t, rm.users) {
		if rm.membership(old.after, u.id) != "join" {
			continue
		}
		typ, sk, content := "m.room.message", (*string)(nil), map[string]any{"body": "stale", "msgtype": "m.text"}
		if t.Bool() {
			typ, sk, content = "m.room.topic", world.Str(""), map[string]any{"topic": "stale"}
		}
		ev, err := rm.buildWith(u, []string{rm.tip.id}, rm.tip.ev.Depth()+1, rm.pdus(old.after), typ, sk, content)
		if err != nil {
			continue
		}
		c.bad[ev.EventID()] = ev
		return ev
	}
	return nil
}

// citesNonState builds, at the tip, an event by a joined user that cites its
// proper auth events and, next to them, a message event of the room: an event
// without a state key is never among the auth events the rules select, so the
// citing event does not pass the auth rules (rule 2 of the specification's
// list), whatever else it cites. The message itself is an honest event.
func (c *c14) citesNonState() gmsl.PDU {
	rm, t := c.rm, c.t
	var msgs []gmsl.PDU
	for _, id := range rm.order {
		if n := rm.nodes[id]; n.main && n.ev.StateKey() == nil {
			msgs = append(msgs, n.ev)
		}
	}
	if len(msgs) == 0 {
		return nil
	}
	m := sim.Pick(t, msgs)
	for _, u := range sim.Shuffle(t, rm.users) {
		if rm.membership(rm.tip.after, u.id) != "join" {
			continue
		}
		typ, sk, content := "m.room.message", (*string)(nil), map[string]any{"body": "cites a message", "msgtype": "m.text"}
		if t.Bool() {
			typ, sk, content = "m.room.topic", world.Str(""), map[string]any{"topic": "cites a message"}
		}
		honest, err := rm.buildWith(u, []string{rm.tip.id}, rm.tip.ev.Depth()+1, rm.pdus(rm.tip.after), typ, sk, content)
		if err != nil {
			continue
		}
		ids := append([]string{}, honest.AuthEventIDs()...)
		at := t.Intn(len(ids) + 1)
		ids = append(ids[:at], append([]string{m.EventID()}, ids[at:]...)...)
		pr := world.Proto{RoomID: rm.roomID, Sender: u.id, Type: typ, StateKey: sk, Content: content, Prev: []string{rm.tip.id}, Depth: rm.tip.ev.Depth() + 1, Auth: ids}
		ev, err := world.Build(rm.impl, pr, rm.nextTS(), u.srv.Name, u.srv.Current())
		if err != nil {
			continue
		}
		c.bad[ev.EventID()] = ev
		return ev
	}
	return nil
}

func (c *c14) closure(ev gmsl.PDU) []string {
	seen := map[string]bool{}
	var out []string
	var walk func(e gmsl.PDU)
	walk = func(e gmsl.PDU) {
		for _, a := range e.AuthEventIDs() {
			if seen[a] {
				continue
			}
			seen[a] = true
			out = append(out, a)
			if x := c.lookup(a); x != nil {
				walk(x)
			}
		}
	}
	walk(ev)
	return out
}

// scriptProvider gives 0-2 events of ids a non-serving behaviour.
func (c *c14) scriptProvider(ids []string) {
	t := c.t
	if len(ids) == 0 {
		return
	}
	n := t.Weighted([]int{5, 3, 1})
	for i := 0; i < n; i++ {
		id := sim.Pick(t, ids)
		b := []int{pvNothing, pvError, pvNothing, pvError, pvDifferent, pvExtra}[t.Weighted([]int{4, 3, 0, 0, 1, 1})]
		if c.prov.other == nil && b >= pvDifferent {
			b = pvNothing
		}
		c.prov.script[id] = b
		c.r.Logf("  provider script: %s -> %s", c.desc(id), pvNames[b])
	}
}

// ---- VerifyEventAuthChain ------------------------------------------------------------------

type chainVerdict struct {
	disallowed []string // events of the closure not allowed by their (complete) auth events
	missing    []string // events the provider fails to provide
	provErr    bool
	contract   bool
}

func (v *chainVerdict) ok() bool { return len(v.disallowed) == 0 && len(v.missing) == 0 && !v.provErr }

func (v *chainVerdict) why() string {
	switch {
	case len(v.disallowed) > 0:
		return "disallowed"
	case v.provErr:
		return "provider_error"
	case len(v.missing) > 0:
		return "missing"
	}
	return "ok"
}

// modelChain: the event and, recursively, every fetched auth event must be
// allowed by its auth events; a provider error or an event the provider does
// not supply fails the verification.
func (c *c14) modelChain(target gmsl.PDU) *chainVerdict {
	v := &chainVerdict{contract: true}
	have := map[string]gmsl.PDU{target.EventID(): target}
	done := map[string]bool{}
	failed := map[string]bool{}
	stack := []gmsl.PDU{target}
	for len(stack) > 0 {
		cur := stack[len(stack)-1]
		stack = stack[:len(stack)-1]
		if done[cur.EventID()] {
			continue
		}
		done[cur.EventID()] = true
		var auth []gmsl.PDU
		for _, id := range cur.AuthEventIDs() {
			if have[id] == nil && !failed[id] {
				switch c.prov.script[id] {
				case pvError:
					v.provErr = true
					failed[id] = true
				case pvDifferent, pvExtra:
					v.contract = false
					failed[id] = true
				default:
					x, _ := c.prov.one(id)
					if x == nil {
						v.missing = append(v.missing, id)
						failed[id] = true
					} else {
						have[id] = x
						stack = append(stack, x)
					}
				}
			}
			if x := have[id]; x != nil {
				auth = append(auth, x)
			}
		}
		nonState := false
		for _, x := range auth {
			if x.StateKey() == nil {
				nonState = true // never an auth event the rules select
			}
		}
		if nonState || allowedBy(cur, auth) != nil {
			v.disallowed = append(v.disallowed, cur.EventID())
		}
	}
	return v
}

func (c *c14) pickTarget(allowCreate bool) (gmsl.PDU, string) {
	rm, t := c.rm, c.t
	switch t.Weighted([]int{5, 2, 2, 1, 1}) {
	case 4:
		// only for the auth-chain walk (the one caller that admits the create
		// event as a target): the check at the state before an event does not
		// look at what the event cites
		if !allowCreate {
			break
		}
		if ev := c.citesNonState(); ev != nil {
			c.r.Fault("cites_non_state_auth_event")
			return ev, "cites_non_state"
		}
	case 1:
		if _, ch := c.byzPair(); ch != nil {
			c.r.Fault("byzantine_event")
			return ch, "byzantine_child"
		}
	case 2:
		v := rm.nodes[rm.order[t.Range(1, len(rm.order)-1)]].ev
		if ne, how := rm.rebuildDisallowed(v, c.lookup); ne != nil {
			c.bad[ne.EventID()] = ne
			c.r.Fault("auth_fail")
			return ne, "auth_fail:" + how
		}
	case 3:
		if ev := c.staleCiting(); ev != nil {
			c.r.Fault("stale_auth_events")
			return ev, "stale_citing"
		}
	}
	lo := 1
	if allowCreate {
		lo = 0
	}
	return rm.nodes[rm.order[t.Range(lo, len(rm.order)-1)]].ev, "honest"
}

func (c *c14) refreshStore() {
	for id, e := range c.bad {
		c.prov.store[id] = e
	}
}

func (c *c14) opChain() {
	r := c.r
	target, kind := c.pickTarget(true)
	c.refreshStore()
	c.prov.reset()
	c.prov.script = map[string]int{}
	r.Logf("op auth_chain of %s (%s)", c.desc(target.EventID()), kind)
	c.scriptProvider(c.closure(target))
	if c.t.Chance(250) {
		c.prov.eager = true
		r.Probe("eager_provider_hands_over_the_rest_of_the_chain")
	}
	model := c.modelChain(target)
	served := map[string]bool{target.EventID(): true}
	reasked := ""
	prov := func(ver gmsl.RoomVersion, ids []string) ([]gmsl.PDU, error) {
		for _, id := range ids {
			if served[id] && reasked == "" {
				reasked = id
			}
			if c.prov.perID[id] > 0 {
				r.Probe("chain_provider_asked_again_for_unprovided_event")
			}
		}
		out, err := c.prov.fn(ver, ids)
		for _, e := range out {
			served[e.EventID()] = true
		}
		return out, err
	}
	var err error
	if guard(r, "VerifyEventAuthChain", func() { err = gmsl.VerifyEventAuthChain(context.Background(), target, prov, uidFor) }) {
		r.Logf("  VerifyEventAuthChain aborted: provider asked without bound (off-contract provider)")
		return
	}
	r.Logf("  VerifyEventAuthChain -> ok=%v ; model %s (disallowed %s missing %s)", err == nil, model.why(), shortIDs(model.disallowed), shortIDs(model.missing))
	if kind != "honest" || !model.ok() {
		r.Nontriv = true
	}
	r.State(fmt.Sprintf("chain %s model=%s ok=%v calls=%d", strings.SplitN(kind, ":", 2)[0], model.why(), err == nil, len(c.prov.calls)))
	if c.prov.offContract || !model.contract {
		r.Probe("off_contract_provider_answer_used")
		return
	}
	c.judgeChain("chain", "", target, model, err)
	if reasked != "" {
		r.Violate("C14", "chain_reasks_seen_event", "reask", "VerifyEventAuthChain asked the provider for %s which it had already been given", c.desc(reasked))
	}
}

func (c *c14) judgeChain(op, suffix string, target gmsl.PDU, model *chainVerdict, err error) {
	r := c.r
	r.Probe("chain_model_" + model.why())
	if model.ok() {
		if err != nil {
			r.Violate("C14", "chain_refuses_allowed", "honest"+suffix, "%s: %s refused although it and every fetched auth event is allowed by its auth events: %v", op, c.desc(target.EventID()), err)
		}
		return
	}
	if err == nil {
		switch model.why() {
		case "disallowed":
			r.Violate("C14", "chain_accepts_disallowed", "disallowed"+suffix, "%s: %s accepted although %s is not allowed by its auth events", op, c.desc(target.EventID()), c.desc(model.disallowed[0]))
		case "provider_error":
			r.Violate("C14", "chain_accepts_provider_error", "provider_error"+suffix, "%s: %s accepted although the event provider returned an error", op, c.desc(target.EventID()))
		default:
			r.Violate("C14", "chain_accepts_missing_auth_event", "missing"+suffix, "%s: %s accepted although the provider did not supply auth event %s", op, c.desc(target.EventID()), c.desc(model.missing[0]))
		}
	}
}

// ---- VerifyAuthRulesAtState ------------------------------------------------------------------

// trueBefore returns the room state before ev as the resident knows it.
func (c *c14) trueBefore(ev gmsl.PDU, orig string) map[skey]string {
	if n := c.rm.nodes[ev.EventID()]; n != nil {
		return n.before
	}
	if n := c.rm.nodes[orig]; n != nil {
		return n.before
	}
	// Byzantine / stale events hang off the tip (a Byzantine child hangs off
	// its refused parent, which leaves the state unchanged)
	return c.rm.tip.after
}

func (c *c14) stateAnswerFor(ev gmsl.PDU, orig string, faulty bool) *stateAnswer {
	rm, t := c.rm, c.t
	st := c.trueBefore(ev, orig)
	a := &stateAnswer{ids: rm.stateIDs(st), state: map[string]gmsl.PDU{}}
	for _, e := range rm.pdus(st) {
		a.state[e.EventID()] = e
	}
	if !faulty {
		return a
	}
	switch t.Weighted([]int{8, 2, 1, 1, 2, 2}) {
	case 5: // a state event the auth rules do not read for this event is of another room
		if c.other == nil {
			break
		}
		needed := map[string]bool{}
		for _, tp := range gmsl.StateNeededForAuth([]gmsl.PDU{ev}).Tuples() {
			needed[tp.EventType+"\x00"+tp.StateKey] = true
		}
		var cands []string
		for _, id := range a.ids {
			if e := a.state[id]; e != nil && e.StateKey() != nil && !needed[e.Type()+"\x00"+*e.StateKey()] {
				cands = append(cands, id)
			}
		}
		var foreign gmsl.PDU
		for _, id := range c.other.order {
			if e := c.other.nodes[id].ev; e.StateKey() != nil && e.Type() != spec.MRoomCreate {
				foreign = e
			}
		}
		if len(cands) > 0 && foreign != nil {
			victim := sim.Pick(t, cands)
			delete(a.state, victim)
			a.state[foreign.EventID()] = foreign
			for i, id := range a.ids {
				if id == victim {
					a.ids[i] = foreign.EventID()
				}
			}
			a.comment = "state_holds_event_of_another_room_at_unread_key"
			c.r.Fault("state_foreign_event_unread_key")
		}
	case 1: // the ID list lacks one of the event's auth events
		var in []int
		cited := map[string]bool{}
		for _, x := range ev.AuthEventIDs() {
			cited[x] = true
		}
		for i, id := range a.ids {
			if cited[id] {
				in = append(in, i)
			}
		}
		if len(in) > 0 {
			i := sim.Pick(t, in)
			a.comment = "ids_lack_" + shortID(a.ids[i])
			a.ids = append(append([]string{}, a.ids[:i]...), a.ids[i+1:]...)
			c.r.Fault("state_ids_incomplete")
		}
	case 2:
		a.idsErr, a.comment = true, "ids_error"
	case 3:
		a.stErr, a.comment = true, "state_error"
	case 4: // the state lacks an event (say the resident pruned it)
		if len(a.ids) > 1 {
			id := sim.Pick(t, a.ids)
			delete(a.state, id)
			a.comment = "state_lacks_" + shortID(id)
			c.r.Fault("state_incomplete")
		}
	}
	return a
}

type atStateVerdict struct {
	fast    bool
	allowed bool
	err     string // provider error that must fail the check
}

func (c *c14) modelAtState(ev gmsl.PDU, a *stateAnswer, allowValidation bool) *atStateVerdict {
	v := &atStateVerdict{}
	if a == nil || a.idsErr {
		v.err = "ids_error"
		return v
	}
	if allowValidation {
		v.fast = true
		in := map[string]bool{}
		for _, id := range a.ids {
			in[id] = true
		}
		for _, x := range ev.AuthEventIDs() {
			if !in[x] {
				v.fast = false
			}
		}
		if v.fast {
			return v
		}
	}
	if a.stErr {
		v.err = "state_error"
		return v
	}
	ids := make([]string, 0, len(a.state))
	for id := range a.state {
		ids = append(ids, id)
	}
	sort.Strings(ids)
	var st []gmsl.PDU
	for _, id := range ids {
		st = append(st, a.state[id])
	}
	v.allowed = allowedBy(ev, st) == nil
	return v
}

func (c *c14) opAtState() {
	r, t := c.r, c.t
	target, kind := c.pickTarget(false)
	a := c.stateAnswerFor(target, "", true)
	allowValidation := t.Bool()
	sp := &stProvider{r: r, answers: map[string]*stateAnswer{target.EventID(): a}}
	ctx, cancel := context.WithCancel(context.Background())
	defer cancel()
	sp.cancel = cancel
	if t.Chance(120) {
		sp.cancelAt = t.Range(1, 2)
	}
	r.Logf("op auth_at_state of %s (%s) allowValidation=%v answer=%q cancelAt=%d", c.desc(target.EventID()), kind, allowValidation, a.comment, sp.cancelAt)
	model := c.modelAtState(target, a, allowValidation)
	var provider gmsl.StateProvider = sp
	if t.Chance(300) {
		// through the real federated provider: /state_ids and /state answers of the resident
		provider = &gmsl.FederatedStateProvider{FedClient: &fedState{sp: sp, auth: c.rm.authChainOf}, Origin: c.rm.J().Name, Server: c.rm.R().Name,
			RememberAuthEvents: t.Bool(), EventToAuthEventIDs: map[string][]string{}, AuthEventMap: map[string]gmsl.PDU{}}
		r.Probe("atstate_via_federated_state_provider")
	}
	var err error
	if guard(r, "VerifyAuthRulesAtState", func() { err = gmsl.VerifyAuthRulesAtState(ctx, provider, target, allowValidation, uidFor) }) {
		return
	}
	r.Logf("  VerifyAuthRulesAtState -> ok=%v ; model fast=%v allowed=%v err=%q calls=%s", err == nil, model.fast, model.allowed, model.err, strings.Join(sp.log, ","))
	if kind != "honest" || a.comment != "" || sp.fired {
		r.Nontriv = true
	}
	r.State(fmt.Sprintf("atstate %s validate=%v fast=%v allowed=%v err=%q ctx=%v ok=%v", strings.SplitN(kind, ":", 2)[0], allowValidation, model.fast, model.allowed, model.err, sp.fired, err == nil))
	c.judgeAtState("", target, a, model, err, sp.fired)
}

func (c *c14) judgeAtState(suffix string, target gmsl.PDU, a *stateAnswer, model *atStateVerdict, err error, ctxFired bool) {
	r := c.r
	wantOK := model.err == "" && (model.fast || model.allowed)
	if model.fast {
		r.Probe("atstate_fast_path")
	}
	// signature: does the verdict coincide with checking the event against only
	// those of its cited auth events that are part of the state (instead of
	// against the state)?
	sig := "other"
	if a != nil && !a.idsErr && !a.stErr && model.err == "" && !model.fast {
		var subset []gmsl.PDU
		for _, x := range target.AuthEventIDs() {
			if e := a.state[x]; e != nil {
				subset = append(subset, e)
			}
		}
		if bySubset := allowedBy(target, subset) == nil; bySubset != model.allowed && bySubset == (err == nil) {
			sig = "judged_on_cited_auth_events_only"
		}
	}
	if err == nil && !wantOK {
		if model.err != "" {
			r.Violate("C14", "atstate_accepts_provider_error", model.err+suffix, "VerifyAuthRulesAtState accepted %s although the state provider failed (%s)", c.desc(target.EventID()), model.err)
		}
		r.Violate("C14", "atstate_accepts_disallowed", sig+suffix, "VerifyAuthRulesAtState accepted %s which is not allowed by the state before it (fast path not applicable)", c.desc(target.EventID()))
	}
	if err != nil && wantOK && !ctxFired {
		r.Violate("C14", "atstate_refuses_allowed", sig+suffix, "VerifyAuthRulesAtState refused %s which is allowed by the state before it (fast=%v): %v", c.desc(target.EventID()), model.fast, err)
	}
}

// ---- LoadAndVerify / RequestBackfill ---------------------------------------------------------

type batch struct {
	entries []*entry
	sigBad  map[string]string
	orig    map[string]string // rebuilt event ID -> original event ID
	kinds   map[string]string
	nfaults int
}

// makeBatch assembles a /backfill style answer: a run of the history with
// faults.
func (c *c14) makeBatch() *batch {
	rm, t, r := c.rm, c.t, c.r
	b := &batch{sigBad: map[string]string{}, orig: map[string]string{}, kinds: map[string]string{}}
	n := len(rm.order)
	k := t.Range(1, 8)
	start := 0
	if n > k {
		start = t.Range(0, n-k)
	}
	for i := start; i < n && i < start+k; i++ {
		b.entries = append(b.entries, entryOf(rm.nodes[rm.order[i]].ev))
	}
	nf := t.Weighted([]int{3, 4, 2, 1})
	for i := 0; i < nf; i++ {
		kind := []string{"sig", "auth_fail", "malformed", "byzantine_child", "stale_citing", "dup_listing"}[t.Weighted([]int{4, 3, 2, 2, 2, 1})]
		var plain []*entry
		for _, e := range b.entries {
			if e.ev != nil && e.note == "" {
				plain = append(plain, e)
			}
		}
		switch kind {
		case "sig":
			if len(plain) == 0 {
				continue
			}
			e := sim.Pick(t, plain)
			sk := sim.Pick(t, sigKinds)
			raw := rm.sigFault(e.ev, sk, "")
			nv := rm.parse(raw)
			if nv == nil || nv.EventID() != e.id() {
				continue
			}
			for _, x := range b.entries {
				if x.ev != nil && x.id() == e.id() {
					x.raw, x.ev, x.note = raw, nv, sk
				}
			}
			b.sigBad[e.id()] = sk
			kind = sk
			r.Logf("  fault %s on %s", sk, c.desc(e.id()))
		case "auth_fail":
			var cands []*entry
			for _, e := range plain {
				if e.ev.Type() != spec.MRoomCreate {
					cands = append(cands, e)
				}
			}
			if len(cands) == 0 {
				continue
			}
			e := sim.Pick(t, cands)
			ne, how := rm.rebuildDisallowed(e.ev, c.lookup)
			if ne == nil {
				continue
			}
			c.bad[ne.EventID()] = ne
			b.orig[ne.EventID()] = e.id()
			old := e.id()
			for _, x := range b.entries {
				if x.ev != nil && x.id() == old {
					x.raw, x.ev, x.note = append([]byte{}, ne.JSON()...), ne, "auth_fail:"+how
				}
			}
			r.Logf("  fault auth_fail(%s): %s replaced by %s", how, c.desc(old), shortID(ne.EventID()))
		case "malformed":
			raw := []byte(sim.Pick(t, malformedSamples))
			if len(plain) > 0 && t.Bool() {
				j := sim.Pick(t, plain).ev.JSON()
				raw = append([]byte{}, j[:len(j)*2/3]...)
			}
			b.entries = insertAt(b.entries, t.Intn(len(b.entries)+1), &entry{raw: raw, note: "malformed"})
			r.Logf("  fault malformed: entry of %d bytes inserted", len(raw))
		case "byzantine_child":
			_, ch := c.byzPair()
			if ch == nil {
				continue
			}
			e := entryOf(ch)
			e.note = kind
			b.entries = append(b.entries, e)
			r.Logf("  fault byzantine_child: %s appended", c.desc(ch.EventID()))
		case "stale_citing":
			ev := c.staleCiting()
			if ev == nil {
				continue
			}
			e := entryOf(ev)
			e.note = kind
			b.entries = append(b.entries, e)
			r.Logf("  fault stale_citing: %s appended", c.desc(ev.EventID()))
		case "dup_listing":
			if len(plain) == 0 {
				continue
			}
			src := sim.Pick(t, plain)
			b.entries = insertAt(b.entries, t.Intn(len(b.entries)+1), &entry{raw: append([]byte{}, src.raw...), ev: src.ev, note: ""})
			r.Logf("  buggify dup_listing: %s listed twice", c.desc(src.id()))
		}
		r.Fault(kind)
		b.nfaults++
	}
	if t.Chance(400) {
		b.entries = sim.Shuffle(t, b.entries)
		r.Fault("reorder")
	}
	return b
}

func classOf(err error) string {
	switch err.(type) {
	case nil:
		return "ok"
	case gmsl.SignatureErr:
		return "signature"
	case gmsl.AuthChainErr:
		return "auth_chain"
	case gmsl.AuthRulesErr:
		return "auth_at_state"
	}
	return "other"
}

// checkTopo checks that in seq every event comes after those of its ancestors
// (through edges between events of seq only) that are present.
func checkTopo(seq []gmsl.PDU, byAuth bool) (child, anc string) {
	pos := map[string]int{}
	for i, e := range seq {
		if _, dup := pos[e.EventID()]; !dup {
			pos[e.EventID()] = i
		}
	}
	edges := func(e gmsl.PDU) []string {
		if byAuth {
			return e.AuthEventIDs()
		}
		return e.PrevEventIDs()
	}
	for i, e := range seq {
		for _, p := range edges(e) {
			if j, ok := pos[p]; ok && j > i {
				return e.EventID(), p
			}
		}
	}
	return "", ""
}

func (c *c14) opLoad() {
	r, t, rm := c.r, c.t, c.rm
	r.Logf("op load_and_verify")
	c.prov.reset()
	c.prov.script = map[string]int{}
	if t.Chance(250) {
		c.prov.eager = true
		r.Probe("eager_provider_hands_over_the_rest_of_the_chain")
	}
	b := c.makeBatch()
	c.refreshStore()
	var allIDs []string
	seen := map[string]bool{}
	for _, e := range b.entries {
		if e.ev == nil {
			continue
		}
		for _, id := range c.closure(e.ev) {
			if !seen[id] {
				seen[id] = true
				allIDs = append(allIDs, id)
			}
		}
	}
	c.scriptProvider(allIDs)
	vfail := c.setVerifier()
	sp := &stProvider{r: r, answers: map[string]*stateAnswer{}}
	for _, e := range b.entries {
		if e.ev != nil {
			sp.answers[e.id()] = c.stateAnswerFor(e.ev, b.orig[e.id()], t.Chance(150))
		}
	}
	ctx, cancel := context.WithCancel(context.Background())
	defer cancel()
	sp.cancel = cancel
	if t.Chance(80) {
		sp.cancelAt = t.Range(1, 6)
	}
	byAuth := t.Chance(300)
	order := gmsl.TopologicalOrderByPrevEvents
	if byAuth {
		order = gmsl.TopologicalOrderByAuthEvents
	}
	// model
	type want struct {
		class string
		chain *chainVerdict
		at    *atStateVerdict
	}
	wants := map[string]*want{}
	contract := true
	for _, e := range b.entries {
		if e.ev == nil {
			continue
		}
		w := &want{class: "ok"}
		w.chain = c.modelChain(e.ev)
		w.at = c.modelAtState(e.ev, sp.answers[e.id()], true)
		if !w.chain.contract {
			contract = false
		}
		switch {
		case b.sigBad[e.id()] != "" || vfail:
			w.class = "signature"
		case !w.chain.ok():
			w.class = "auth_chain"
		case w.at.err != "" || !(w.at.fast || w.at.allowed):
			w.class = "auth_at_state"
		}
		wants[e.id()] = w
	}
	raws := make([]json.RawMessage, len(b.entries))
	for i, e := range b.entries {
		raws[i] = append([]byte{}, e.raw...)
	}
	loader := gmsl.NewEventsLoader(rm.ver, c.ver, sp, c.prov.fn, false)
	var res []gmsl.EventLoadResult
	var err error
	if guard(r, "LoadAndVerify", func() { res, err = loader.LoadAndVerify(ctx, raws, order, uidFor) }) {
		r.Logf("  LoadAndVerify aborted: provider asked without bound (off-contract provider)")
		return
	}
	if b.nfaults > 0 || sp.fired {
		r.Nontriv = true
	}
	if err != nil {
		r.Violate("C14", "load_error", "error", "LoadAndVerify failed as a whole: %v", err)
	}
	r.Check(len(res) == len(raws), "C14", "load_result_count", "count", "LoadAndVerify returned %d results for %d inputs", len(res), len(raws))
	var line []string
	var seq []gmsl.PDU
	gotCount := map[string]int{}
	nilEvents, emptyRes := 0, 0
	for _, x := range res {
		if x.Event == nil {
			if x.Error == nil {
				line = append(line, "EMPTY")
				emptyRes++
				continue
			}
			nilEvents++
			line = append(line, "parse_error")
			continue
		}
		gotCount[x.Event.EventID()]++
		seq = append(seq, x.Event)
		line = append(line, shortID(x.Event.EventID())+"="+classOf(x.Error))
	}
	r.Logf("  LoadAndVerify(%d inputs, byAuth=%v) -> %s", len(raws), byAuth, strings.Join(line, " "))
	{
		cl := map[string]int{}
		for _, x := range res {
			if x.Event != nil {
				cl[classOf(x.Error)]++
			} else {
				cl["nil"]++
			}
		}
		r.State(fmt.Sprintf("load byAuth=%v ok=%d sig=%d chain=%d state=%d nil=%d", byAuth, cl["ok"], cl["signature"], cl["auth_chain"], cl["auth_at_state"], cl["nil"]))
	}
	if emptyRes > 0 {
		dups := 0
		for _, n := range b.listed() {
			if n > 1 {
				dups += n - 1
			}
		}
		sig := "no_duplicate_input"
		if dups > 0 {
			sig = "duplicate_input"
		}
		r.Violate("C14", "load_empty_result", sig, "LoadAndVerify returned %d result(s) with neither an event nor an error (%d inputs, %d malformed, %d duplicate listings)", emptyRes, len(raws), c.countMalformed(b), dups)
		return // known finding: the remaining comparisons assume one result per input
	}
	// one result per input: a malformed input gives an error without an event;
	// an event listed n times gives n results, of which all but one may be
	// errors without an event
	inCount := b.listed()
	deficit := 0
	for _, e := range b.entries {
		if e.ev == nil {
			continue
		}
		in, got := inCount[e.id()], gotCount[e.id()]
		if got < 1 || got > in {
			r.Violate("C14", "load_not_a_permutation", "count", "input event %s listed %d times has %d results", c.desc(e.id()), in, got)
		}
	}
	for id, in := range inCount {
		deficit += in - gotCount[id]
	}
	r.Check(nilEvents == c.countMalformed(b)+deficit, "C14", "load_parse_class", "malformed", "LoadAndVerify reported %d inputs without an event; %d were malformed and %d duplicate listings have no result of their own", nilEvents, c.countMalformed(b), deficit)
	if ch, an := checkTopo(seq, byAuth); ch != "" {
		r.Violate("C14", "load_order", fmt.Sprintf("byAuth=%v", byAuth), "LoadAndVerify placed %s before its ancestor %s", c.desc(ch), c.desc(an))
	}
	if c.prov.offContract || !contract {
		r.Probe("off_contract_provider_answer_used")
		return
	}
	for _, x := range res {
		if x.Event == nil {
			continue
		}
		id := x.Event.EventID()
		w := wants[id]
		if w == nil {
			r.Violate("C14", "load_foreign_event", "foreign", "LoadAndVerify returned %s which was not an input", shortID(id))
		}
		got := classOf(x.Error)
		r.Probe("load_class_" + w.class)
		if got == w.class {
			continue
		}
		if sp.fired {
			// after the injected cancellation an event may fail, it may not pass wrongly
			if got == "ok" {
				switch w.class {
				case "auth_chain":
					c.judgeChain("load", ":load", x.Event, w.chain, nil)
				case "auth_at_state":
					c.judgeAtState(":load", x.Event, sp.answers[id], w.at, nil, true)
				default:
					r.Violate("C14", "load_misses_signature_failure", b.sigBad[id]+"->"+got, "%s has a signature fault (%s) but was classified %s", c.desc(id), b.sigBad[id], got)
				}
			}
			continue
		}
		// attribute the difference to the stage's own oracle where there is one
		switch {
		case w.class == "signature":
			r.Violate("C14", "load_misses_signature_failure", b.sigBad[id]+"->"+got, "%s has a signature fault (%s) but was classified %s", c.desc(id), b.sigBad[id], got)
		case w.class == "auth_chain" && (got == "ok" || got == "auth_at_state"):
			c.judgeChain("load", ":load", x.Event, w.chain, nil)
		case got == "auth_chain" && w.chain.ok():
			c.judgeChain("load", ":load", x.Event, w.chain, errors.New(x.Error.Error()))
		case w.class == "auth_at_state" && got == "ok":
			c.judgeAtState(":load", x.Event, sp.answers[id], w.at, nil, false)
		case got == "auth_at_state" && w.class == "ok":
			c.judgeAtState(":load", x.Event, sp.answers[id], w.at, errors.New(x.Error.Error()), false)
		default:
			r.Violate("C14", "load_wrong_class", w.class+"->"+got, "%s: first failing stage is %s but LoadAndVerify classified it %s (%v)", c.desc(id), w.class, got, x.Error)
		}
	}
}

func (b *batch) listed() map[string]int {
	m := map[string]int{}
	for _, e := range b.entries {
		if e.ev != nil {
			m[e.id()]++
		}
	}
	return m
}

func (c *c14) countMalformed(b *batch) int {
	n := 0
	for _, e := range b.entries {
		if e.ev == nil {
			n++
		}
	}
	return n
}

// backfiller is the BackfillRequester stub.
type backfiller struct {
	*stProvider
	c       *c14
	servers []spec.ServerName
	txns    map[spec.ServerName]*batch
	fail    map[spec.ServerName]bool
	asked   []spec.ServerName
}

func (b *backfiller) ServersAtEvent(ctx context.Context, roomID, eventID string) []spec.ServerName {
	return b.servers
}

func (b *backfiller) ProvideEvents(ver gmsl.RoomVersion, ids []string) ([]gmsl.PDU, error) {
	return b.c.prov.fn(ver, ids)
}

func (b *backfiller) Backfill(ctx context.Context, origin, server spec.ServerName, roomID string, limit int, from []string) (gmsl.Transaction, error) {
	b.asked = append(b.asked, server)
	if b.fail[server] {
		b.c.r.Fault("backfill_error")
		return gmsl.Transaction{}, fmt.Errorf("backfill: %s unreachable", server)
	}
	bt := b.txns[server]
	txn := gmsl.Transaction{Origin: server}
	for _, e := range bt.entries {
		txn.PDUs = append(txn.PDUs, append([]byte{}, e.raw...))
	}
	return txn, nil
}

func (c *c14) opBackfill() {
	r, t, rm := c.r, c.t, c.rm
	r.Logf("op request_backfill")
	c.prov.reset()
	c.prov.script = map[string]int{}
	sp := &stProvider{r: r, answers: map[string]*stateAnswer{}}
	bf := &backfiller{stProvider: sp, c: c, txns: map[spec.ServerName]*batch{}, fail: map[spec.ServerName]bool{}}
	sent := map[string]bool{}
	nf := 0
	for _, s := range rm.servers {
		if s == rm.J() {
			continue
		}
		bf.servers = append(bf.servers, s.Name)
		b := c.makeBatch()
		bf.txns[s.Name] = b
		nf += b.nfaults
		for _, e := range b.entries {
			if e.ev != nil {
				sent[e.id()] = true
				sp.answers[e.id()] = c.stateAnswerFor(e.ev, b.orig[e.id()], t.Chance(100))
			}
		}
		if t.Chance(150) {
			bf.fail[s.Name] = true
		}
	}
	c.refreshStore()
	vfail := c.setVerifier()
	ctx, cancel := context.WithCancel(context.Background())
	defer cancel()
	sp.cancel = cancel
	if t.Chance(100) {
		sp.cancelAt = t.Range(1, 6)
	}
	// a state lookup that fails once: an unfaulted event that two servers
	// send, each once, is refused from the first and must come from the second
	flaky := ""
	if len(bf.servers) >= 2 && t.Chance(300) {
		count := map[string]int{}
		clean := map[string]bool{}
		for _, sn := range bf.servers {
			for _, e := range bf.txns[sn].entries {
				if e.ev != nil {
					count[e.id()+"|"+string(sn)]++
					if e.note == "" {
						clean[e.id()+"|"+string(sn)] = true
					}
				}
			}
		}
		var cands []string
		for _, e := range bf.txns[bf.servers[0]].entries {
			if e.ev == nil {
				continue
			}
			ok := true
			for _, sn := range bf.servers[:2] {
				k := e.id() + "|" + string(sn)
				if count[k] != 1 || !clean[k] {
					ok = false
				}
			}
			if ok {
				cands = append(cands, e.id())
			}
		}
		if len(cands) > 0 {
			flaky = sim.Pick(t, cands)
			sp.failOnce = map[string]bool{flaky: true}
			r.Probe("backfill_state_lookup_fails_once")
		}
	}
	// model: what each asked server's copy of each event is classified as
	contract := true
	classify := func(b *batch, e *entry) string {
		ch := c.modelChain(e.ev)
		at := c.modelAtState(e.ev, sp.answers[e.id()], true)
		if !ch.contract {
			contract = false
		}
		switch {
		case b.sigBad[e.id()] != "" || vfail:
			return "signature"
		case !ch.ok():
			return "auth_chain"
		case at.err != "" || !(at.fast || at.allowed):
			return "auth_at_state"
		}
		return "ok"
	}
	classes := map[spec.ServerName]map[string]string{}
	for _, sn := range bf.servers {
		classes[sn] = map[string]string{}
		for _, e := range bf.txns[sn].entries {
			if e.ev != nil {
				classes[sn][e.id()] = classify(bf.txns[sn], e)
			}
		}
	}
	limit := t.Range(1, 12)
	var got []gmsl.PDU
	var err error
	if guard(r, "RequestBackfill", func() {
		got, err = gmsl.RequestBackfill(ctx, rm.J().Name, bf, c.ver, rm.roomID, rm.ver, []string{rm.tip.id}, limit, uidFor)
	}) {
		return
	}
	r.Logf("  RequestBackfill(limit %d, servers %d) -> %d events err=%v", limit, len(bf.servers), len(got), err != nil)
	if nf > 0 || sp.fired || flaky != "" {
		r.Nontriv = true
	}
	if contract && !sp.fired && !c.prov.offContract {
		// every event some asked, answering server sent in a form that passes
		// every check is returned; no returned event failed the auth checks
		// in every form it was sent in
		may, must := map[string]bool{}, map[string]string{}
		flakyPending := flaky != ""
		for _, sn := range bf.asked {
			if bf.fail[sn] {
				continue
			}
			for _, e := range bf.txns[sn].entries {
				if e.ev == nil {
					continue
				}
				cl := classes[sn][e.id()]
				if e.id() == flaky && flakyPending {
					flakyPending = false
					if cl == "ok" {
						cl = "auth_at_state"
					}
				}
				if cl == "ok" || cl == "signature" {
					may[e.id()] = true
				}
				if cl == "ok" {
					must[e.id()] = string(sn)
				}
			}
		}
		have := map[string]bool{}
		for _, e := range got {
			have[e.EventID()] = true
			if !may[e.EventID()] {
				r.Violate("C14", "backfill_returns_failing_event", "auth", "RequestBackfill returned %s although every copy the asked servers sent fails the auth checks", c.desc(e.EventID()))
			}
		}
		mustIDs := make([]string, 0, len(must))
		for id := range must {
			mustIDs = append(mustIDs, id)
		}
		sort.Strings(mustIDs)
		for _, id := range mustIDs {
			if !have[id] {
				sig := "plain"
				if id == flaky {
					sig = "refused_from_an_earlier_server"
				}
				r.Violate("C14", "backfill_drops_good_event", sig, "RequestBackfill did not return %s although %s sent it and it passes every check (limit %d, %d returned, asked %v)", c.desc(id), must[id], limit, len(got), bf.asked)
			}
		}
	} else {
		r.Probe("backfill_not_judged_cancelled_or_off_contract")
	}
	seen := map[string]bool{}
	for _, e := range got {
		if !sent[e.EventID()] {
			r.Violate("C14", "backfill_foreign_event", "foreign", "RequestBackfill returned %s which no server sent", shortID(e.EventID()))
		}
		if seen[e.EventID()] {
			r.Violate("C14", "backfill_duplicate", "duplicate", "RequestBackfill returned %s twice", c.desc(e.EventID()))
		}
		seen[e.EventID()] = true
	}
	if ch, an := checkTopo(got, false); ch != "" {
		r.Violate("C14", "backfill_order", "prev", "RequestBackfill placed %s before its ancestor %s", c.desc(ch), c.desc(an))
	}
	if len(got) > 0 {
		r.Probe("backfill_returned_events")
	}
}
