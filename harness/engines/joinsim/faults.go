package joinsim

import (
	"context"
	"encoding/json"
	"errors"
	"fmt"
	"runtime/debug"
	"sort"
	"strings"

	gmsl "github.com/matrix-org/gomatrixserverlib"
	"github.com/matrix-org/gomatrixserverlib/spec"

	"verifharness/sim"
	"verifharness/world"
)

// ---- raw-JSON surgery ------------------------------------------------------------

func (rm *room) parse(raw []byte) gmsl.PDU {
	ev, err := rm.impl.NewEventFromTrustedJSON(raw, false)
	if err != nil {
		return nil
	}
	return ev
}

// editTop applies f to the top-level members of a JSON object and returns the
// canonical re-encoding.
func editTop(raw []byte, f func(m map[string]json.RawMessage)) []byte {
	var m map[string]json.RawMessage
	if err := json.Unmarshal(raw, &m); err != nil {
		panic(fmt.Sprintf("joinsim: editTop on unparsable event: %v", err))
	}
	f(m)
	out, err := json.Marshal(m)
	if err != nil {
		panic(err)
	}
	can, err := gmsl.CanonicalJSON(out)
	if err != nil {
		panic(err)
	}
	return can
}

func getSigs(raw []byte) map[string]map[string]string {
	var top struct {
		Signatures map[string]map[string]string `json:"signatures"`
	}
	_ = json.Unmarshal(raw, &top)
	if top.Signatures == nil {
		top.Signatures = map[string]map[string]string{}
	}
	return top.Signatures
}

func setSigs(raw []byte, sigs map[string]map[string]string) []byte {
	return editTop(raw, func(m map[string]json.RawMessage) {
		b, _ := json.Marshal(sigs)
		m["signatures"] = b
	})
}

// requiredSigners lists (from ground truth about the event's shape) the
// servers whose signature the event needs.
func (rm *room) requiredSigners(ev gmsl.PDU) []string {
	set := map[string]bool{}
	if s := rm.serverOf(string(ev.SenderID())); s != nil {
		set[string(s.Name)] = true
	} else if i := strings.IndexByte(string(ev.SenderID()), ':'); i >= 0 {
		set[string(ev.SenderID())[i+1:]] = true
	}
	if ev.Type() == spec.MRoomMember && ev.StateKey() != nil {
		m, _ := ev.Membership()
		if m == "invite" {
			if i := strings.IndexByte(*ev.StateKey(), ':'); i >= 0 {
				set[(*ev.StateKey())[i+1:]] = true
			}
		}
		if m == "join" && rm.canRestrict {
			var c struct {
				Via string `json:"join_authorised_via_users_server"`
			}
			_ = json.Unmarshal(ev.Content(), &c)
			if i := strings.IndexByte(c.Via, ':'); c.Via != "" && i >= 0 {
				set[c.Via[i+1:]] = true
			}
		}
	}
	out := make([]string, 0, len(set))
	for s := range set {
		out = append(out, s)
	}
	sort.Strings(out)
	return out
}

var sigKinds = []string{"sig_corrupt", "sig_strip", "sig_wrong_key"}

// sigFault returns a copy of raw whose signature by one required signer is
// corrupted / stripped / made with a key that is not the server's.
func (rm *room) sigFault(ev gmsl.PDU, kind string, victim string) []byte {
	t := rm.t
	raw := ev.JSON()
	signers := rm.requiredSigners(ev)
	if victim == "" {
		victim = sim.Pick(t, signers)
	}
	sigs := getSigs(raw)
	switch kind {
	case "sig_corrupt":
		ks := make([]string, 0, len(sigs[victim]))
		for k := range sigs[victim] {
			ks = append(ks, k)
		}
		sort.Strings(ks)
		if len(ks) == 0 {
			return setSigs(raw, sigs)
		}
		for _, k := range ks { // every signature of the victim server is damaged
			s := []byte(sigs[victim][k])
			i := t.Intn(len(s) - 2)
			if s[i] == 'A' {
				s[i] = 'B'
			} else {
				s[i] = 'A'
			}
			sigs[victim][k] = string(s)
		}
		return setSigs(raw, sigs)
	case "sig_strip":
		if t.Chance(200) {
			return setSigs(raw, map[string]map[string]string{})
		}
		delete(sigs, victim)
		return setSigs(raw, sigs)
	default: // wrong key: same server name and key ID, another private key
		var keyID gmsl.KeyID = "ed25519:k1"
		var ks []string
		for k := range sigs[victim] {
			ks = append(ks, k)
		}
		sort.Strings(ks)
		if len(ks) > 0 {
			keyID = gmsl.KeyID(ks[0])
		}
		if s := rm.ledger.Servers[spec.ServerName(victim)]; s != nil {
			keyID = s.Current().ID
		}
		delete(sigs, victim)
		stripped := rm.parse(setSigs(raw, sigs))
		rogue := world.NewCompactKey(t, "rogue/"+victim)
		return stripped.Sign(victim, keyID, rogue).JSON()
	}
}

// rebuildDisallowed returns a validly signed variant of ev (same position,
// auth events drawn from the same events) that is NOT allowed by its own auth
// events, or nil if no candidate edit produced one.
func (rm *room) rebuildDisallowed(ev gmsl.PDU, lookup func(string) gmsl.PDU) (gmsl.PDU, string) {
	t := rm.t
	var auth []gmsl.PDU
	for _, a := range ev.AuthEventIDs() {
		if e := lookup(a); e != nil {
			auth = append(auth, e)
		}
	}
	ghost := user{id: "@ghost:" + string(rm.J().Name), srv: rm.J()}
	var content map[string]any
	_ = json.Unmarshal(ev.Content(), &content)
	type cand struct {
		how     string
		actor   user
		sk      *string
		content map[string]any
	}
	var cands []cand
	cands = append(cands, cand{"outsider_sender", ghost, ev.StateKey(), content})
	orig := rm.userByID(string(ev.SenderID()))
	if orig != nil {
		if ev.Type() == spec.MRoomPowerLevels {
			c2 := map[string]any{}
			b, _ := json.Marshal(content)
			_ = json.Unmarshal(b, &c2)
			us, _ := c2["users"].(map[string]any)
			if us == nil {
				us = map[string]any{}
			}
			us[ghost.id] = 1 << 40
			us[orig.id] = 1 << 40
			c2["users"] = us
			cands = append(cands, cand{"pl_escalation", *orig, ev.StateKey(), c2})
		}
		if ev.Type() == spec.MRoomMember {
			cands = append(cands, cand{"ban_creator", *orig, world.Str(rm.users[0].id), map[string]any{"membership": "ban"}})
			cands = append(cands, cand{"join_other", *orig, world.Str(ghost.id), map[string]any{"membership": "join"}})
		}
	}
	for _, i := range t.Perm(len(cands)) {
		c := cands[i]
		p := world.Proto{RoomID: rm.roomID, Sender: c.actor.id, Type: ev.Type(), StateKey: c.sk, Content: c.content, Prev: ev.PrevEventIDs(), Depth: ev.Depth(), AuthFrom: provOf(auth)}
		if ev.Type() == spec.MRoomCreate {
			continue
		}
		ne, err := world.Build(rm.impl, p, ev.OriginServerTS().Time(), c.actor.srv.Name, c.actor.srv.Current())
		if err != nil {
			continue
		}
		cm, _ := c.content["membership"].(string)
		_ = cm
		for _, s := range rm.extraSigners(ev.Type(), c.sk, c.content, c.actor.id) {
			ne = rm.countersign(ne, s)
		}
		var own []gmsl.PDU
		for _, a := range ne.AuthEventIDs() {
			if e := lookup(a); e != nil {
				own = append(own, e)
			}
		}
		if allowedBy(ne, own) != nil && ne.EventID() != ev.EventID() {
			return ne, c.how
		}
	}
	return nil, ""
}

// ---- scripted EventProvider -----------------------------------------------------------

const (
	pvServe = iota
	pvNothing
	pvError
	pvDifferent // returns another event instead (outside the property's quantifier: probes only)
	pvExtra     // returns the event plus an unrequested one (probes only)
)

var pvNames = []string{"serve", "nothing", "error", "different", "extra"}

type livelockAbort struct{}

// evProvider is the caller's event store as the library sees it.
type evProvider struct {
	r      *sim.Run
	store  map[string]gmsl.PDU
	script map[string]int
	other  gmsl.PDU // what "different"/"extra" return
	calls  [][]string
	perID  map[string]int
	served map[string]bool
	// offContract is set when a different/extra answer was actually given
	offContract bool
	// eager: the provider hands over, with every event it serves, the auth
	// ancestors of that event it would serve if asked (the rest of the chain in
	// one answer). Within the contract: each is the event of that ID.
	eager bool
}

func newProvider(r *sim.Run) *evProvider {
	return &evProvider{r: r, store: map[string]gmsl.PDU{}, script: map[string]int{}, perID: map[string]int{}, served: map[string]bool{}}
}

func (p *evProvider) reset() {
	p.calls, p.perID, p.served, p.offContract, p.eager = nil, map[string]int{}, map[string]bool{}, false, false
}

// answer is the pure scripted function (no logging, no counters).
func (p *evProvider) answer(ids []string) ([]gmsl.PDU, error) {
	for _, id := range ids {
		if p.script[id] == pvError {
			return nil, errors.New("provider: database error")
		}
	}
	var out []gmsl.PDU
	for _, id := range ids {
		switch p.script[id] {
		case pvServe:
			if e := p.store[id]; e != nil {
				out = append(out, e)
			}
		case pvDifferent:
			if p.other != nil {
				out = append(out, p.other)
			}
		case pvExtra:
			if e := p.store[id]; e != nil {
				out = append(out, e)
			}
			if p.other != nil {
				out = append(out, p.other)
			}
		}
	}
	if p.eager {
		have := map[string]bool{}
		for _, e := range out {
			have[e.EventID()] = true
		}
		for i := 0; i < len(out); i++ {
			for _, a := range out[i].AuthEventIDs() {
				if e := p.store[a]; e != nil && !have[a] && p.script[a] == pvServe {
					have[a] = true
					out = append(out, e)
				}
			}
		}
	}
	return out, nil
}

// one returns the event the provider supplies for id (nil if none), as the
// models see it. okContract is false if the answer is off-contract.
func (p *evProvider) one(id string) (ev gmsl.PDU, okContract bool) {
	switch p.script[id] {
	case pvServe:
		return p.store[id], true
	case pvNothing, pvError:
		return nil, true
	default:
		return nil, false
	}
}

func (p *evProvider) fn(ver gmsl.RoomVersion, ids []string) ([]gmsl.PDU, error) {
	p.calls = append(p.calls, append([]string{}, ids...))
	for _, id := range ids {
		p.perID[id]++
		if p.perID[id] > 40 {
			// the library keeps asking for the same event: unbounded loop
			p.r.Probe("provider_asked_over_40_times_for_one_event")
			panic(livelockAbort{})
		}
		if b := p.script[id]; b == pvDifferent || b == pvExtra {
			p.offContract = true
		}
	}
	out, err := p.answer(ids)
	p.r.Logf("  provider(%s) -> %d events err=%v", shortIDs(ids), len(out), err != nil)
	for _, e := range out {
		p.served[e.EventID()] = true
	}
	if err != nil {
		p.r.Fault("provider_error")
	} else if len(out) < len(ids) {
		p.r.Fault("provider_empty")
	}
	return out, err
}

func shortIDs(ids []string) string {
	var s []string
	for _, id := range ids {
		s = append(s, shortID(id))
	}
	return "[" + strings.Join(s, " ") + "]"
}

// guard runs a library call. It reports whether the call was aborted by the
// provider's unbounded-loop guard; a panic inside the library becomes a
// violation of the property in focus (oracle "panic", signature = panic site)
// so that a recorded known finding lets the run continue.
func guard(r *sim.Run, op string, f func()) (aborted bool) {
	defer func() {
		if p := recover(); p != nil {
			if _, ok := p.(livelockAbort); ok {
				aborted = true
				return
			}
			if fmt.Sprintf("%T", p) == "sim.abortRun" {
				panic(p)
			}
			st := string(debug.Stack())
			site := "harness"
			for _, ln := range strings.Split(st, "\n") {
				ln = strings.TrimSpace(ln)
				if strings.HasPrefix(ln, "github.com/matrix-org/gomatrixserverlib") && !strings.Contains(ln, "verifrt") {
					if i := strings.LastIndex(ln, "("); i > 0 {
						ln = ln[:i]
					}
					site = strings.TrimPrefix(ln, "github.com/matrix-org/gomatrixserverlib.")
					break
				}
			}
			if site == "harness" {
				panic(p)
			}
			st = cleanStack(st)
			aborted = true
			r.Violate(r.Prop, "panic", site, "%s: library panicked: %v\n%s", op, p, st)
		}
	}()
	f()
	return false
}

// cleanStack keeps the frames of a stack dump without addresses, argument
// values or goroutine numbers (the event log must be identical across runs).
func cleanStack(st string) string {
	var out []string
	for _, ln := range strings.Split(st, "\n") {
		switch {
		case strings.HasPrefix(ln, "goroutine "), strings.HasPrefix(ln, "created by "), ln == "":
			continue
		case strings.HasPrefix(ln, "\t"):
			if i := strings.LastIndex(ln, " +0x"); i > 0 {
				ln = ln[:i]
			}
			if i := strings.LastIndex(ln, "/"); i > 0 {
				ln = "\t" + ln[i+1:]
			}
		default:
			if i := strings.LastIndex(ln, "("); i > 0 {
				ln = ln[:i]
			}
		}
		if strings.Contains(ln, "runtime/debug") || strings.HasPrefix(ln, "runtime.") || strings.HasPrefix(ln, "panic") {
			continue
		}
		out = append(out, ln)
		if len(out) >= 24 {
			break
		}
	}
	return strings.Join(out, "\n")
}

// ---- scripted StateProvider --------------------------------------------------------------

type stateAnswer struct {
	ids     []string
	idsErr  bool
	state   map[string]gmsl.PDU
	stErr   bool
	comment string
}

// stProvider answers the two StateProvider calls per event from a script.
type stProvider struct {
	r        *sim.Run
	answers  map[string]*stateAnswer // by event ID
	calls    int
	cancelAt int // cancel the context when the n-th callback (1-based) is entered; 0 = never
	cancel   context.CancelFunc
	fired    bool
	log      []string
	// failOnce: the first state-IDs lookup for these events fails (a fetch
	// that did not get through), later ones answer
	failOnce map[string]bool
}

func (s *stProvider) enter(what string, ev gmsl.PDU) { s.enterID(what, ev.EventID()) }

func (s *stProvider) enterID(what string, id string) {
	s.calls++
	s.log = append(s.log, what+":"+shortID(id))
	if s.cancelAt > 0 && s.calls == s.cancelAt && s.cancel != nil {
		s.cancel()
		s.fired = true
		s.r.Fault("ctx_cancel")
		s.r.Logf("  ctx cancelled inside %s(%s)", what, shortID(id))
	}
}

func (s *stProvider) StateIDsBeforeEvent(ctx context.Context, ev gmsl.PDU) ([]string, error) {
	s.enter("ids", ev)
	a := s.answers[ev.EventID()]
	if a == nil {
		return nil, fmt.Errorf("state provider: unknown event")
	}
	if a.idsErr {
		s.r.Fault("provider_error")
		return nil, fmt.Errorf("state provider: database error")
	}
	if s.failOnce[ev.EventID()] {
		delete(s.failOnce, ev.EventID())
		s.r.Fault("provider_error_once")
		s.r.Logf("  state provider fails once for %s", shortID(ev.EventID()))
		return nil, fmt.Errorf("state provider: request did not get through")
	}
	return append([]string{}, a.ids...), nil
}

func (s *stProvider) StateBeforeEvent(ctx context.Context, ver gmsl.RoomVersion, ev gmsl.PDU, ids []string) (map[string]gmsl.PDU, error) {
	s.enter("state", ev)
	a := s.answers[ev.EventID()]
	if a == nil {
		return nil, fmt.Errorf("state provider: unknown event")
	}
	if a.stErr {
		s.r.Fault("provider_error")
		return nil, fmt.Errorf("state provider: database error")
	}
	out := make(map[string]gmsl.PDU, len(a.state))
	for k, v := range a.state {
		out[k] = v
	}
	return out, nil
}

// ---- ledger-backed key database (for the APIs that insist on a *KeyRing) -----------------

type ledgerDB struct {
	l     *world.Ledger
	fail  bool
	calls int
}

func (d *ledgerDB) FetcherName() string { return "ledgerDB" }

func (d *ledgerDB) FetchKeys(ctx context.Context, reqs map[gmsl.PublicKeyLookupRequest]spec.Timestamp) (map[gmsl.PublicKeyLookupRequest]gmsl.PublicKeyLookupResult, error) {
	d.calls++
	if d.fail {
		return nil, errors.New("key database unavailable")
	}
	out := map[gmsl.PublicKeyLookupRequest]gmsl.PublicKeyLookupResult{}
	for rq := range reqs {
		s := d.l.Servers[rq.ServerName]
		if s == nil {
			continue
		}
		k := s.KeyByID(rq.KeyID)
		if k == nil {
			continue
		}
		res := gmsl.PublicKeyLookupResult{VerifyKey: gmsl.VerifyKey{Key: spec.Base64Bytes(k.Pub)}}
		if k.Current() {
			res.ValidUntilTS = spec.AsTimestamp(timeNow().Add(s.ValidFor))
		} else {
			res.ExpiredTS = spec.AsTimestamp(k.ExpiredAt)
		}
		out[rq] = res
	}
	return out, nil
}

func (d *ledgerDB) StoreKeys(ctx context.Context, res map[gmsl.PublicKeyLookupRequest]gmsl.PublicKeyLookupResult) error {
	return nil
}

// fedState answers /state and /state_ids from the same script, for the real
// FederatedStateProvider.
type fedState struct {
	sp   *stProvider
	auth func(state []gmsl.PDU) []gmsl.PDU
}

func (f *fedState) LookupStateIDs(ctx context.Context, origin, s spec.ServerName, roomID, eventID string) (gmsl.StateIDResponse, error) {
	f.sp.enterID("ids", eventID)
	a := f.sp.answers[eventID]
	if a == nil || a.idsErr {
		f.sp.r.Fault("provider_error")
		return nil, fmt.Errorf("/state_ids: remote error")
	}
	return &stateIDs{state: append([]string{}, a.ids...)}, nil
}

func (f *fedState) LookupState(ctx context.Context, origin, s spec.ServerName, roomID, eventID string, ver gmsl.RoomVersion) (gmsl.StateResponse, error) {
	f.sp.enterID("state", eventID)
	a := f.sp.answers[eventID]
	if a == nil || a.stErr {
		f.sp.r.Fault("provider_error")
		return nil, fmt.Errorf("/state: remote error")
	}
	ids := make([]string, 0, len(a.state))
	for id := range a.state {
		ids = append(ids, id)
	}
	sort.Strings(ids)
	var st []gmsl.PDU
	out := &stateRespRaw{}
	for _, id := range ids {
		st = append(st, a.state[id])
		out.state = append(out.state, append([]byte{}, a.state[id].JSON()...))
	}
	for _, e := range f.auth(st) {
		out.auth = append(out.auth, append([]byte{}, e.JSON()...))
	}
	return out, nil
}

type stateIDs struct{ state, auth []string }

func (s *stateIDs) GetStateEventIDs() []string { return s.state }
func (s *stateIDs) GetAuthEventIDs() []string  { return s.auth }

type stateRespRaw struct{ auth, state gmsl.EventJSONs }

func (s *stateRespRaw) GetAuthEvents() gmsl.EventJSONs  { return s.auth }
func (s *stateRespRaw) GetStateEvents() gmsl.EventJSONs { return s.state }
