// joinsim: handshakes (make_join / send_join / invite / make_leave) and the
// verification of federation responses (/state, /send_join, /state_ids,
// /backfill) between a resident server R and an asking server J around a room
// whose history is generated fault-free with the real EventBuilder.
// Properties C14 and C15.
package joinsim

import (
	"encoding/json"
	"fmt"
	"sort"
	"strings"
	"time"

	gmsl "github.com/matrix-org/gomatrixserverlib"
	"github.com/matrix-org/gomatrixserverlib/spec"

	"verifharness/sim"
	"verifharness/world"
)

// skey is a (type, state_key) pair.
type skey struct{ typ, sk string }

type user struct {
	id  string
	srv *world.Server
}

// node is one event of the honest history as the resident stores it.
type node struct {
	ev     gmsl.PDU
	id     string
	idx    int
	before map[skey]string // room state before the event
	after  map[skey]string // room state after the event
	main   bool            // on the main line (state events are a chain)
}

type room struct {
	r       *sim.Run
	t       *sim.Tape
	ver     gmsl.RoomVersion
	impl    gmsl.IRoomVersion
	priv    bool
	ledger  *world.Ledger
	servers []*world.Server
	users   []user
	roomID  string
	nodes   map[string]*node
	order   []string
	tip     *node    // newest main-line event
	loose   []string // message tips not yet merged back
	now     time.Time
	allowed string // room ID named by restricted join rules
	local   string // local part of the room ID (versions with domains in room IDs)
	// capabilities of the version
	canKnock, canRestrict, canKnockRestrict bool
}

func uidFor(roomID spec.RoomID, sender spec.SenderID) (*spec.UserID, error) {
	return spec.NewUserID(string(sender), true)
}

func copyState(m map[skey]string) map[skey]string {
	o := make(map[skey]string, len(m)+1)
	for k, v := range m {
		o[k] = v
	}
	return o
}

func sortedKeys(st map[skey]string) []skey {
	ks := make([]skey, 0, len(st))
	for k := range st {
		ks = append(ks, k)
	}
	sort.Slice(ks, func(i, j int) bool {
		if ks[i].typ != ks[j].typ {
			return ks[i].typ < ks[j].typ
		}
		return ks[i].sk < ks[j].sk
	})
	return ks
}

// newWorld creates the servers and users. servers[0] is the resident R,
// servers[1] the asking server J, servers[2] (optional) a third party.
func newWorld(r *sim.Run, ver gmsl.RoomVersion) *room {
	t := r.T
	impl := gmsl.MustGetRoomVersion(ver)
	rm := &room{r: r, t: t, ver: ver, impl: impl, priv: impl.PrivilegedCreators(), nodes: map[string]*node{}, now: time.Now(), ledger: world.NewLedger()}
	ns := t.Range(2, 3)
	for i := 0; i < ns; i++ {
		s := world.NewCompactServer(t, fmt.Sprintf("s%d.example", i), rm.now)
		rm.servers = append(rm.servers, s)
		rm.ledger.Add(s)
	}
	names := [][]string{{"r0", "r1"}, {"j0", "j1"}, {"t0"}}
	for i, s := range rm.servers {
		for _, n := range names[i] {
			rm.users = append(rm.users, user{id: fmt.Sprintf("@%s:%s", n, s.Name), srv: s})
		}
	}
	rm.canKnock = impl.CheckKnockingAllowed(string(ver), "@a:b", "@a:b", "knock", "") == nil
	rm.canRestrict = impl.CheckRestrictedJoinsAllowed() == nil
	rm.canKnockRestrict = rm.canRestrict && impl.CheckKnockingAllowed(string(ver), "@a:b", "@a:b", "knock_restricted", "") == nil
	rm.allowed = "!allowed:" + string(rm.servers[0].Name)
	return rm
}

func (rm *room) R() *world.Server { return rm.servers[0] }
func (rm *room) J() *world.Server { return rm.servers[1] }

func (rm *room) userByID(id string) *user {
	for i := range rm.users {
		if rm.users[i].id == id {
			return &rm.users[i]
		}
	}
	return nil
}

func (rm *room) serverOf(id string) *world.Server {
	i := strings.IndexByte(id, ':')
	if i < 0 {
		return nil
	}
	return rm.ledger.Servers[spec.ServerName(id[i+1:])]
}

func (rm *room) pdus(st map[skey]string) []gmsl.PDU {
	out := make([]gmsl.PDU, 0, len(st))
	for _, k := range sortedKeys(st) {
		out = append(out, rm.nodes[st[k]].ev)
	}
	return out
}

func (rm *room) stateIDs(st map[skey]string) []string {
	out := make([]string, 0, len(st))
	for _, k := range sortedKeys(st) {
		out = append(out, st[k])
	}
	return out
}

func provOf(evs []gmsl.PDU) *gmsl.AuthEvents {
	p, _ := gmsl.NewAuthEvents(nil)
	for _, e := range evs {
		if e != nil && e.StateKey() != nil {
			_ = p.AddEvent(e)
		}
	}
	return p
}

func (rm *room) provider(st map[skey]string) *gmsl.AuthEvents { return provOf(rm.pdus(st)) }

// authChainOf returns every stored event reachable through auth_events from
// evs (not including evs themselves unless reachable), in history order.
func (rm *room) authChainOf(evs []gmsl.PDU) []gmsl.PDU {
	seen := map[string]bool{}
	var out []gmsl.PDU
	var walk func(e gmsl.PDU)
	walk = func(e gmsl.PDU) {
		for _, a := range e.AuthEventIDs() {
			if seen[a] {
				continue
			}
			n := rm.nodes[a]
			if n == nil {
				continue
			}
			seen[a] = true
			out = append(out, n.ev)
			walk(n.ev)
		}
	}
	for _, e := range evs {
		walk(e)
	}
	sort.Slice(out, func(i, j int) bool { return rm.nodes[out[i].EventID()].idx < rm.nodes[out[j].EventID()].idx })
	return out
}

func (rm *room) membership(st map[skey]string, uid string) string {
	id, ok := st[skey{spec.MRoomMember, uid}]
	if !ok {
		return ""
	}
	m, _ := rm.nodes[id].ev.Membership()
	return m
}

func (rm *room) joinRule(st map[skey]string) string {
	id, ok := st[skey{spec.MRoomJoinRules, ""}]
	if !ok {
		return "invite"
	}
	j, _ := rm.nodes[id].ev.JoinRule()
	return j
}

func (rm *room) joined(st map[skey]string) []user {
	var out []user
	for _, u := range rm.users {
		if rm.membership(st, u.id) == "join" {
			out = append(out, u)
		}
	}
	return out
}

func (rm *room) short(id string) string {
	n := rm.nodes[id]
	if n == nil {
		return "?" + shortID(id)
	}
	return fmt.Sprintf("#%d(%s)", n.idx, describe(n.ev))
}

func shortID(id string) string {
	if len(id) > 9 {
		return id[:9]
	}
	return id
}

func describe(ev gmsl.PDU) string {
	if ev == nil {
		return "nil"
	}
	sk := "-"
	if ev.StateKey() != nil {
		sk = *ev.StateKey()
	}
	m := ""
	if ev.Type() == spec.MRoomMember {
		mm, _ := ev.Membership()
		m = "=" + mm
	}
	return fmt.Sprintf("%s|%s%s by %s", strings.TrimPrefix(ev.Type(), "m.room."), sk, m, ev.SenderID())
}

func (rm *room) nextTS() time.Time {
	rm.now = rm.now.Add(time.Duration(rm.t.Range(1, 3000)) * time.Millisecond)
	return rm.now
}

// extraSigners returns the servers other than the sender's that must sign ev.
func (rm *room) extraSigners(typ string, sk *string, content map[string]any, sender string) []*world.Server {
	if typ != spec.MRoomMember || sk == nil {
		return nil
	}
	var out []*world.Server
	switch content["membership"] {
	case "invite":
		if s := rm.serverOf(*sk); s != nil && s != rm.serverOf(sender) {
			out = append(out, s)
		}
	case "join":
		if via, ok := content["join_authorised_via_users_server"].(string); ok && via != "" && rm.canRestrict {
			if s := rm.serverOf(via); s != nil && s != rm.serverOf(sender) {
				out = append(out, s)
			}
		}
	}
	return out
}

// build builds and signs an event (not stored). prevs / authFrom decide its
// position; every server that has to sign does so with its current key.
func (rm *room) build(actor user, prevs []string, authFrom map[skey]string, typ string, sk *string, content map[string]any, ts time.Time) (gmsl.PDU, error) {
	depth := int64(0)
	for _, p := range prevs {
		if n := rm.nodes[p]; n != nil && n.ev.Depth() > depth {
			depth = n.ev.Depth()
		}
	}
	p := world.Proto{RoomID: rm.roomID, Sender: actor.id, Type: typ, StateKey: sk, Content: content, Prev: prevs, Depth: depth + 1, AuthFrom: rm.provider(authFrom)}
	if typ == spec.MRoomCreate {
		p.AuthFrom = nil
		if rm.impl.DomainlessRoomIDs() {
			p.RoomID = ""
		}
	}
	ev, err := world.Build(rm.impl, p, ts, actor.srv.Name, actor.srv.Current())
	if err != nil {
		return nil, err
	}
	for _, s := range rm.extraSigners(typ, sk, content, actor.id) {
		ev = rm.countersign(ev, s)
	}
	return ev, nil
}

// countersign adds s's signature. The result is re-parsed: PDU.Sign of a room
// version 12 event returns the embedded older event type, whose
// AuthEventIDs() lacks the implicit create event.
func (rm *room) countersign(ev gmsl.PDU, s *world.Server) gmsl.PDU {
	signed := ev.Sign(string(s.Name), s.Current().ID, s.Current().Priv)
	if p := rm.parse(signed.JSON()); p != nil {
		return p
	}
	return signed
}

// allowedBy asks the library whether ev is allowed by the given events.
func allowedBy(ev gmsl.PDU, evs []gmsl.PDU) error {
	return gmsl.Allowed(ev, provOf(evs), uidFor)
}

// store appends a built event to the history.
func (rm *room) store(ev gmsl.PDU, before map[skey]string, main bool) *node {
	n := &node{ev: ev, id: ev.EventID(), idx: len(rm.order), before: before, after: before, main: main}
	if ev.StateKey() != nil {
		n.after = copyState(before)
		n.after[skey{ev.Type(), *ev.StateKey()}] = n.id
	}
	rm.nodes[n.id] = n
	rm.order = append(rm.order, n.id)
	return n
}

// tryAdd builds an event on the main line and stores it only if it is allowed
// both by its own auth events and by the state before it (the history is
// fault-free). Returns nil if the event was refused.
func (rm *room) tryAdd(actor user, typ string, sk *string, content map[string]any) *node {
	var prevs []string
	before := map[skey]string{}
	if rm.tip != nil {
		prevs = []string{rm.tip.id}
		before = rm.tip.after
		if len(rm.loose) > 0 && rm.t.Chance(500) {
			prevs = append(prevs, rm.loose...)
			rm.loose = nil
			rm.r.Probe("history_merge")
		}
	}
	ev, err := rm.build(actor, prevs, before, typ, sk, content, rm.nextTS())
	if err != nil {
		rm.r.Probe("build_refused")
		return nil
	}
	if _, dup := rm.nodes[ev.EventID()]; dup {
		return nil
	}
	var own []gmsl.PDU
	for _, a := range ev.AuthEventIDs() {
		if an := rm.nodes[a]; an != nil {
			own = append(own, an.ev)
		}
	}
	if allowedBy(ev, own) != nil {
		return nil
	}
	if typ != spec.MRoomCreate && allowedBy(ev, rm.pdus(before)) != nil {
		return nil
	}
	n := rm.store(ev, before, true)
	rm.tip = n
	return n
}

// addMessage adds a non-state event, possibly forking off an older event.
func (rm *room) addMessage(actor user, i int) *node {
	base := rm.tip
	fork := false
	if rm.t.Chance(300) && len(rm.order) > 3 {
		// fork: hang the message off an older main-line event
		cand := rm.nodes[rm.order[rm.t.Range(1, len(rm.order)-1)]]
		if cand.main && cand != rm.tip {
			base, fork = cand, true
		}
	}
	if rm.membership(base.after, actor.id) != "join" {
		return nil
	}
	ev, err := rm.build(actor, []string{base.id}, base.after, "m.room.message", nil, map[string]any{"body": fmt.Sprintf("m%d", i), "msgtype": "m.text"}, rm.nextTS())
	if err != nil {
		return nil
	}
	if allowedBy(ev, rm.pdus(base.after)) != nil {
		return nil
	}
	if _, dup := rm.nodes[ev.EventID()]; dup {
		return nil
	}
	if fork {
		n := rm.store(ev, base.after, false)
		rm.loose = append(rm.loose, n.id)
		rm.r.Probe("history_fork")
		return n
	}
	n := rm.store(ev, base.after, true)
	rm.tip = n
	return n
}

func (rm *room) isCreator(id string) bool {
	if len(rm.order) == 0 {
		return false
	}
	c := rm.nodes[rm.order[0]].ev
	if string(c.SenderID()) == id {
		return true
	}
	var cc struct {
		Additional []string `json:"additional_creators"`
	}
	_ = json.Unmarshal(c.Content(), &cc)
	for _, a := range cc.Additional {
		if a == id {
			return true
		}
	}
	return false
}

func (rm *room) joinRuleContent(jr string) map[string]any {
	c := map[string]any{"join_rule": jr}
	if jr == "restricted" || jr == "knock_restricted" {
		allow := []any{map[string]any{"type": "m.room_membership", "room_id": rm.allowed}}
		// sometimes several allow entries: further rooms, an entry of an
		// unknown type, an entry with an unusable room ID
		for k := rm.t.Weighted([]int{5, 3, 2}); k > 0; k-- {
			switch rm.t.Weighted([]int{6, 1, 1}) {
			case 0:
				allow = append(allow, map[string]any{"type": "m.room_membership", "room_id": fmt.Sprintf("!allowed%d:%s", k, rm.servers[0].Name)})
			case 1:
				allow = append(allow, map[string]any{"type": "org.example.other", "room_id": rm.allowed})
			case 2:
				allow = append(allow, map[string]any{"type": "m.room_membership", "room_id": "not-a-room-id"})
			}
		}
		if rm.t.Chance(150) {
			// the entry naming the room users really come from is of a type
			// this library does not know (or has none): it admits nobody
			first := allow[0].(map[string]any)
			if rm.t.Bool() {
				first["type"] = "org.example.some_future_rule"
			} else {
				delete(first, "type")
			}
			rm.r.Probe("allow_entry_for_the_real_room_is_of_unknown_type")
		}
		if len(allow) > 1 && rm.t.Bool() {
			allow[0], allow[len(allow)-1] = allow[len(allow)-1], allow[0]
		}
		c["allow"] = allow
	}
	return c
}

func (rm *room) pickJoinRule() string {
	pool := []string{"public", "public", "invite"}
	if rm.canKnock {
		pool = append(pool, "knock")
	}
	if rm.canRestrict {
		pool = append(pool, "restricted", "restricted")
	}
	if rm.canKnockRestrict {
		pool = append(pool, "knock_restricted")
	}
	return sim.Pick(rm.t, pool)
}

func (rm *room) defaultPL(creator user) map[string]any {
	users := map[string]any{}
	if !rm.priv {
		users[creator.id] = 100
	}
	if rm.t.Chance(600) {
		users[rm.users[1].id] = sim.Pick(rm.t, []int{50, 100, 0})
	}
	return map[string]any{"users": users, "users_default": 0, "events_default": sim.Pick(rm.t, []int{0, 0, 50}), "state_default": sim.Pick(rm.t, []int{50, 0}),
		"ban": 50, "kick": 50, "redact": 50, "invite": sim.Pick(rm.t, []int{0, 50, 0}), "events": map[string]any{}}
}

// bootstrap creates the room: create, creator's join, optional power levels
// and join rules.
func (rm *room) bootstrap() error {
	t := rm.t
	creator := rm.users[0]
	content := map[string]any{"room_version": string(rm.ver)}
	if !rm.priv {
		content["creator"] = creator.id
	}
	local := rm.local
	if local == "" {
		local = "room"
	}
	rm.roomID = fmt.Sprintf("!%s:%s", local, creator.srv.Name)
	n := rm.tryAdd(creator, spec.MRoomCreate, world.Str(""), content)
	if n == nil {
		return fmt.Errorf("create event refused")
	}
	if rm.impl.DomainlessRoomIDs() {
		rm.roomID = "!" + n.id[1:]
	}
	if rm.tryAdd(creator, spec.MRoomMember, world.Str(creator.id), map[string]any{"membership": "join"}) == nil {
		return fmt.Errorf("creator join refused")
	}
	if t.Chance(850) {
		if rm.tryAdd(creator, spec.MRoomPowerLevels, world.Str(""), rm.defaultPL(creator)) == nil {
			return fmt.Errorf("power levels refused")
		}
	}
	if t.Chance(900) {
		if rm.tryAdd(creator, spec.MRoomJoinRules, world.Str(""), rm.joinRuleContent(rm.pickJoinRule())) == nil {
			return fmt.Errorf("join rules refused")
		}
	}
	return nil
}

// authoriser returns a joined user of the resident server entitled to invite
// (as the honest resident would nominate for a restricted join), or "".
func (rm *room) authoriser(st map[skey]string) string {
	for _, u := range rm.users {
		if u.srv != rm.R() || rm.membership(st, u.id) != "join" {
			continue
		}
		if rm.mayInvite(st, u.id) {
			return u.id
		}
	}
	return ""
}

func (rm *room) plOf(st map[skey]string) *gmsl.PowerLevelContent {
	id, ok := st[skey{spec.MRoomPowerLevels, ""}]
	if !ok {
		return nil
	}
	pl, err := rm.nodes[id].ev.PowerLevels()
	if err != nil {
		return nil
	}
	return pl
}

func (rm *room) mayInvite(st map[skey]string, uid string) bool {
	if rm.priv && rm.isCreator(uid) {
		return true
	}
	pl := rm.plOf(st)
	if pl == nil {
		return true // default invite level 0
	}
	return pl.UserLevel(spec.SenderID(uid)) >= pl.Invite
}

// joinContent returns the content an honest join of uid would carry in st.
func (rm *room) joinContent(st map[skey]string, uid string) map[string]any {
	c := map[string]any{"membership": "join"}
	jr := rm.joinRule(st)
	if (jr == "restricted" || jr == "knock_restricted") && rm.canRestrict {
		m := rm.membership(st, uid)
		if m != "join" && m != "invite" {
			if a := rm.authoriser(st); a != "" {
				c["join_authorised_via_users_server"] = a
			}
		}
	}
	return c
}

// step performs one honest action; actions the auth rules refuse are skipped.
func (rm *room) step(i int) {
	t := rm.t
	st := rm.tip.after
	actor := sim.Pick(t, rm.users)
	mem := rm.membership(st, actor.id)
	var n *node
	what := ""
	if mem != "join" {
		switch t.Weighted([]int{6, 2, 1}) {
		case 0:
			what = "join"
			n = rm.tryAdd(actor, spec.MRoomMember, world.Str(actor.id), rm.joinContent(st, actor.id))
		case 1:
			what = "knock"
			if rm.canKnock {
				n = rm.tryAdd(actor, spec.MRoomMember, world.Str(actor.id), map[string]any{"membership": "knock"})
			}
		case 2:
			what = "leave"
			n = rm.tryAdd(actor, spec.MRoomMember, world.Str(actor.id), map[string]any{"membership": "leave"})
		}
	} else {
		other := sim.Pick(t, rm.users)
		switch t.Weighted([]int{3, 3, 2, 2, 2, 1, 1, 1}) {
		case 0:
			what = "message"
			n = rm.addMessage(actor, i)
		case 1:
			what = "invite"
			n = rm.tryAdd(actor, spec.MRoomMember, world.Str(other.id), map[string]any{"membership": "invite"})
		case 2:
			what = "topic"
			n = rm.tryAdd(actor, "m.room.topic", world.Str(""), map[string]any{"topic": fmt.Sprintf("t%d", i)})
		case 3:
			what = "ban/kick"
			if other.id != actor.id {
				n = rm.tryAdd(actor, spec.MRoomMember, world.Str(other.id), map[string]any{"membership": sim.Pick(t, []string{"ban", "leave", "ban"})})
			}
		case 4:
			what = "join_rules"
			n = rm.tryAdd(actor, spec.MRoomJoinRules, world.Str(""), rm.joinRuleContent(rm.pickJoinRule()))
		case 5:
			what = "power_levels"
			n = rm.tryAdd(actor, spec.MRoomPowerLevels, world.Str(""), rm.mutatePL(st, actor))
		case 6:
			what = "leave"
			if !rm.isCreator(actor.id) {
				n = rm.tryAdd(actor, spec.MRoomMember, world.Str(actor.id), map[string]any{"membership": "leave"})
			}
		case 7:
			what = "custom"
			n = rm.tryAdd(actor, "org.example.thing", world.Str(sim.Pick(t, []string{"a", "b"})), map[string]any{"v": i})
		}
	}
	if n == nil {
		rm.r.Logf("step %d: %s by %s refused/skipped", i, what, actor.id)
		return
	}
	rm.r.Logf("step %d: %s prevs=%d", i, rm.short(n.id), len(n.ev.PrevEventIDs()))
}

// mutatePL derives a new power-levels content from the current one (honest:
// never above the actor's own level; refused proposals are simply skipped).
func (rm *room) mutatePL(st map[skey]string, actor user) map[string]any {
	t := rm.t
	out := map[string]any{}
	if id, ok := st[skey{spec.MRoomPowerLevels, ""}]; ok {
		_ = json.Unmarshal(rm.nodes[id].ev.Content(), &out)
	} else {
		out = rm.defaultPL(rm.users[0])
	}
	users, _ := out["users"].(map[string]any)
	if users == nil {
		users = map[string]any{}
		out["users"] = users
	}
	lv := sim.Pick(t, []int{0, 25, 50, 50, 100})
	switch t.Intn(4) {
	case 0:
		u := sim.Pick(t, rm.users)
		if !(rm.priv && rm.isCreator(u.id)) {
			users[u.id] = lv
		}
	case 1:
		out[sim.Pick(t, []string{"invite", "ban", "kick", "events_default", "state_default"})] = lv
	case 2:
		ev, _ := out["events"].(map[string]any)
		if ev == nil {
			ev = map[string]any{}
			out["events"] = ev
		}
		ev[sim.Pick(t, []string{"m.room.topic", "m.room.message", "org.example.thing"})] = lv
	case 3:
		u := sim.Pick(t, rm.users)
		delete(users, u.id)
	}
	return out
}

// generate builds the whole honest history.
func (rm *room) generate(minSteps, maxSteps int) error {
	if err := rm.bootstrap(); err != nil {
		return err
	}
	n := rm.t.Range(minSteps, maxSteps)
	for i := 0; i < n && len(rm.order) < 30; i++ {
		rm.step(i)
	}
	return nil
}

// sibling creates a small second room on the same servers.
func (rm *room) sibling() *room {
	o := *rm
	o.nodes, o.order, o.tip, o.loose, o.local = map[string]*node{}, nil, nil, nil, "other"
	if err := o.bootstrap(); err != nil {
		return nil
	}
	o.tryAdd(o.users[0], "org.example.thing", world.Str("elsewhere"), map[string]any{"v": 1})
	o.addMessage(o.users[0], 0)
	rm.now = o.now
	return &o
}

// restart simulates a crash/restart of the resident: every stored event is
// persisted as headered JSON and loaded back.
func (rm *room) restart() {
	for _, id := range rm.order {
		n := rm.nodes[id]
		h, err := n.ev.ToHeaderedJSON()
		if err != nil {
			rm.r.Probe("restart_persist_failed")
			continue
		}
		ev, err := gmsl.NewEventFromHeaderedJSON(h, false)
		if err != nil || ev.EventID() != id {
			rm.r.Probe("restart_reload_changed_event")
			continue
		}
		n.ev = ev
	}
	rm.r.Fault("crash_restart")
	rm.r.Logf("resident restarted: %d events reloaded from headered JSON", len(rm.order))
}
