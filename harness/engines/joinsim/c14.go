package joinsim

import (
	"bytes"
	"context"
	"errors"
	"fmt"
	"sort"
	"strings"
	"time"

	gmsl "github.com/matrix-org/gomatrixserverlib"
	"github.com/matrix-org/gomatrixserverlib/spec"

	"verifharness/sim"
	"verifharness/world"
)

func timeNow() time.Time { return time.Now() }

// entry is one element of an event list as it travels to the library.
type entry struct {
	raw  []byte
	ev   gmsl.PDU // trusted parse of raw; nil for a malformed entry
	note string   // fault carried by this entry ("" = none)
}

func (e *entry) id() string {
	if e.ev == nil {
		return ""
	}
	return e.ev.EventID()
}

// answer is a /state or /send_join style response with its ground truth.
type answer struct {
	auth, state []*entry
	sigBad      map[string]string // event ID -> signature fault kind
	faults      map[string]string // event ID -> last fault kind (for signatures of violations)
	nfaults     int
	// splitSig: event IDs listed in both lists of which only one copy has a
	// damaged signature; whether the intact copy survives is not prescribed
	splitSig map[string]string
}

type c14 struct {
	rm    *room
	r     *sim.Run
	t     *sim.Tape
	other *room               // a second room on the same servers ("event from another room")
	bad   map[string]gmsl.PDU // Byzantine events known to the stores but not part of the history
	ver   *world.Verifier
	prov  *evProvider
}

func (c *c14) lookup(id string) gmsl.PDU {
	if n := c.rm.nodes[id]; n != nil {
		return n.ev
	}
	if e := c.bad[id]; e != nil {
		return e
	}
	if c.other != nil {
		if n := c.other.nodes[id]; n != nil {
			return n.ev
		}
	}
	return nil
}

func entryOf(ev gmsl.PDU) *entry { return &entry{raw: append([]byte{}, ev.JSON()...), ev: ev} }

func (c *c14) newAnswer(state, auth []gmsl.PDU) *answer {
	a := &answer{sigBad: map[string]string{}, faults: map[string]string{}}
	for _, e := range auth {
		a.auth = append(a.auth, entryOf(e))
	}
	for _, e := range state {
		a.state = append(a.state, entryOf(e))
	}
	return a
}

func (a *answer) all() []*entry { return append(append([]*entry{}, a.auth...), a.state...) }

func (a *answer) ids() []string {
	seen := map[string]bool{}
	var out []string
	for _, e := range a.all() {
		if e.ev != nil && !seen[e.id()] {
			seen[e.id()] = true
			out = append(out, e.id())
		}
	}
	return out
}

func (a *answer) replaceAll(id string, raw []byte, ev gmsl.PDU, note string) {
	for _, l := range [][]*entry{a.auth, a.state} {
		for _, e := range l {
			if e.ev != nil && e.id() == id {
				e.raw, e.ev, e.note = raw, ev, note
			}
		}
	}
}

func (a *answer) removeAll(id string) {
	f := func(l []*entry) []*entry {
		var out []*entry
		for _, e := range l {
			if e.ev == nil || e.id() != id {
				out = append(out, e)
			}
		}
		return out
	}
	a.auth, a.state = f(a.auth), f(a.state)
}

func insertAt(l []*entry, i int, e *entry) []*entry {
	l = append(l, nil)
	copy(l[i+1:], l[i:])
	l[i] = e
	return l
}

var malformedSamples = []string{`{"type":"m.room.member","room_id":`, `null`, `{}`, `null`, `"event"`, `[1,2]`, `{"room_id":"!x:y","type":5}`}

// pickMissingBehaviour draws how the caller's event provider reacts when asked
// for an event that did not arrive usable.
func (c *c14) pickMissingBehaviour(id string) {
	if _, done := c.prov.script[id]; done {
		return
	}
	b := c.t.Weighted([]int{4, 3, 2, 1, 1})
	if c.prov.other == nil && b >= pvDifferent {
		b = pvNothing
	}
	c.prov.script[id] = b
	c.r.Logf("  provider script: %s -> %s", shortID(id), pvNames[b])
}

var stateFaultKinds = []string{"sig_corrupt", "sig_strip", "sig_wrong_key", "auth_fail", "missing_auth", "wrong_room", "non_state", "dup_key", "malformed", "dup_listing", "sig_one_copy", "unsignable"}

// applyFaults gives a tape-chosen subset of the answer's events one fault each.
func (c *c14) applyFaults(a *answer, allowStructural bool) {
	t, rm := c.t, c.rm
	k := t.Weighted([]int{3, 4, 3, 2, 1, 1})
	touched := map[string]bool{}
	pickVictim := func(filter func(gmsl.PDU) bool) gmsl.PDU {
		var cands []gmsl.PDU
		for _, id := range a.ids() {
			if touched[id] {
				continue
			}
			ev := c.evIn(a, id)
			if filter == nil || filter(ev) {
				cands = append(cands, ev)
			}
		}
		if len(cands) == 0 {
			return nil
		}
		return sim.Pick(t, cands)
	}
	for i := 0; i < k; i++ {
		w := []int{3, 2, 2, 4, 4, 1, 1, 1, 2, 1, 1, 1}
		if !allowStructural {
			w[6], w[7] = 0, 0
		}
		kind := stateFaultKinds[t.Weighted(w)]
		switch kind {
		case "sig_corrupt", "sig_strip", "sig_wrong_key":
			v := pickVictim(nil)
			if v == nil {
				continue
			}
			raw := rm.sigFault(v, kind, "")
			nv := rm.parse(raw)
			if nv == nil || nv.EventID() != v.EventID() {
				c.r.Probe("sig_fault_changed_identity")
				continue
			}
			a.replaceAll(v.EventID(), raw, nv, kind)
			a.sigBad[v.EventID()] = kind
			a.faults[v.EventID()] = kind
			touched[v.EventID()] = true
			c.pickMissingBehaviour(v.EventID())
			c.r.Logf("  fault %s on %s", kind, c.desc(v.EventID()))
		case "unsignable":
			// An extra state event for which it cannot even be worked out who
			// had to sign it: an invite whose state key is no user ID. Its
			// signatures cannot be verified, so it may not come back - and the
			// verdict on its neighbours may not shift because of it.
			sk := sim.Pick(t, []string{"nobody", "@", "not a user id", "@:"})
			ev, err := rm.build(rm.users[0], []string{rm.tip.id}, rm.tip.after, spec.MRoomMember, world.Str(sk), map[string]any{"membership": "invite"}, timeNow())
			if err != nil || ev == nil {
				c.r.Probe("unsignable_event_not_buildable")
				continue
			}
			e := entryOf(ev)
			e.note = kind
			if t.Chance(700) {
				a.state = insertAt(a.state, t.Intn(len(a.state)+1), e)
			} else {
				a.auth = insertAt(a.auth, t.Intn(len(a.auth)+1), e)
			}
			a.sigBad[ev.EventID()] = kind
			a.faults[ev.EventID()] = kind
			touched[ev.EventID()] = true
			c.r.Logf("  fault unsignable: invite of %q inserted", sk)
		case "sig_one_copy":
			// an event listed among the auth events and in the state: the
			// signature of one of the two copies is damaged, the other is intact
			inAuth := map[string]bool{}
			for _, e := range a.auth {
				if e.ev != nil {
					inAuth[e.id()] = true
				}
			}
			v := pickVictim(func(e gmsl.PDU) bool {
				if !inAuth[e.EventID()] {
					return false
				}
				for _, x := range a.state {
					if x.ev != nil && x.id() == e.EventID() {
						return true
					}
				}
				return false
			})
			if v == nil {
				continue
			}
			sk := sim.Pick(t, []string{"sig_corrupt", "sig_strip", "sig_wrong_key"})
			raw := rm.sigFault(v, sk, "")
			nv := rm.parse(raw)
			if nv == nil || nv.EventID() != v.EventID() {
				c.r.Probe("sig_fault_changed_identity")
				continue
			}
			which := sim.Pick(t, []string{"state", "auth"})
			list := a.state
			if which == "auth" {
				list = a.auth
			}
			for _, e := range list {
				if e.ev != nil && e.id() == v.EventID() {
					e.raw, e.ev, e.note = raw, nv, kind+":"+sk
				}
			}
			if a.splitSig == nil {
				a.splitSig = map[string]string{}
			}
			a.splitSig[v.EventID()] = which
			a.faults[v.EventID()] = kind
			touched[v.EventID()] = true
			c.r.Logf("  fault sig_one_copy(%s): the %s-list copy of %s", sk, which, c.desc(v.EventID()))
		case "auth_fail":
			v := pickVictim(func(e gmsl.PDU) bool { return e.Type() != spec.MRoomCreate })
			if v == nil {
				continue
			}
			ne, how := rm.rebuildDisallowed(v, c.lookup)
			if ne == nil {
				c.r.Probe("auth_fail_no_candidate")
				continue
			}
			c.bad[ne.EventID()] = ne
			a.replaceAll(v.EventID(), append([]byte{}, ne.JSON()...), ne, kind+":"+how)
			a.faults[ne.EventID()] = kind
			touched[ne.EventID()], touched[v.EventID()] = true, true
			c.pickMissingBehaviour(v.EventID())
			c.r.Logf("  fault auth_fail(%s): %s replaced by %s (%s)", how, c.desc(v.EventID()), shortID(ne.EventID()), describe(ne))
		case "missing_auth":
			// an event that others cite as auth event disappears from the answer
			cited := map[string]bool{}
			for _, e := range a.all() {
				if e.ev != nil {
					for _, x := range e.ev.AuthEventIDs() {
						cited[x] = true
					}
				}
			}
			v := pickVictim(func(e gmsl.PDU) bool { return cited[e.EventID()] })
			if v == nil {
				continue
			}
			a.removeAll(v.EventID())
			touched[v.EventID()] = true
			c.pickMissingBehaviour(v.EventID())
			c.r.Logf("  fault missing_auth: %s removed", c.desc(v.EventID()))
		case "wrong_room":
			if c.other == nil {
				continue
			}
			on := c.other.nodes[sim.Pick(t, c.other.order)]
			if on.ev.StateKey() == nil && !allowStructural {
				continue
			}
			e := entryOf(on.ev)
			e.note = kind
			if t.Bool() {
				a.state = insertAt(a.state, t.Intn(len(a.state)+1), e)
			} else {
				a.auth = insertAt(a.auth, t.Intn(len(a.auth)+1), e)
			}
			a.faults[on.id] = kind
			touched[on.id] = true
			// the caller's store may or may not know the other room
			for _, x := range on.ev.AuthEventIDs() {
				if _, done := c.prov.script[x]; !done {
					c.prov.script[x] = sim.Pick(t, []int{pvServe, pvNothing, pvNothing})
				}
			}
			c.r.Logf("  fault wrong_room: %s of room %s inserted", describe(on.ev), c.other.roomID)
		case "non_state":
			var msgs []gmsl.PDU
			for _, id := range rm.order {
				if rm.nodes[id].ev.StateKey() == nil {
					msgs = append(msgs, rm.nodes[id].ev)
				}
			}
			if len(msgs) == 0 {
				continue
			}
			m := sim.Pick(t, msgs)
			e := entryOf(m)
			e.note = kind
			if t.Chance(700) {
				a.state = insertAt(a.state, t.Intn(len(a.state)+1), e)
			} else {
				a.auth = insertAt(a.auth, t.Intn(len(a.auth)+1), e)
			}
			a.faults[m.EventID()] = kind
			touched[m.EventID()] = true
			c.r.Logf("  fault non_state: %s inserted", c.desc(m.EventID()))
		case "dup_key":
			if len(a.state) == 0 {
				continue
			}
			base := sim.Pick(t, a.state)
			if base.ev == nil || base.ev.StateKey() == nil {
				continue
			}
			// another event with the same (type, state_key): an older one from the history, else the same event again
			dup := base.ev
			for _, id := range rm.order {
				e := rm.nodes[id].ev
				if e.StateKey() != nil && e.Type() == base.ev.Type() && *e.StateKey() == *base.ev.StateKey() && e.EventID() != base.id() {
					dup = e
					break
				}
			}
			e := entryOf(dup)
			e.note = kind
			a.state = insertAt(a.state, t.Intn(len(a.state)+1), e)
			a.faults[dup.EventID()] = kind
			touched[dup.EventID()] = true
			c.r.Logf("  fault dup_key: %s inserted next to %s", c.desc(dup.EventID()), c.desc(base.id()))
		case "malformed":
			var raw []byte
			if v := pickVictim(nil); v != nil && t.Bool() {
				raw = append([]byte{}, v.JSON()[:len(v.JSON())/2]...)
			} else {
				raw = []byte(sim.Pick(t, malformedSamples))
			}
			e := &entry{raw: raw, note: kind}
			if t.Bool() && len(a.state) > 0 {
				a.state = insertAt(a.state, t.Intn(len(a.state)+1), e)
			} else {
				a.auth = insertAt(a.auth, t.Intn(len(a.auth)+1), e)
			}
			c.r.Logf("  fault malformed: entry of %d bytes inserted", len(raw))
		case "dup_listing":
			if len(a.auth) == 0 {
				continue
			}
			src := sim.Pick(t, a.auth)
			e := &entry{raw: append([]byte{}, src.raw...), ev: src.ev, note: src.note}
			a.auth = insertAt(a.auth, t.Intn(len(a.auth)+1), e)
			c.r.Logf("  buggify dup_listing: auth entry %s listed twice", shortID(e.id()))
		}
		c.r.Fault(kind)
		a.nfaults++
	}
	if t.Chance(250) {
		a.state = sim.Shuffle(t, a.state)
		a.auth = sim.Shuffle(t, a.auth)
		c.r.Fault("reorder")
	}
}

func (c *c14) evIn(a *answer, id string) gmsl.PDU {
	for _, e := range a.all() {
		if e.ev != nil && e.id() == id {
			return e.ev
		}
	}
	return nil
}

func (c *c14) desc(id string) string {
	if ev := c.lookup(id); ev != nil {
		if n := c.rm.nodes[id]; n != nil {
			return c.rm.short(id)
		}
		return shortID(id) + "(" + describe(ev) + ")"
	}
	return shortID(id)
}

// ---- reference model of the /state checks ---------------------------------------------------

type stateVerdict struct {
	err      string            // non-empty: the whole response must fail (reason)
	auth     []string          // expected surviving auth list (event IDs, in order)
	state    []string          // expected surviving state list
	dropped  map[string]string // event ID -> reason it must be dropped
	byID     map[string]gmsl.PDU
	contract bool // false if an off-contract provider answer was involved
}

// authSet gathers, as the property words it, those auth events of ev that
// arrived with verified signatures (byID) or that the caller's provider
// supplies; supplied events become available to later events too.
func (c *c14) authSet(ev gmsl.PDU, byID map[string]gmsl.PDU, tried map[string]bool, contract *bool) []gmsl.PDU {
	var out []gmsl.PDU
	for _, id := range ev.AuthEventIDs() {
		if x := byID[id]; x != nil {
			out = append(out, x)
			continue
		}
		if tried[id] {
			continue
		}
		x, ok := c.prov.one(id)
		if !ok {
			*contract = false
		}
		if x != nil {
			byID[id] = x
			out = append(out, x)
		} else {
			tried[id] = true
		}
	}
	return out
}

func (c *c14) modelState(a *answer, verifierFails bool) *stateVerdict {
	v := &stateVerdict{dropped: map[string]string{}, byID: map[string]gmsl.PDU{}, contract: true}
	var all []*entry
	for _, e := range a.auth {
		if e.ev == nil {
			continue
		}
		if e.ev.StateKey() == nil && v.err == "" {
			v.err = "non_state"
		}
		all = append(all, e)
	}
	tuples := map[skey]bool{}
	for _, e := range a.state {
		if e.ev == nil {
			continue
		}
		if e.ev.StateKey() == nil {
			if v.err == "" {
				v.err = "non_state"
			}
			continue
		}
		k := skey{e.ev.Type(), *e.ev.StateKey()}
		if tuples[k] && v.err == "" {
			v.err = "dup_key"
		}
		tuples[k] = true
		all = append(all, e)
	}
	if v.err != "" {
		return v
	}
	for _, e := range all {
		if kind, bad := a.sigBad[e.id()]; bad {
			v.dropped[e.id()] = kind
		} else if verifierFails {
			v.dropped[e.id()] = "verifier_error"
		} else {
			v.byID[e.id()] = e.ev
		}
	}
	tried := map[string]bool{}
	for _, e := range all {
		auth := c.authSet(e.ev, v.byID, tried, &v.contract)
		if err := allowedBy(e.ev, auth); err != nil {
			if _, already := v.dropped[e.id()]; !already {
				why := a.faults[e.id()]
				if why == "" {
					why = "collateral"
				}
				v.dropped[e.id()] = "disallowed:" + why
			}
		}
	}
	for _, e := range a.auth {
		if e.ev != nil && v.dropped[e.id()] == "" {
			v.auth = append(v.auth, e.id())
		}
	}
	for _, e := range a.state {
		if e.ev != nil && v.dropped[e.id()] == "" {
			v.state = append(v.state, e.id())
		}
	}
	return v
}

func rawList(l []*entry) gmsl.EventJSONs {
	out := make(gmsl.EventJSONs, len(l))
	for i, e := range l {
		out[i] = append([]byte{}, e.raw...)
	}
	return out
}

func sameRaw(a, b gmsl.EventJSONs) bool {
	if len(a) != len(b) {
		return false
	}
	for i := range a {
		if !bytes.Equal(a[i], b[i]) {
			return false
		}
	}
	return true
}

type stateResp struct{ auth, state gmsl.EventJSONs }

func (s *stateResp) GetAuthEvents() gmsl.EventJSONs  { return s.auth }
func (s *stateResp) GetStateEvents() gmsl.EventJSONs { return s.state }

func pduIDs(l []gmsl.PDU) []string {
	out := make([]string, len(l))
	for i, e := range l {
		out[i] = e.EventID()
	}
	return out
}

// compareLists checks a returned list against the model and classifies the
// first difference.
func (c *c14) compareLists(op, which string, got, want []string, v *stateVerdict, a *answer) {
	r := c.r
	wantSet := map[string]int{}
	for _, id := range want {
		wantSet[id]++
	}
	gotSet := map[string]int{}
	for _, id := range got {
		gotSet[id]++
	}
	known := map[string]bool{}
	for _, e := range a.all() {
		if e.ev != nil {
			known[e.id()] = true
		}
	}
	for _, id := range got {
		if !known[id] {
			r.Violate("C14", op+"_foreign_event", "not_in_input", "%s: returned %s list contains %s which is not an event of the response", op, which, shortID(id))
		}
		if gotSet[id] > wantSet[id] {
			why := v.dropped[id]
			switch {
			case strings.HasPrefix(why, "sig_") || why == "verifier_error":
				r.Violate("C14", op+"_keeps_unverified", why, "%s: returned %s list keeps %s whose signatures did not verify (%s)", op, which, c.desc(id), why)
			case strings.HasPrefix(why, "disallowed"):
				r.Violate("C14", op+"_keeps_disallowed", strings.TrimPrefix(why, "disallowed:"), "%s: returned %s list keeps %s which is not allowed by its verified-or-provided auth events (%s)", op, which, c.desc(id), why)
			default:
				r.Violate("C14", op+"_duplicates", "extra_copy", "%s: returned %s list has more copies of %s than the input", op, which, c.desc(id))
			}
		}
	}
	for _, id := range want {
		if gotSet[id] < wantSet[id] {
			r.Violate("C14", op+"_drops_good", a.neighbourFault(), "%s: %s list lacks %s although its signatures verify and it is allowed by its auth events (got %s want %s)", op, which, c.desc(id), shortIDs(got), shortIDs(want))
		}
	}
	if strings.Join(got, ",") != strings.Join(want, ",") {
		r.Violate("C14", op+"_order", "order", "%s: %s list order not preserved: got %s want %s", op, which, shortIDs(got), shortIDs(want))
	}
}

// neighbourFault names the fault kinds present in the answer (signature of a
// "dropped a good event" violation).
func (a *answer) neighbourFault() string {
	set := map[string]bool{}
	for _, k := range a.faults {
		set[k] = true
	}
	var ks []string
	for k := range set {
		ks = append(ks, k)
	}
	sort.Strings(ks)
	if len(ks) == 0 {
		return "no_fault"
	}
	return strings.Join(ks, "+")
}

func (c *c14) setVerifier() bool {
	c.ver.Fail = nil
	if c.t.Chance(40) {
		c.ver.Fail = errors.New("key ring: database unavailable")
		c.r.Fault("verifier_error")
		c.r.Logf("  verifier: key ring errors")
		return true
	}
	return false
}

// opState: R's answer to /state before a tape-chosen event, through
// CheckStateResponse.
func (c *c14) opState() {
	r, t, rm := c.r, c.t, c.rm
	at := rm.nodes[rm.order[t.Range(1, len(rm.order)-1)]]
	state := rm.pdus(at.before)
	a := c.newAnswer(state, rm.authChainOf(state))
	r.Logf("op state before %s: %d state, %d auth events", rm.short(at.id), len(a.state), len(a.auth))
	c.prov.reset()
	c.applyFaults(a, true)
	vfail := c.setVerifier()
	model := c.modelState(a, vfail)
	in := &stateResp{auth: rawList(a.auth), state: rawList(a.state)}
	keepA, keepS := rawList(a.auth), rawList(a.state)
	var gotA, gotS []gmsl.PDU
	var err error
	if guard(r, "CheckStateResponse", func() {
		gotA, gotS, err = gmsl.CheckStateResponse(context.Background(), in, rm.ver, c.ver, c.prov.fn, uidFor)
	}) {
		r.Logf("  CheckStateResponse aborted: provider asked without bound (off-contract provider)")
		return
	}
	r.Logf("  CheckStateResponse -> auth %d state %d err=%v ; model err=%q auth %d state %d", len(gotA), len(gotS), err != nil, model.err, len(model.auth), len(model.state))
	c.judgeState("state", a, model, gotA, gotS, err, in, keepA, keepS)
}

func (c *c14) judgeState(op string, a *answer, model *stateVerdict, gotA, gotS []gmsl.PDU, err error, in *stateResp, keepA, keepS gmsl.EventJSONs) {
	r := c.r
	if a.nfaults > 0 {
		r.Nontriv = true
	}
	r.State(fmt.Sprintf("%s faults=%s err=%q dropped=%d ok=%v", op, a.neighbourFault(), model.err, len(model.dropped), err == nil))
	if !sameRaw(in.auth, keepA) || !sameRaw(in.state, keepS) {
		r.Violate("C14", op+"_inputs_modified", "inputs", "%s: the response passed in was modified", op)
	}
	if c.prov.offContract || !model.contract {
		r.Probe("off_contract_provider_answer_used")
		return
	}
	if model.err != "" {
		r.Check(err != nil, "C14", op+"_accepts_malformed_response", model.err, "%s: response with %s accepted (auth %d, state %d events returned)", op, model.err, len(gotA), len(gotS))
		r.Probe("response_refused_" + model.err)
		return
	}
	if err != nil {
		r.Violate("C14", op+"_spurious_error", a.neighbourFault(), "%s: response without non-state events or duplicate state keys refused: %v", op, err)
	}
	// every returned event has verified signatures: judged on the bytes that
	// come back, whatever the event ID says
	c.checkReturnedSignatures(op, a, gotA, gotS)
	if len(a.splitSig) > 0 {
		// one intact and one damaged copy under one event ID: whether the ID
		// as a whole is dropped is not prescribed, so the lists are not compared
		r.Probe("answer_with_one_damaged_copy_of_an_event_listed_twice")
		return
	}
	if len(model.dropped) > 0 {
		r.Probe("events_dropped")
	}
	for _, why := range model.dropped {
		if why == "disallowed:collateral" {
			r.Probe("event_dropped_because_auth_event_unusable")
		}
	}
	c.compareLists(op, "auth", pduIDs(gotA), model.auth, model, a)
	c.compareLists(op, "state", pduIDs(gotS), model.state, model, a)
}

// opSendJoin: a join event of a J user and R's send_join answer through
// CheckSendJoinResponse.
func (c *c14) opSendJoin() {
	r, t, rm := c.r, c.t, c.rm
	tip := rm.tip
	// the join is built against the state at a tape-chosen main-line event
	// (usually the tip): a stale base gives "allowed by its auth events but not
	// by the returned state"
	base := tip
	if t.Chance(250) {
		cand := rm.nodes[rm.order[t.Range(1, len(rm.order)-1)]]
		if cand.main {
			base = cand
			r.Fault("stale_join_base")
		}
	}
	var joiner user
	for _, u := range sim.Shuffle(t, rm.users) {
		if u.srv != rm.R() {
			joiner = u
			break
		}
	}
	join, err := rm.build(joiner, []string{tip.id}, base.after, spec.MRoomMember, world.Str(joiner.id), rm.joinContent(base.after, joiner.id), timeNow())
	if err != nil {
		r.Probe("join_build_refused")
		return
	}
	state := rm.pdus(tip.after)
	a := c.newAnswer(state, rm.authChainOf(append(append([]gmsl.PDU{}, state...), join)))
	r.Logf("op send_join %s (base #%d, tip #%d, rule %s, was %q): %d state, %d auth", joiner.id, base.idx, tip.idx, rm.joinRule(tip.after), rm.membership(tip.after, joiner.id), len(a.state), len(a.auth))
	c.prov.reset()
	c.applyFaults(a, true)
	vfail := c.setVerifier()
	model := c.modelState(a, vfail)
	// join-specific part of the model
	wantOK, why := model.err == "", model.err
	if wantOK {
		byID := map[string]gmsl.PDU{}
		for _, e := range a.all() {
			if e.ev != nil && model.dropped[e.id()] == "" {
				byID[e.id()] = e.ev
			}
		}
		contract := true
		auth := c.authSet(join, byID, map[string]bool{}, &contract)
		if !contract {
			model.contract = false
		}
		var st []gmsl.PDU
		seen := map[string]bool{}
		for _, e := range a.state {
			if e.ev != nil && model.dropped[e.id()] == "" && !seen[e.id()] {
				seen[e.id()] = true
				st = append(st, e.ev)
			}
		}
		if e := allowedBy(join, auth); e != nil {
			wantOK, why = false, "join_not_allowed_by_auth_events"
		} else if e := allowedBy(join, st); e != nil {
			wantOK, why = false, "join_not_allowed_by_state"
		}
	}
	in := &stateResp{auth: rawList(a.auth), state: rawList(a.state)}
	keepA, keepS := rawList(a.auth), rawList(a.state)
	joinRaw := append([]byte{}, join.JSON()...)
	var res gmsl.StateResponse
	if guard(r, "CheckSendJoinResponse", func() {
		res, err = gmsl.CheckSendJoinResponse(context.Background(), rm.ver, in, c.ver, join, c.prov.fn, uidFor)
	}) {
		r.Logf("  CheckSendJoinResponse aborted: provider asked without bound (off-contract provider)")
		return
	}
	r.Logf("  CheckSendJoinResponse -> ok=%v ; model ok=%v (%s)", err == nil, wantOK, why)
	r.State(fmt.Sprintf("sendjoin faults=%s why=%q dropped=%d ok=%v", a.neighbourFault(), why, len(model.dropped), err == nil))
	if a.nfaults > 0 {
		r.Nontriv = true
	}
	if !sameRaw(in.auth, keepA) || !sameRaw(in.state, keepS) || !bytes.Equal(joinRaw, join.JSON()) {
		r.Violate("C14", "sendjoin_inputs_modified", "inputs", "send_join: the response or join event passed in was modified")
	}
	if c.prov.offContract || !model.contract {
		r.Probe("off_contract_provider_answer_used")
		return
	}
	if err == nil {
		c.checkReturnedSignatures("sendjoin", a, c.pdusOf(res.GetAuthEvents()), c.pdusOf(res.GetStateEvents()))
	}
	if len(a.splitSig) > 0 {
		r.Probe("answer_with_one_damaged_copy_of_an_event_listed_twice")
		return
	}
	if !wantOK {
		r.Probe("sendjoin_refused_" + why)
		r.Nontriv = true
		if err == nil {
			oracle := "sendjoin_accepts_" + why
			if model.err != "" {
				oracle = "sendjoin_accepts_malformed_response"
			}
			r.Violate("C14", oracle, why, "send_join response accepted although %s (join %s)", why, describe(join))
		}
		return
	}
	if err != nil {
		r.Violate("C14", "sendjoin_spurious_error", a.neighbourFault(), "send_join response refused although the join is allowed by its auth events and by the returned state: %v", err)
	}
	gotA := c.idsOf(res.GetAuthEvents())
	gotS := c.idsOf(res.GetStateEvents())
	c.compareLists("sendjoin", "auth", gotA, model.auth, model, a)
	c.compareLists("sendjoin", "state", gotS, model.state, model, a)
}

// checkReturnedSignatures: every event a response check hands back has
// verified signatures, judged on the bytes that come back.
func (c *c14) checkReturnedSignatures(op string, a *answer, lists ...[]gmsl.PDU) {
	if c.ver.Fail != nil {
		return
	}
	truth := &world.Verifier{L: c.ver.L}
	for _, l := range lists {
		for _, e := range l {
			if verr := gmsl.VerifyEventSignatures(context.Background(), e, truth, uidFor); verr != nil {
				c.r.Violate("C14", op+"_returns_unverified_event", a.faults[e.EventID()], "%s returned %s whose signatures do not verify: %v", op, c.desc(e.EventID()), verr)
			}
		}
	}
}

func (c *c14) pdusOf(js gmsl.EventJSONs) []gmsl.PDU {
	var out []gmsl.PDU
	for _, j := range js {
		if ev := c.rm.parse(j); ev != nil {
			out = append(out, ev)
		}
	}
	return out
}

func (c *c14) idsOf(js gmsl.EventJSONs) []string {
	out := make([]string, 0, len(js))
	for _, j := range js {
		ev := c.rm.parse(j)
		if ev == nil {
			out = append(out, "unparsable")
			continue
		}
		out = append(out, ev.EventID())
	}
	return out
}

func (c *c14) run() {
	r, t := c.r, c.t
	nops := t.Range(2, 4)
	for i := 0; i < nops && !r.Failed(); i++ {
		r.Op()
		switch t.Weighted([]int{3, 3, 2, 2, 2, 1}) {
		case 0:
			c.opState()
		case 1:
			c.opSendJoin()
		case 2:
			c.opChain()
		case 3:
			c.opAtState()
		case 4:
			c.opLoad()
		case 5:
			c.opBackfill()
		}
	}
}

var _ = fmt.Sprintf
