// toksim: login tokens under a moving (simulated) clock. Property C20.
package toksim

import (
	"bytes"
	"encoding/base64"
	"fmt"
	"strings"
	"testing"
	"time"

	"github.com/matrix-org/gomatrixserverlib/tokens"
	macaroon "gopkg.in/macaroon.v2"

	"verifharness/sim"
	"verifharness/world"
)

type issued struct {
	token   string
	secret  int
	key     []byte // the issuing secret's bytes at issue time (the caller may overwrite its buffer later)
	server  string
	user    string
	at      time.Time
	life    int // seconds
	altered bool
	how     string
}

var durations = []int{0, 1, 2, 10, 30, 59, 60, 61, 119, 120, 121, 600, 3600}

// durations at the edges of what an int of seconds can mean: already over at
// issue (negative), and longer than any arithmetic in nanoseconds can hold
// (2^63 ns is about 292 years = 9223372036 s). A negative number of seconds has
// elapsed the moment the token is issued; the long ones outlive every run.
var edgeDurations = []int{-1, -120, -86400, -10_000_000_000, -18_446_744_000, 10_000_000_000, 9_223_372_036, 9_223_372_037, 1 << 55, 1 << 31, 1<<32 + 5}

const forever = 1_000_000_000 // lifetimes from here on (31 years) outlive every run

func life(d int) int {
	if d == 0 {
		return 120
	}
	return d
}

func body(r *sim.Run) {
	t := r.T
	nsec := t.Range(2, 3)
	secrets := make([][]byte, nsec)
	for i := range secrets {
		secrets[i] = []byte(fmt.Sprintf("secret-%d-%x", i, t.Intn(1<<16)))
	}
	// Different servers' secrets are often related: a 64-byte ed25519 private
	// key, and near misses of another secret (one more byte, one byte fewer,
	// a byte changed near the start, in the middle, at the very end).
	if t.Chance(500) {
		base := world.CompactBytes(t, "token-secret", sim.Pick(t, []int{16, 32, 33, 48, 64}))
		secrets[0] = base
		for i := 1; i < nsec; i++ {
			v := append([]byte{}, base...)
			switch t.Intn(5) {
			case 0:
				v = append(v, byte('x'))
			case 1:
				v = v[:len(v)-1]
			case 2:
				v[0] ^= 1
			case 3:
				v[len(v)/2] ^= 0x80
			case 4:
				v[len(v)-1] ^= 1
			}
			// the secrets of one run must be pairwise different
			for j := 0; j < i; j++ {
				if string(secrets[j]) == string(v) {
					v = append(v, byte('0'+i))
					j = -1
				}
			}
			secrets[i] = v
		}
		r.Probe("related_secrets")
	}
	servers := []string{"a.example", "b.example", "a.example"}
	// user IDs are case-sensitive: include pairs that differ only in case
	users := []string{"@alice:a.example", "@bob:a.example", "@alice:b.example", "@Alice:a.example", "@alice:A.example", "@alice:a.example.org",
		// the API takes any string: IDs without a sigil, made of the characters of the caveat prefixes, or looking like a caveat
		"sid42", "desiree", "user_id = @alice:a.example", "time < 99999999999", "gen = 1", " @alice:a.example"}
	// validation may also name users no token was issued for: a proper prefix
	// of an issued user ID and the empty user ID
	// user IDs at the lengths where a length prefix grows (a Matrix user ID may
	// be up to 255 bytes): 127 / 128 / 129 / 200 / 255 bytes
	for _, n := range []int{127, 128, 129, 200, 255} {
		const tail = ":long.example"
		users = append(users, "@"+strings.Repeat("l", n-1-len(tail))+tail)
	}
	askUsers := append([]string{"@alice:a.exampl", "@alice:a.example.o", "", "42", "d42", "@alice:a.example ", "alice:a.example"}, users...)
	// Start at a tape-chosen second inside the minute / hour so that minute
	// and hour boundaries are crossed at varied offsets.
	time.Sleep(time.Duration(sim.Pick(t, []int{0, 1, 30, 58, 59, 3540, 3599, 86399})) * time.Second)
	time.Sleep(time.Duration(t.Intn(1000)) * time.Millisecond)

	var toks []*issued
	nops := t.Range(3, 8)
	for i := 0; i < nops && !r.Failed(); i++ {
		r.Op()
		op := t.Weighted([]int{3, 4, 5, 3, 1, 1})
		if len(toks) == 0 {
			op = 0
		}
		switch op {
		case 5: // the server replaces a key by overwriting the buffer that holds it
			si := t.Intn(nsec)
			nb := t.Bytes(len(secrets[si]))
			for j := range secrets {
				if bytes.Equal(secrets[j], nb) {
					nb[0] ^= 0x55
				}
			}
			copy(secrets[si], nb)
			r.Fault("key_replaced_in_place")
			r.Nontriv = true
			r.Logf("t=%v secret %d overwritten in place", r.Now(), si)
		case 0: // issue
			si := t.Intn(nsec)
			u := sim.Pick(t, users)
			d := sim.Pick(t, durations)
			if t.Chance(120) {
				d = sim.Pick(t, edgeDurations)
				r.Probe("issue_edge_duration")
			}
			tok, err := tokens.GenerateLoginToken(tokens.TokenOptions{ServerPrivateKey: secrets[si], ServerName: servers[si], UserID: u, Duration: d})
			if err != nil {
				r.Violate("C20", "issue", "error", "GenerateLoginToken failed: %v", err)
			}
			toks = append(toks, &issued{token: tok, secret: si, key: append([]byte{}, secrets[si]...), server: servers[si], user: u, at: time.Now(), life: life(d)})
			r.Logf("t=%v issue #%d secret=%d user=%s dur=%d", r.Now(), len(toks)-1, si, u, d)
		case 1: // advance the clock around a token's lifetime
			tk := sim.Pick(t, toks)
			target := tk.at.Add(time.Duration(tk.life) * time.Second)
			if tk.life <= 0 || tk.life >= forever {
				target = time.Now() // nothing to aim at: over at issue, or never over
			}
			off := sim.Pick(t, []int{-2000, -1000, -1, 0, 1, 400, 600, 999, 1000, 2000, 59000, 60000, 61000, 3600000, 86400000})
			d := time.Until(target.Add(time.Duration(off) * time.Millisecond))
			if d <= 0 {
				d = time.Duration(t.Range(1, 90)) * time.Second
			}
			time.Sleep(d)
			r.Fault("clock_jump")
			r.Logf("t=%v advance %v", r.Now(), d)
		case 2: // validate an unaltered token, maybe with other secret/user
			idx := t.Intn(len(toks))
			tk := toks[idx]
			if tk.altered {
				checkAltered(r, idx, tk, secrets)
				continue
			}
			si := tk.secret
			u := tk.user
			switch t.Intn(4) {
			case 1:
				si = t.Intn(nsec)
			case 2:
				u = sim.Pick(t, askUsers)
			}
			err := tokens.ValidateToken(tokens.TokenOptions{ServerPrivateKey: secrets[si], ServerName: servers[si], UserID: u}, tk.token)
			age := time.Since(tk.at)
			lifeD := time.Duration(tk.life) * time.Second
			r.Logf("t=%v validate #%d secret=%d user=%s age=%v life=%ds -> %v", r.Now(), idx, si, u, age, tk.life, err)
			switch {
			case !bytes.Equal(secrets[si], tk.key):
				r.Check(err != nil, "C20", "wrong_secret", "accepted", "token #%d issued under secret %d validated under secret %d", idx, tk.secret, si)
				r.Nontriv = true
			case u != tk.user:
				r.Check(err != nil, "C20", "wrong_user", "accepted", "token #%d issued for %s validated for %s", idx, tk.user, u)
				r.Nontriv = true
			case tk.life <= 0 || (tk.life < forever && age >= lifeD):
				// no slack on this side: the expiry is a whole second no later
				// than issue + lifetime, so once the lifetime has elapsed the
				// token is dead whatever fraction of a second it was issued at
				r.Nontriv = true
				r.Probe("validate_after_expiry")
				r.Check(err != nil, "C20", "expiry", "accepted_after_lifetime", "token #%d (lifetime %d s) still validates at age %v", idx, tk.life, age)
			case tk.life >= forever || age <= lifeD-time.Second:
				r.Probe("validate_within_lifetime")
				if age > 60*time.Second {
					r.Nontriv = true
				}
				r.Check(err == nil, "C20", "liveness", "refused_within_lifetime", "token #%d (lifetime %d s) refused at age %v: %v", idx, tk.life, age, err)
			default:
				r.Probe("validate_at_boundary_second")
			}
			got, gerr := tokens.GetUserFromToken(tk.token)
			r.Check(gerr == nil && got == tk.user, "C20", "get_user", "mismatch", "GetUserFromToken(#%d) = %q,%v want %q", idx, got, gerr, tk.user)
		case 3: // alter a token
			idx := t.Intn(len(toks))
			src := toks[idx]
			if src.altered {
				continue
			}
			nt := alter(r, src, secrets)
			if nt != nil {
				toks = append(toks, nt)
				r.Fault("token_" + strings.SplitN(nt.how, ":", 2)[0])
				r.Logf("t=%v alter #%d -> #%d %s", r.Now(), idx, len(toks)-1, nt.how)
				checkAltered(r, len(toks)-1, nt, secrets)
			}
		case 4: // tiny clock step
			time.Sleep(time.Duration(t.Range(1, 1500)) * time.Millisecond)
		}
	}
}

func checkAltered(r *sim.Run, idx int, tk *issued, secrets [][]byte) {
	r.Nontriv = true
	// An altered token must be refused under the issuing secret for the
	// issuing user at any instant (and a fortiori for anything else).
	err := tokens.ValidateToken(tokens.TokenOptions{ServerPrivateKey: tk.key, ServerName: tk.server, UserID: tk.user}, tk.token)
	r.Logf("t=%v validate altered #%d (%s) age=%v -> %v", r.Now(), idx, tk.how, time.Since(tk.at), err)
	r.Check(err != nil, "C20", "altered", strings.SplitN(tk.how, ":", 2)[0], "altered token (%s) accepted", tk.how)
	if strings.HasPrefix(tk.how, "caveat_user") {
		victim := strings.SplitN(tk.how, ":", 2)[1]
		err := tokens.ValidateToken(tokens.TokenOptions{ServerPrivateKey: tk.key, ServerName: tk.server, UserID: victim}, tk.token)
		r.Check(err != nil, "C20", "altered", "caveat_user_victim", "token for %s with appended user_id caveat validates for %s", tk.user, victim)
	}
	if strings.HasPrefix(tk.how, "caveat_") {
		// whatever its holder appended to it, a token the server issued names
		// the user it was issued for, never one the holder wrote in
		if u, gerr := tokens.GetUserFromToken(tk.token); gerr == nil {
			r.Check(u == tk.user, "C20", "altered", "reveals_appended_user", "GetUserFromToken on the token issued for %q, with a caveat appended by its holder (%s), reveals %q", tk.user, tk.how, u)
		}
	}
}

func decode(tok string) (*macaroon.Macaroon, error) {
	bin, err := base64.RawURLEncoding.DecodeString(tok)
	if err != nil {
		return nil, err
	}
	var m macaroon.Macaroon
	if err := m.UnmarshalBinary(bin); err != nil {
		return nil, err
	}
	return &m, nil
}

func encode(m *macaroon.Macaroon) string {
	bin, _ := m.MarshalBinary()
	return base64.RawURLEncoding.EncodeToString(bin)
}

func alter(r *sim.Run, src *issued, secrets [][]byte) *issued {
	t := r.T
	nt := &issued{secret: src.secret, key: src.key, server: src.server, user: src.user, at: src.at, life: src.life, altered: true}
	kind := t.Intn(12)
	switch kind {
	case 11: // many unknown caveats appended at once (any holder can; counters and bit sets have widths)
		m, err := decode(src.token)
		if err != nil {
			return nil
		}
		n := sim.Pick(t, []int{2, 7, 8, 16, 31, 32, 33, 64, 96, 128, 255, 256, 257})
		same := t.Bool()
		for i := 0; i < n; i++ {
			cav := "note = x"
			if !same {
				cav = fmt.Sprintf("note = %d", i)
			}
			if err := m.AddFirstPartyCaveat([]byte(cav)); err != nil {
				return nil
			}
		}
		nt.token = encode(m)
		nt.how = fmt.Sprintf("caveat_unknown_many:%d", n)
	case 10: // minted under the right secret with a near miss in place of one required caveat
		o, err := decode(src.token)
		if err != nil {
			return nil
		}
		which := t.Intn(3)
		m, err := macaroon.New(src.key, o.Id(), o.Location(), macaroon.V2)
		if err != nil {
			return nil
		}
		var variant string
		n := 0
		for _, c := range o.Caveats() {
			id := string(c.Id)
			hit := false
			switch which {
			case 0:
				hit = id == tokens.Gen
			case 1:
				hit = strings.HasPrefix(id, tokens.UserPrefix)
			case 2:
				hit = strings.HasPrefix(id, tokens.TimePrefix)
			}
			if hit && n == 0 {
				n++
				switch which {
				case 0:
					variant = sim.Pick(t, []string{id + "0", id + " ", id + "; admin = true", " " + id, strings.ToUpper(id[:1]) + id[1:], strings.Replace(id, " = ", "=", 1), strings.Replace(id, "1", "2", 1), id + "\n"})
				case 1:
					// a user the token does not name: the issued one with something after it, or under a near-miss key
					variant = sim.Pick(t, []string{id + " ", id + "x", strings.Replace(id, " = ", "  = ", 1), strings.Replace(id, "user_id", "user_id2", 1), strings.Replace(id, "user_id", "User_id", 1)})
				case 2:
					// no instant at all: nothing a number-reading validator should take for an expiry
					variant = sim.Pick(t, []string{tokens.TimePrefix, tokens.TimePrefix + "soon", id + "s", strings.Replace(id, " < ", " <= ", 1), strings.Replace(id, "time", "Time", 1)})
				}
				id = variant
			}
			m.AddFirstPartyCaveat([]byte(id))
		}
		if n == 0 {
			return nil
		}
		// like missing_caveat this models a buggy or compromised issuer: the
		// token lacks a required caveat and carries an unknown one instead
		nt.token = encode(m)
		nt.how = fmt.Sprintf("near_miss_caveat:%q", variant)
	case 0: // flip one bit of the decoded bytes
		bin, _ := base64.RawURLEncoding.DecodeString(src.token)
		i := t.Intn(len(bin))
		bin[i] ^= 1 << uint(t.Intn(8))
		nt.token = base64.RawURLEncoding.EncodeToString(bin)
		nt.how = fmt.Sprintf("bitflip:%d", i)
		// A flip inside the location hint is not covered by the macaroon
		// signature and does not alter what the token asserts: skip those.
		if m, err := decode(nt.token); err == nil {
			if o, _ := decode(src.token); o != nil && string(m.Id()) == string(o.Id()) && string(m.Signature()) == string(o.Signature()) && sameCaveats(m, o) {
				return nil
			}
		}
	case 1: // truncate
		n := t.Range(1, 8)
		if n >= len(src.token) {
			return nil
		}
		nt.token = src.token[:len(src.token)-n]
		nt.how = fmt.Sprintf("truncate:%d", n)
	case 2: // extend
		nt.token = src.token + sim.Pick(t, []string{"A", "AAAA", "_-", "Zm9v"})
		nt.how = "extend:"
		if m, err := decode(nt.token); err == nil {
			if o, _ := decode(src.token); o != nil && string(m.Id()) == string(o.Id()) && string(m.Signature()) == string(o.Signature()) && sameCaveats(m, o) {
				return nil
			}
		}
	case 3, 4, 5, 6: // append a first-party caveat (anyone holding a macaroon can)
		m, err := decode(src.token)
		if err != nil {
			return nil
		}
		var cav string
		switch kind {
		case 3:
			cav = sim.Pick(t, []string{"foo = bar", "gen = 2", "time > 0", "user_id=x", ""})
			nt.how = "caveat_unknown:" + cav
		case 4:
			cav = tokens.TimePrefix + sim.Pick(t, []string{"99999999999", "2000000000", "61", "3000"})
			nt.how = "caveat_time:" + cav
		case 5:
			victim := "@victim:a.example"
			cav = tokens.UserPrefix + victim
			nt.how = "caveat_user:" + victim
		case 6:
			cav = tokens.Gen
			nt.how = "caveat_gen:"
		}
		if err := m.AddFirstPartyCaveat([]byte(cav)); err != nil {
			return nil
		}
		nt.token = encode(m)
		if len(cav) > 0 && len(cav) < 128 && t.Chance(250) {
			// the same caveat, encoded with an explicit verification-id field
			// of length zero (v2 packet 0x04 0x00) behind its identifier: the
			// macaroon library reads that as a first-party caveat like any
			// other, so the signature still fits; the token still carries an
			// additional caveat
			bin, _ := m.MarshalBinary()
			pat := append(append([]byte{2, byte(len(cav))}, cav...), 0)
			if i := bytes.LastIndex(bin, pat); i >= 0 {
				at := i + len(pat) - 1
				crafted := append(append(append([]byte{}, bin[:at]...), 4, 0), bin[at:]...)
				tok := base64.RawURLEncoding.EncodeToString(crafted)
				if c2, derr := decode(tok); derr == nil && len(c2.Caveats()) == len(m.Caveats()) {
					nt.token = tok
					nt.how += " (empty verification id)"
					r.Probe("appended_caveat_with_empty_verification_id")
				}
			}
		}
	case 7: // re-mint the same caveats under another secret
		o, err := decode(src.token)
		if err != nil {
			return nil
		}
		other := (src.secret + 1) % len(secrets)
		if bytes.Equal(secrets[other], src.key) {
			return nil
		}
		m, err := macaroon.New(secrets[other], o.Id(), o.Location(), macaroon.V2)
		if err != nil {
			return nil
		}
		for _, c := range o.Caveats() {
			m.AddFirstPartyCaveat(c.Id)
		}
		nt.token = encode(m)
		nt.how = fmt.Sprintf("remint_other_secret:%d", other)
	case 8: // mint under the right secret but lacking a required caveat
		o, err := decode(src.token)
		if err != nil {
			return nil
		}
		drop := t.Intn(len(o.Caveats()))
		m, err := macaroon.New(src.key, o.Id(), o.Location(), macaroon.V2)
		if err != nil {
			return nil
		}
		for i, c := range o.Caveats() {
			if i != drop {
				m.AddFirstPartyCaveat(c.Id)
			}
		}
		// Minting needs the secret: this models a *buggy issuer*, and the
		// validator must still insist on all three caveats.
		nt.token = encode(m)
		nt.how = fmt.Sprintf("missing_caveat:%d", drop)
	case 9: // change the identifier (user) keeping caveats and signature
		o, err := decode(src.token)
		if err != nil {
			return nil
		}
		bin, _ := o.MarshalBinary()
		s := strings.Replace(string(bin), src.user, strings.Replace(src.user, "@", "#", 1), 1)
		if s == string(bin) {
			return nil
		}
		nt.token = base64.RawURLEncoding.EncodeToString([]byte(s))
		nt.how = "identifier:"
	}
	if nt.token == src.token || nt.token == "" {
		return nil
	}
	return nt
}

func sameCaveats(a, b *macaroon.Macaroon) bool {
	ca, cb := a.Caveats(), b.Caveats()
	if len(ca) != len(cb) {
		return false
	}
	for i := range ca {
		if string(ca[i].Id) != string(cb[i].Id) {
			return false
		}
	}
	return true
}

func TestEngine(t *testing.T) {
	sim.Main(t, &sim.Engine{
		Name: "toksim",
		Body: body,
		Rule: func(string) string {
			return "one run = 2-3 issuing secrets, 3-8 tape-chosen operations (issue with a duration from a boundary list, one time in eight from the edges of an int of seconds: negative = over at issue, 2^31 / 2^32+5 / around 2^63 ns / 2^55 s = never over within a run, advance the simulated clock to lifetime-2s..+1d, validate with same/other secret/user, alter token at byte or caveat level, incl. tokens minted under the right secret that lack a required caveat or carry a near miss of one - 'gen = 10', 'gen = 1 ', a user_id with a trailing character, a time caveat without a number - in its place) starting at a tape-chosen second of the minute/hour; non-trivial = the run validated a token after its lifetime, >60 s into its lifetime, under a wrong secret/user, or validated an altered token; distinct = distinct event-log hash"
		},
		Real:        []string{"tokens.GenerateLoginToken", "tokens.ValidateToken", "tokens.GetUserFromToken", "gopkg.in/macaroon.v2"},
		Stub:        []string{"wall clock (testing/synctest fake clock)"},
		Assumptions: []string{"testing/synctest fake clock semantics (Go 1.26.8)", "second-granularity boundary: acceptance once the lifetime has elapsed is a violation; a refusal counts only >=1 s before the lifetime is over (the expiry caveat may be up to a second early)"},
	})
}
