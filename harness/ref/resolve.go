package ref

// Reference model of Matrix server-name resolution, written from the
// server-server specification ("Resolving server names", "Server name"
// grammar in the appendices) and RFC 7234 §5.3 (max-age beats Expires). It
// shares no code with the repository under test: addresses are parsed with
// net/netip, names with a hand-written recogniser of the grammar.
//
//	server_name = hostname [ ":" port ]
//	port        = 1*5DIGIT
//	hostname    = IPv4address / "[" IPv6address "]" / dns-name
//	IPv4address = 1*3DIGIT "." 1*3DIGIT "." 1*3DIGIT "." 1*3DIGIT
//	IPv6address = 2*45IPv6char
//	IPv6char    = DIGIT / %x41-46 / %x61-66 / ":" / "."
//	dns-name    = 1*255dns-char
//	dns-char    = DIGIT / ALPHA / "-" / "."
//
// Resolution steps (spec v1.8+):
//  1. IP literal: that address, given port or 8448; Host = server name;
//     certificate for the IP.
//  2. explicit port: hostname:port; Host = hostname:port; certificate for the
//     hostname.
//  3. GET https://<hostname>/.well-known/matrix/server; a valid reply
//     delegates to <dhost>[:<dport>]:
//     3.1 dhost IP literal: it, dport or 8448; Host = delegated value;
//     certificate for the IP.
//     3.2 dport present: dhost:dport; Host = dhost:dport; cert for dhost.
//     3.3 SRV _matrix-fed._tcp.<dhost>; Host = dhost; cert for dhost.
//     3.4 SRV _matrix._tcp.<dhost> (deprecated); same Host / cert.
//     3.5 dhost:8448; Host = dhost; cert for dhost.
//     (no well-known lookup is made for the delegated name)
//  4. SRV _matrix-fed._tcp.<hostname>; Host = hostname; cert for hostname.
//  5. SRV _matrix._tcp.<hostname> (deprecated); same.
//  6. hostname:8448; Host = hostname; cert for hostname.

import (
	"encoding/json"
	"net/netip"
	"sort"
	"strconv"
	"strings"
	"time"
)

// WellKnownMaxBytes is the largest well-known body that may be honoured.
const WellKnownMaxBytes = 50 * 1024

// Target is one connection target of a resolution.
type Target struct {
	Destination string // host:port to connect to
	Host        string // value of the Host header
	TLSName     string // name the certificate must be valid for / SNI
}

func (t Target) String() string {
	return t.Destination + " host=" + t.Host + " tls=" + t.TLSName
}

// NameKind classifies the hostname part of a server name.
type NameKind int

const (
	NameInvalid NameKind = iota
	NameIPv4
	NameIPv6
	NameDNS
)

// ParsedName is a server name split according to the grammar.
type ParsedName struct {
	Kind NameKind
	Host string // hostname as written (IPv6 keeps its brackets)
	IP   string // the literal without brackets (IP kinds only)
	Port int    // -1 when absent
	// PortOutOfRange: the port matches 1*5DIGIT but exceeds 65535; the grammar
	// admits it, TCP does not. Callers treat such a name as a silent corner.
	PortOutOfRange bool
	// Dubious: the bracketed text matches 2*45IPv6char lexically but is not an
	// IPv6 address (e.g. "[10.0.0.1]", "[:::::]"). The grammar is lexical, so
	// neither refusing nor accepting such a name contradicts it.
	Dubious bool
}

func snIsDigit(c byte) bool { return c >= '0' && c <= '9' }

func snIsDNSChar(c byte) bool {
	return snIsDigit(c) || (c >= 'a' && c <= 'z') || (c >= 'A' && c <= 'Z') || c == '-' || c == '.'
}

func snIsIPv6Char(c byte) bool {
	return snIsDigit(c) || (c >= 'a' && c <= 'f') || (c >= 'A' && c <= 'F') || c == ':' || c == '.'
}

func snParsePort(s string) (int, bool) {
	if len(s) < 1 || len(s) > 5 {
		return 0, false
	}
	n := 0
	for i := 0; i < len(s); i++ {
		if !snIsDigit(s[i]) {
			return 0, false
		}
		n = n*10 + int(s[i]-'0')
	}
	return n, true
}

func snLooksIPv4(h string) bool {
	parts := strings.Split(h, ".")
	if len(parts) != 4 {
		return false
	}
	for _, p := range parts {
		if len(p) < 1 || len(p) > 3 {
			return false
		}
		for i := 0; i < len(p); i++ {
			if !snIsDigit(p[i]) {
				return false
			}
		}
	}
	return true
}

// ParseServerName recognises the server-name grammar. Kind==NameInvalid means
// the string is not a server name and must be refused.
func ParseServerName(s string) ParsedName {
	bad := ParsedName{Kind: NameInvalid, Port: -1}
	if s == "" {
		return bad
	}
	var host, rest string
	if s[0] == '[' {
		end := strings.IndexByte(s, ']')
		if end < 0 {
			return bad
		}
		inner := s[1:end]
		if len(inner) < 2 || len(inner) > 45 {
			return bad
		}
		for i := 0; i < len(inner); i++ {
			if !snIsIPv6Char(inner[i]) {
				return bad
			}
		}
		host, rest = s[:end+1], s[end+1:]
		p := ParsedName{Kind: NameIPv6, Host: host, IP: inner, Port: -1}
		if a, err := netip.ParseAddr(inner); err != nil || !a.Is6() {
			p.Dubious = true
		}
		if rest == "" {
			return p
		}
		if rest[0] != ':' {
			return bad
		}
		n, ok := snParsePort(rest[1:])
		if !ok {
			return bad
		}
		p.Port = n
		p.PortOutOfRange = n > 65535
		return p
	}
	if i := strings.IndexByte(s, ':'); i >= 0 {
		host, rest = s[:i], s[i:]
	} else {
		host = s
	}
	if len(host) < 1 || len(host) > 255 {
		return bad
	}
	for i := 0; i < len(host); i++ {
		if !snIsDNSChar(host[i]) {
			return bad
		}
	}
	p := ParsedName{Kind: NameDNS, Host: host, Port: -1}
	if snLooksIPv4(host) {
		if a, err := netip.ParseAddr(host); err == nil && a.Is4() {
			p.Kind, p.IP = NameIPv4, host
		}
		// four groups of digits that are not an address (e.g. 256.1.1.1,
		// leading zeros) stay a dns-name here: the grammar is ambiguous and
		// generators avoid such names.
	}
	if rest != "" {
		n, ok := snParsePort(rest[1:])
		if !ok {
			return bad
		}
		p.Port = n
		p.PortOutOfRange = n > 65535
	}
	return p
}

// ---- well-known -------------------------------------------------------------

// WellKnownReply is what the HTTP exchange for
// https://<name>/.well-known/matrix/server delivered.
type WellKnownReply struct {
	NoResponse   bool   // no HTTP response (connection failed / timed out)
	Status       int    // HTTP status
	Body         []byte // the complete body as transferred
	BodyBroken   bool   // the transfer failed before the body was complete
	CacheControl string // header value ("" = absent)
	Expires      string // header value ("" = absent)
}

// WellKnownVerdict is the reference decision about one reply.
type WellKnownVerdict struct {
	Honoured bool
	Server   string // m.server
	Why      string // reason for refusal
	// Expiry of the cached result, Unix seconds: now+max-age if a valid
	// max-age is present, else the Expires instant, else 0. HasMaxAge tells the
	// caller that Expiry is relative to "now" (MaxAge seconds).
	HasMaxAge bool
	MaxAge    int64
	Expires   int64 // Unix seconds of the Expires header, 0 if absent/invalid
}

// maxAge extracts a valid max-age (non-negative delta-seconds) from a
// Cache-Control value. Directive names are case-insensitive (RFC 7234 §5.2).
func snMaxAge(cc string) (int64, bool) {
	for _, d := range strings.Split(cc, ",") {
		d = strings.TrimSpace(d)
		k, v, ok := strings.Cut(d, "=")
		if !ok || strings.ToLower(strings.TrimSpace(k)) != "max-age" {
			continue
		}
		v = strings.TrimSpace(v)
		if v == "" || len(v) > 18 {
			continue
		}
		allDigits := true
		for i := 0; i < len(v); i++ {
			if !snIsDigit(v[i]) {
				allDigits = false
			}
		}
		if !allDigits {
			continue
		}
		n, err := strconv.ParseInt(v, 10, 64)
		if err != nil {
			continue
		}
		return n, true
	}
	return 0, false
}

// httpDate parses an IMF-fixdate (RFC 7231 §7.1.1.1).
func snHTTPDate(s string) (time.Time, bool) {
	t, err := time.Parse("Mon, 02 Jan 2006 15:04:05 GMT", s)
	if err != nil {
		return time.Time{}, false
	}
	return t, true
}

// JudgeWellKnown applies the admission rule: honoured iff status 200, the
// total body is at most 50 KiB, and the body is a JSON object whose m.server
// is a non-empty string.
func JudgeWellKnown(rep WellKnownReply) WellKnownVerdict {
	v := WellKnownVerdict{}
	if ma, ok := snMaxAge(rep.CacheControl); ok {
		v.HasMaxAge, v.MaxAge = true, ma
	}
	if t, ok := snHTTPDate(rep.Expires); ok {
		v.Expires = t.Unix()
	}
	switch {
	case rep.NoResponse:
		v.Why = "no response"
	case rep.Status != 200:
		v.Why = "status " + strconv.Itoa(rep.Status)
	case rep.BodyBroken:
		v.Why = "body transfer failed"
	case len(rep.Body) > WellKnownMaxBytes:
		v.Why = "body of " + strconv.Itoa(len(rep.Body)) + " bytes exceeds 50 KiB"
	default:
		var obj map[string]json.RawMessage
		if err := json.Unmarshal(rep.Body, &obj); err != nil {
			v.Why = "body is not a JSON object"
			break
		}
		raw, ok := obj["m.server"]
		if !ok {
			v.Why = "no m.server"
			break
		}
		var s string
		if err := json.Unmarshal(raw, &s); err != nil || string(raw) == "null" {
			v.Why = "m.server is not a string"
			break
		}
		if s == "" {
			v.Why = "m.server is empty"
			break
		}
		v.Honoured, v.Server = true, s
	}
	return v
}

// ExpiryAt returns the expected cache expiry (Unix seconds) for a request
// processed at instant now.
func (v WellKnownVerdict) ExpiryAt(now time.Time) int64 {
	if v.HasMaxAge {
		return now.Unix() + v.MaxAge
	}
	return v.Expires
}

// ---- SRV --------------------------------------------------------------------

type SRVKind int

const (
	SRVNotFound SRVKind = iota // NXDOMAIN or no SRV data
	SRVFound
	SRVError // SERVFAIL, timeout, ...: the spec does not say what follows
)

type SRVRecord struct {
	Target   string // may carry a trailing dot
	Port     uint16
	Priority uint16
	Weight   uint16
}

type SRVAnswer struct {
	Kind    SRVKind
	Records []SRVRecord
}

// NameWorld is the part of the world resolution depends on.
type NameWorld interface {
	WellKnown(hostname string) WellKnownReply
	SRV(service, hostname string) SRVAnswer // service: "matrix-fed" | "matrix"
}

// Resolution is the reference outcome for one server name.
type Resolution struct {
	Refused bool
	// Accept lists every acceptable ordered target list; Accept[0] is the one
	// the specification's main line gives, further entries exist only where
	// the specification is silent (Corner says why).
	Accept [][]Target
	// PriorityGroups gives, for Accept[i], the sizes of runs of targets whose
	// relative order is free (SRV records of equal priority).
	PriorityGroups [][]int
	// MayRefuse: an error instead of targets is acceptable as well (corner).
	MayRefuse bool
	// Unspecified: the specification does not determine the outcome at all.
	Unspecified bool
	Corner      string
	// WellKnownFor is the hostname whose well-known document is consulted
	// ("" if none). No other well-known fetch may happen.
	WellKnownFor string
	Verdict      *WellKnownVerdict
	Step         string // which step produced Accept[0]
}

func snStripDot(s string) string { return strings.TrimSuffix(s, ".") }

func snHostPort(h string, p int) string { return h + ":" + strconv.Itoa(p) }

// snSRVTargets orders records by priority (RFC 2782) and returns the free-order
// group sizes.
func snSRVTargets(recs []SRVRecord, host, tls string) ([]Target, []int) {
	rs := append([]SRVRecord(nil), recs...)
	sort.SliceStable(rs, func(i, j int) bool { return rs[i].Priority < rs[j].Priority })
	var ts []Target
	var groups []int
	for i, r := range rs {
		ts = append(ts, Target{Destination: snHostPort(snStripDot(r.Target), int(r.Port)), Host: host, TLSName: tls})
		if i > 0 && rs[i-1].Priority == r.Priority {
			groups[len(groups)-1]++
		} else {
			groups = append(groups, 1)
		}
	}
	return ts, groups
}

// snSRVStage implements steps 3.3-3.5 / 4-6 for hostname h.
func snSRVStage(w NameWorld, h string, res *Resolution, prefix string) {
	fallback := []Target{{Destination: snHostPort(h, 8448), Host: h, TLSName: h}}
	add := func(ts []Target, g []int) {
		res.Accept = append(res.Accept, ts)
		res.PriorityGroups = append(res.PriorityGroups, g)
	}
	fed := w.SRV("matrix-fed", h)
	switch {
	case fed.Kind == SRVFound && len(fed.Records) > 0:
		ts, g := snSRVTargets(fed.Records, h, h)
		add(ts, g)
		res.Step = prefix + "srv-matrix-fed"
		return
	case fed.Kind == SRVError:
		// Silent corner: the lookup neither found nor denied the record.
		// Falling back to 8448 and carrying on with _matrix are both accepted.
		res.Corner = "matrix-fed SRV lookup error"
		add(fallback, []int{1})
		res.Step = prefix + "port-8448(after srv error)"
		old := w.SRV("matrix", h)
		if old.Kind == SRVFound && len(old.Records) > 0 {
			ts, g := snSRVTargets(old.Records, h, h)
			add(ts, g)
		}
		return
	}
	old := w.SRV("matrix", h)
	switch {
	case old.Kind == SRVFound && len(old.Records) > 0:
		ts, g := snSRVTargets(old.Records, h, h)
		add(ts, g)
		res.Step = prefix + "srv-matrix"
	case old.Kind == SRVError:
		res.Corner = "matrix SRV lookup error"
		add(fallback, []int{1})
		res.Step = prefix + "port-8448(after srv error)"
	default:
		add(fallback, []int{1})
		res.Step = prefix + "port-8448"
	}
}

// snLiteralOrPort handles steps 1/2 (and 3.1/3.2 for a delegated name).
func snLiteralOrPort(name string, p ParsedName) (Target, bool) {
	switch {
	case p.Kind == NameIPv4 || p.Kind == NameIPv6:
		d := name
		if p.Port < 0 {
			d = snHostPort(p.Host, 8448)
		}
		return Target{Destination: d, Host: name, TLSName: p.IP}, true
	case p.Port >= 0:
		return Target{Destination: name, Host: name, TLSName: p.Host}, true
	}
	return Target{}, false
}

// ResolveServerName computes the reference resolution of a server name in world w.
func ResolveServerName(w NameWorld, name string) Resolution {
	var res Resolution
	p := ParseServerName(name)
	if p.Kind == NameInvalid {
		res.Refused = true
		res.Step = "invalid"
		return res
	}
	if p.Dubious {
		res.Corner = "bracketed text is lexically an IPv6address but not an address"
		res.MayRefuse, res.Unspecified = true, true
		res.Step = "dubious-literal"
		return res
	}
	if p.PortOutOfRange {
		res.Corner = "port exceeds 65535"
		res.MayRefuse = true
	}
	if t, ok := snLiteralOrPort(name, p); ok {
		res.Accept = [][]Target{{t}}
		res.PriorityGroups = [][]int{{1}}
		if p.Kind == NameDNS {
			res.Step = "explicit-port"
		} else {
			res.Step = "ip-literal"
		}
		return res
	}
	res.WellKnownFor = p.Host
	v := JudgeWellKnown(w.WellKnown(p.Host))
	res.Verdict = &v
	if v.Honoured {
		dp := ParseServerName(v.Server)
		if dp.Kind == NameInvalid || dp.PortOutOfRange || dp.Dubious {
			// m.server is not a server name: the spec calls such a response
			// invalid (continue at step 4) but does not spell it out; refusing
			// the resolution is accepted as well.
			res.Corner = "m.server is not a valid server name"
			res.MayRefuse = true
			if dp.Kind != NameInvalid {
				// lexically a server name (dubious literal, port > 65535):
				// following it is not excluded either
				res.Unspecified = true
			}
			snSRVStage(w, p.Host, &res, "")
			return res
		}
		if t, ok := snLiteralOrPort(v.Server, dp); ok {
			res.Accept = [][]Target{{t}}
			res.PriorityGroups = [][]int{{1}}
			if dp.Kind == NameDNS {
				res.Step = "wk-explicit-port"
			} else {
				res.Step = "wk-ip-literal"
			}
			return res
		}
		snSRVStage(w, dp.Host, &res, "wk-")
		return res
	}
	snSRVStage(w, p.Host, &res, "")
	return res
}

// MatchTargets reports whether got equals want up to the free order inside
// each priority group.
func MatchTargets(got, want []Target, groups []int) bool {
	if len(got) != len(want) {
		return false
	}
	i := 0
	for _, g := range groups {
		a := append([]Target(nil), got[i:i+g]...)
		b := append([]Target(nil), want[i:i+g]...)
		less := func(x []Target) func(int, int) bool {
			return func(p, q int) bool { return x[p].String() < x[q].String() }
		}
		sort.Slice(a, less(a))
		sort.Slice(b, less(b))
		for k := range a {
			if a[k] != b[k] {
				return false
			}
		}
		i += g
	}
	return i == len(got)
}

// Matches reports whether an observed outcome is acceptable.
func (r Resolution) Matches(got []Target, refused bool) bool {
	if r.Unspecified {
		return true
	}
	if refused {
		return r.Refused || r.MayRefuse
	}
	if r.Refused {
		return false
	}
	for i, want := range r.Accept {
		if MatchTargets(got, want, r.PriorityGroups[i]) {
			return true
		}
	}
	return false
}

// ---- allow / deny policy ------------------------------------------------------

// snNormPrefix parses a CIDR; an IPv4-mapped IPv6 prefix of at least 96 bits is
// read as the IPv4 prefix it denotes.
func snNormPrefix(s string) (netip.Prefix, bool) {
	p, err := netip.ParsePrefix(s)
	if err != nil {
		return netip.Prefix{}, false
	}
	if p.Addr().Is4In6() && p.Bits() >= 96 {
		p = netip.PrefixFrom(p.Addr().Unmap(), p.Bits()-96)
	}
	return p.Masked(), true
}

// InAnyRange reports whether ip lies in at least one parsable CIDR of list.
// Unparsable entries denote no range. IPv4-mapped IPv6 addresses are the IPv4
// address they carry (that is the address the connection goes to).
func InAnyRange(ip netip.Addr, list []string) bool {
	ip = ip.Unmap()
	for _, c := range list {
		p, ok := snNormPrefix(c)
		if !ok {
			continue
		}
		if p.Contains(ip) {
			return true
		}
	}
	return false
}

// DialPermitted is the policy of the property text: the address lies in no
// denied range and in at least one allowed range.
func DialPermitted(ip netip.Addr, allow, deny []string) bool {
	return !InAnyRange(ip, deny) && InAnyRange(ip, allow)
}
