// Package ref holds small executable reference models, written from the
// Matrix specification and sharing no code with the repository under test.
package ref

import (
	"bytes"
	"encoding/json"
	"sort"
	"strconv"
	"strings"
)

// ParseJSON decodes a JSON text into a value tree (map[string]any, []any,
// string, json.Number, bool, nil) with the standard library decoder.
func ParseJSON(b []byte) (any, error) {
	d := json.NewDecoder(bytes.NewReader(b))
	d.UseNumber()
	var v any
	if err := d.Decode(&v); err != nil {
		return nil, err
	}
	return v, nil
}

// Render writes a value tree in a fixed presentation (sorted keys, no
// whitespace). It is only used to compare values for equality; it is not
// claimed to be Matrix canonical JSON.
func Render(v any) string {
	var sb strings.Builder
	render(&sb, v)
	return sb.String()
}

func render(sb *strings.Builder, v any) {
	switch x := v.(type) {
	case map[string]any:
		ks := make([]string, 0, len(x))
		for k := range x {
			ks = append(ks, k)
		}
		sort.Strings(ks)
		sb.WriteByte('{')
		for i, k := range ks {
			if i > 0 {
				sb.WriteByte(',')
			}
			sb.WriteString(strconv.Quote(k))
			sb.WriteByte(':')
			render(sb, x[k])
		}
		sb.WriteByte('}')
	case []any:
		sb.WriteByte('[')
		for i, e := range x {
			if i > 0 {
				sb.WriteByte(',')
			}
			render(sb, e)
		}
		sb.WriteByte(']')
	case string:
		sb.WriteString(strconv.Quote(x))
	case json.Number:
		sb.WriteString(x.String())
	case bool:
		if x {
			sb.WriteString("true")
		} else {
			sb.WriteString("false")
		}
	case nil:
		sb.WriteString("null")
	default:
		b, _ := json.Marshal(x)
		sb.Write(b)
	}
}

// SameJSON reports whether two JSON texts denote the same value.
func SameJSON(a, b []byte) bool {
	va, ea := ParseJSON(a)
	vb, eb := ParseJSON(b)
	if ea != nil || eb != nil {
		return false
	}
	return Render(va) == Render(vb)
}

// Without returns a shallow copy of object o without the given keys.
func Without(o map[string]any, keys ...string) map[string]any {
	out := make(map[string]any, len(o))
	for k, v := range o {
		out[k] = v
	}
	for _, k := range keys {
		delete(out, k)
	}
	return out
}
