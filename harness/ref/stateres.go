package ref

// Reference state resolution, written from the Matrix specification (room
// version 1 algorithm; "state resolution v2"; MSC4297 "v2.1" as adopted for
// room version 12) plus exactly the tie-breaking refinements R1-R6 listed in
// /verif/DESIGN.md §6.1. Naive data structures, everything recomputed, a
// fresh auth check per event. It shares no code with the library except the
// per-event authorisation predicate (gomatrixserverlib.Allowed on a freshly
// built provider — property C07's subject, trusted here) and the PDU
// accessors.

import (
	"crypto/sha1"
	"encoding/json"
	"sort"

	gmsl "github.com/matrix-org/gomatrixserverlib"
	"github.com/matrix-org/gomatrixserverlib/spec"
)

type Key struct{ Type, StateKey string }

type Algo int

const (
	V1 Algo = iota + 1
	V2
	V2_1
)

// Deviations are named switches, one per known deviation of the library from
// the definition (KNOWN_FINDINGS.json). All false = the definition.
type Deviations struct {
	// (none at present)
}

type Input struct {
	Algo       Algo
	StateSets  [][]gmsl.PDU
	AuthEvents []gmsl.PDU
	IsRejected func(eventID string) bool
	UserID     spec.UserIDForSender
	// PrivilegedCreators: room versions in which creators have infinite power.
	PrivilegedCreators bool
	Dev                Deviations
}

// Trace records the intermediate stages, for diagnosis.
type Trace struct {
	Unconflicted  []string
	Conflicted    []string
	AuthDiff      []string
	Subgraph      []string
	FullConflict  []string
	PowerOrder    []string
	MainlineOrder []string
	Mainline      []string
	Rejected      []string // events refused by the iterative auth checks
}

func keyOf(e gmsl.PDU) (Key, bool) {
	sk := e.StateKey()
	if sk == nil {
		return Key{}, false
	}
	return Key{e.Type(), *sk}, true
}

func sortedIDs(m map[string]bool) []string {
	out := make([]string, 0, len(m))
	for k := range m {
		out = append(out, k)
	}
	sort.Strings(out)
	return out
}

type resolver struct {
	in     Input
	events map[string]gmsl.PDU // every supplied event by ID
	tr     *Trace
}

// Resolve returns the resolved state as a map key -> event ID.
func Resolve(in Input) (map[Key]string, *Trace) {
	r := &resolver{in: in, events: map[string]gmsl.PDU{}, tr: &Trace{}}
	for _, s := range in.StateSets {
		for _, e := range s {
			if _, ok := r.events[e.EventID()]; !ok {
				r.events[e.EventID()] = e
			}
		}
	}
	for _, e := range in.AuthEvents {
		if _, ok := r.events[e.EventID()]; !ok {
			r.events[e.EventID()] = e
		}
	}
	if in.Algo == V1 {
		return r.resolveV1(), r.tr
	}
	return r.resolveV2(), r.tr
}

// ---- shared helpers ----------------------------------------------------------

// split computes the unconflicted state map and the conflicted state set.
// A key is unconflicted iff every state set has the same event for it.
func (r *resolver) split() (map[Key]string, map[string]bool) {
	perSet := make([]map[Key]string, len(r.in.StateSets))
	keys := map[Key]bool{}
	for i, s := range r.in.StateSets {
		perSet[i] = map[Key]string{}
		for _, e := range s {
			k, ok := keyOf(e)
			if !ok {
				continue
			}
			perSet[i][k] = e.EventID()
			keys[k] = true
		}
	}
	unconf := map[Key]string{}
	conf := map[string]bool{}
	for k := range keys {
		same := true
		first, ok0 := perSet[0][k]
		for _, ps := range perSet {
			id, ok := ps[k]
			if !ok || !ok0 || id != first {
				same = false
			}
		}
		if same {
			unconf[k] = first
			continue
		}
		for _, ps := range perSet {
			if id, ok := ps[k]; ok {
				conf[id] = true
			}
		}
	}
	return unconf, conf
}

// authChain returns the auth chain of an event: everything reachable through
// auth_events among the supplied events (the event itself excluded).
func (r *resolver) authChain(id string) map[string]bool {
	out := map[string]bool{}
	var walk func(string)
	walk = func(x string) {
		e := r.events[x]
		if e == nil {
			return
		}
		for _, a := range e.AuthEventIDs() {
			if _, ok := r.events[a]; !ok || out[a] {
				continue
			}
			out[a] = true
			walk(a)
		}
	}
	walk(id)
	return out
}

func isPowerEvent(e gmsl.PDU) bool {
	sk := e.StateKey()
	if sk == nil {
		return false
	}
	switch e.Type() {
	case "m.room.power_levels", "m.room.join_rules":
		return *sk == ""
	case "m.room.member":
		var c struct {
			Membership string `json:"membership"`
		}
		if json.Unmarshal(e.Content(), &c) != nil {
			return false
		}
		return (c.Membership == "leave" || c.Membership == "ban") && string(e.SenderID()) != *sk && *sk != ""
	}
	return false
}

// authKeysFor lists the (type, state_key) pairs the authorisation rules
// consult for an event (the "auth types" of the specification).
func authKeysFor(e gmsl.PDU) []Key {
	if e.Type() == "m.room.create" {
		return nil
	}
	ks := []Key{{"m.room.create", ""}, {"m.room.power_levels", ""}, {"m.room.member", string(e.SenderID())}}
	if e.Type() == "m.room.member" && e.StateKey() != nil {
		var c struct {
			Membership string `json:"membership"`
			Via        string `json:"join_authorised_via_users_server"`
			TPI        *struct {
				Signed struct {
					Token string `json:"token"`
				} `json:"signed"`
			} `json:"third_party_invite"`
		}
		_ = json.Unmarshal(e.Content(), &c)
		ks = append(ks, Key{"m.room.member", *e.StateKey()})
		if c.Membership == "join" || c.Membership == "invite" || c.Membership == "knock" {
			ks = append(ks, Key{"m.room.join_rules", ""})
		}
		if c.TPI != nil && c.TPI.Signed.Token != "" {
			ks = append(ks, Key{"m.room.third_party_invite", c.TPI.Signed.Token})
		}
		if c.Via != "" {
			ks = append(ks, Key{"m.room.member", c.Via})
		}
	}
	return ks
}

// allowedBy runs the authorisation rules for e against exactly the given
// events, through a freshly built provider.
func (r *resolver) allowedBy(e gmsl.PDU, auth []gmsl.PDU) bool {
	p, err := gmsl.NewAuthEvents(nil)
	if err != nil {
		return false
	}
	for _, a := range auth {
		if p.AddEvent(a) != nil {
			return false
		}
	}
	return gmsl.Allowed(e, p, r.in.UserID) == nil
}

// iterativeAuth applies the iterative auth checks algorithm to the ordered
// list, starting from (and updating) state.
func (r *resolver) iterativeAuth(state map[Key]string, order []string) {
	for _, id := range order {
		e := r.events[id]
		k, ok := keyOf(e)
		if !ok {
			continue
		}
		var auth []gmsl.PDU
		for _, ak := range authKeysFor(e) {
			if cur, ok := state[ak]; ok {
				auth = append(auth, r.events[cur])
				continue
			}
			// not in the partial state: the event's own auth event for that
			// key, unless rejected
			for _, aid := range e.AuthEventIDs() {
				ae := r.events[aid]
				if ae == nil {
					continue
				}
				if k2, ok := keyOf(ae); ok && k2 == ak {
					if r.in.IsRejected != nil && r.in.IsRejected(aid) {
						continue
					}
					auth = append(auth, ae)
					break
				}
			}
		}
		if r.allowedBy(e, auth) {
			state[k] = id
		} else {
			r.tr.Rejected = append(r.tr.Rejected, id)
		}
	}
}

// ---- v2 / v2.1 -----------------------------------------------------------------

func (r *resolver) resolveV2() map[Key]string {
	unconf, conf := r.split()
	for _, id := range unconf {
		r.tr.Unconflicted = append(r.tr.Unconflicted, id)
	}
	sort.Strings(r.tr.Unconflicted)
	r.tr.Conflicted = sortedIDs(conf)

	// auth difference: union minus intersection of the state sets' full auth chains
	chains := make([]map[string]bool, len(r.in.StateSets))
	union := map[string]bool{}
	for i, s := range r.in.StateSets {
		chains[i] = map[string]bool{}
		for _, e := range s {
			for a := range r.authChain(e.EventID()) {
				chains[i][a] = true
				union[a] = true
			}
		}
	}
	diff := map[string]bool{}
	for a := range union {
		for _, c := range chains {
			if !c[a] {
				diff[a] = true
			}
		}
	}
	r.tr.AuthDiff = sortedIDs(diff)

	full := map[string]bool{}
	for id := range conf {
		full[id] = true
	}
	for id := range diff {
		full[id] = true
	}
	if r.in.Algo == V2_1 {
		// conflicted state subgraph: every event lying on an auth-event path
		// between two events of the conflicted state set (endpoints included)
		sub := map[string]bool{}
		reachFromConf := map[string]bool{} // x reachable from some conflicted event (or conflicted itself)
		for c := range conf {
			reachFromConf[c] = true
			for a := range r.authChain(c) {
				reachFromConf[a] = true
			}
		}
		for x := range reachFromConf {
			if conf[x] {
				sub[x] = true
				continue
			}
			for a := range r.authChain(x) {
				if conf[a] {
					sub[x] = true
					break
				}
			}
		}
		r.tr.Subgraph = sortedIDs(sub)
		for id := range sub {
			full[id] = true
		}
	}
	r.tr.FullConflict = sortedIDs(full)

	// power events of the full conflicted set, enlarged by their auth chains
	// within the full conflicted set
	X := map[string]bool{}
	for id := range full {
		if isPowerEvent(r.events[id]) {
			X[id] = true
			for a := range r.authChain(id) {
				if full[a] {
					X[a] = true
				}
			}
		}
	}
	powerOrder := r.reverseTopologicalPowerOrder(X)
	r.tr.PowerOrder = powerOrder

	state := map[Key]string{}
	if r.in.Algo == V2 {
		for k, id := range unconf {
			state[k] = id
		}
	}
	r.iterativeAuth(state, powerOrder)

	// mainline ordering of the remaining events of the full conflicted set
	var rest []string
	for id := range full {
		if !X[id] {
			rest = append(rest, id)
		}
	}
	mainline := r.mainline(state[Key{"m.room.power_levels", ""}])
	r.tr.Mainline = mainline
	restOrder := r.mainlineOrder(rest, mainline)
	r.tr.MainlineOrder = restOrder
	r.iterativeAuth(state, restOrder)

	for k, id := range unconf {
		state[k] = id
	}
	return state
}

// senderPower is R2: the sender's level according to the power-levels event
// among the event's own auth events (users entry, else users_default, else 0;
// 0 when there is none); creators are infinite where creators are privileged.
func (r *resolver) senderPower(e gmsl.PDU) int64 {
	const inf = int64(1) << 60
	sender := string(e.SenderID())
	if r.in.PrivilegedCreators {
		for _, c := range r.creators(e) {
			if c == sender {
				return inf
			}
		}
	}
	for _, aid := range e.AuthEventIDs() {
		ae := r.events[aid]
		if ae == nil || ae.Type() != "m.room.power_levels" || ae.StateKey() == nil || *ae.StateKey() != "" {
			continue
		}
		var c struct {
			Users        map[string]json.RawMessage `json:"users"`
			UsersDefault json.RawMessage            `json:"users_default"`
		}
		plainInt := func(raw json.RawMessage) (int64, bool) {
			var n json.Number
			if len(raw) == 0 || raw[0] == '"' || json.Unmarshal(raw, &n) != nil {
				return 0, false
			}
			v, err := n.Int64()
			return v, err == nil
		}
		viaLibrary := func() int64 {
			// non-integer levels (strings / floats of old room versions):
			// defer to the library's parser, for the sort key only
			if pl, err := ae.PowerLevels(); err == nil {
				return pl.UserLevel(spec.SenderID(sender))
			}
			return 0
		}
		if json.Unmarshal(ae.Content(), &c) != nil {
			return viaLibrary()
		}
		if raw, ok := c.Users[sender]; ok {
			if v, ok := plainInt(raw); ok {
				return v
			}
			return viaLibrary()
		}
		if len(c.UsersDefault) == 0 {
			return 0
		}
		if v, ok := plainInt(c.UsersDefault); ok {
			return v
		}
		return viaLibrary()
	}
	return 0
}

// creators of the room the event belongs to: sender of the create event plus
// content.additional_creators.
func (r *resolver) creators(e gmsl.PDU) []string {
	var create gmsl.PDU
	for _, x := range r.events {
		if x.Type() == "m.room.create" && x.StateKey() != nil && *x.StateKey() == "" && x.RoomID() == e.RoomID() {
			create = x
		}
	}
	if create == nil {
		return nil
	}
	out := []string{string(create.SenderID())}
	var c struct {
		Additional []string `json:"additional_creators"`
	}
	_ = json.Unmarshal(create.Content(), &c)
	return append(out, c.Additional...)
}

// reverseTopologicalPowerOrder is R1 (Kahn's algorithm from the leaves).
func (r *resolver) reverseTopologicalPowerOrder(set map[string]bool) []string {
	remaining := map[string]bool{}
	for id := range set {
		remaining[id] = true
	}
	type keyed struct {
		id    string
		power int64
		ts    spec.Timestamp
	}
	less := func(a, b keyed) bool { // a orders before b
		if a.power != b.power {
			return a.power > b.power
		}
		if a.ts != b.ts {
			return a.ts < b.ts
		}
		return a.id < b.id
	}
	var reversed []string
	for len(remaining) > 0 {
		referenced := map[string]bool{}
		for id := range remaining {
			for _, a := range r.events[id].AuthEventIDs() {
				if remaining[a] && a != id {
					referenced[a] = true
				}
			}
		}
		var cands []keyed
		for id := range remaining {
			if !referenced[id] {
				e := r.events[id]
				cands = append(cands, keyed{id, r.senderPower(e), e.OriginServerTS()})
			}
		}
		if len(cands) == 0 { // cycle: R4 (not generated)
			for id := range remaining {
				e := r.events[id]
				cands = append(cands, keyed{id, r.senderPower(e), e.OriginServerTS()})
			}
		}
		best := cands[0]
		for _, c := range cands[1:] {
			if less(best, c) { // c is greater
				best = c
			}
		}
		reversed = append(reversed, best.id)
		delete(remaining, best.id)
	}
	out := make([]string, len(reversed))
	for i, id := range reversed {
		out[len(reversed)-1-i] = id
	}
	return out
}

// mainline returns the power-levels mainline, oldest first.
func (r *resolver) mainline(plID string) []string {
	var rev []string
	seen := map[string]bool{}
	for plID != "" && !seen[plID] {
		seen[plID] = true
		rev = append(rev, plID)
		e := r.events[plID]
		next := ""
		if e != nil {
			for _, a := range e.AuthEventIDs() {
				if ae := r.events[a]; ae != nil && ae.Type() == "m.room.power_levels" && ae.StateKey() != nil && *ae.StateKey() == "" {
					next = a
					break
				}
			}
		}
		plID = next
	}
	out := make([]string, len(rev))
	for i, id := range rev {
		out[len(rev)-1-i] = id
	}
	return out
}

// mainlineOrder is R3: sort by (position of the closest mainline ancestor,
// number of power-level hops to reach it, origin_server_ts, event ID).
func (r *resolver) mainlineOrder(ids []string, mainline []string) []string {
	pos := map[string]int{}
	for i, id := range mainline {
		pos[id] = i
	}
	type keyed struct {
		id         string
		pos, steps int
		ts         spec.Timestamp
	}
	var ks []keyed
	for _, id := range ids {
		e := r.events[id]
		p, steps := 0, 0 // no mainline ancestor: position 0 (the library's published choice, R3)
		cur := e
		seen := map[string]bool{}
		for cur != nil {
			next := gmsl.PDU(nil)
			for _, a := range cur.AuthEventIDs() {
				if ae := r.events[a]; ae != nil && ae.Type() == "m.room.power_levels" && ae.StateKey() != nil && *ae.StateKey() == "" {
					next = ae
					break
				}
			}
			if next == nil || seen[next.EventID()] {
				break
			}
			seen[next.EventID()] = true
			if mp, ok := pos[next.EventID()]; ok {
				p = mp
				break
			}
			steps++
			cur = next
		}
		ks = append(ks, keyed{id, p, steps, e.OriginServerTS()})
	}
	sort.Slice(ks, func(i, j int) bool {
		a, b := ks[i], ks[j]
		if a.pos != b.pos {
			return a.pos < b.pos
		}
		if a.steps != b.steps {
			return a.steps < b.steps
		}
		if a.ts != b.ts {
			return a.ts < b.ts
		}
		return a.id < b.id
	})
	out := make([]string, len(ks))
	for i, k := range ks {
		out[i] = k.id
	}
	return out
}

// ---- v1 ------------------------------------------------------------------------

// resolveV1 implements the room-version-1 algorithm with refinement R5. The
// auth events supplied are "one per state key" as that resolver documents.
func (r *resolver) resolveV1() map[Key]string {
	// conflicted = keys with more than one distinct event across the sets;
	// a key present in only some sets with a single event is unconflicted
	byKey := map[Key]map[string]bool{}
	for _, s := range r.in.StateSets {
		for _, e := range s {
			if k, ok := keyOf(e); ok {
				if byKey[k] == nil {
					byKey[k] = map[string]bool{}
				}
				byKey[k][e.EventID()] = true
			}
		}
	}
	result := map[Key]string{}
	// auth state: starts as the supplied auth events, one per key
	auth := map[Key]string{}
	for _, e := range r.in.AuthEvents {
		if k, ok := keyOf(e); ok {
			auth[k] = e.EventID()
		}
	}
	type block struct {
		key Key
		ids []string
	}
	var conflicted []block
	var keys []Key
	for k := range byKey {
		keys = append(keys, k)
	}
	sort.Slice(keys, func(i, j int) bool {
		if keys[i].Type != keys[j].Type {
			return keys[i].Type < keys[j].Type
		}
		return keys[i].StateKey < keys[j].StateKey
	})
	for _, k := range keys {
		ids := sortedIDs(byKey[k])
		if len(ids) == 1 {
			result[k] = ids[0]
			r.tr.Unconflicted = append(r.tr.Unconflicted, ids[0])
			continue
		}
		conflicted = append(conflicted, block{k, ids})
		r.tr.Conflicted = append(r.tr.Conflicted, ids...)
	}
	order := func(ids []string) []string {
		out := append([]string{}, ids...)
		sort.Slice(out, func(i, j int) bool {
			a, b := r.events[out[i]], r.events[out[j]]
			if a.Depth() != b.Depth() {
				return a.Depth() < b.Depth()
			}
			ha, hb := sha1.Sum([]byte(out[i])), sha1.Sum([]byte(out[j]))
			for x := range ha {
				if ha[x] != hb[x] {
					return ha[x] > hb[x]
				}
			}
			return false
		})
		return out
	}
	authList := func() []gmsl.PDU {
		var l []gmsl.PDU
		for _, id := range auth {
			l = append(l, r.events[id])
		}
		return l
	}
	isAuthType := func(t string) bool {
		switch t {
		case "m.room.create", "m.room.power_levels", "m.room.join_rules", "m.room.member", "m.room.third_party_invite":
			return true
		}
		return false
	}
	specialEmpty := func(k Key) bool {
		// create / power_levels / join_rules are auth-relevant only with an empty state key
		switch k.Type {
		case "m.room.create", "m.room.power_levels", "m.room.join_rules":
			return k.StateKey == ""
		}
		return true
	}
	for _, typ := range []string{"m.room.create", "m.room.power_levels", "m.room.join_rules", "m.room.third_party_invite", "m.room.member"} {
		resolvedThisType := map[Key]string{}
		for _, b := range conflicted {
			if b.key.Type != typ || !specialEmpty(b.key) {
				continue
			}
			ids := order(b.ids)
			// start with the first; accept each following event while it passes
			// auth against the auth state in which the previous winner of this
			// block stands for its key
			winner := ids[0]
			saved, had := auth[b.key]
			auth[b.key] = winner
			for _, id := range ids[1:] {
				if r.allowedBy(r.events[id], authList()) {
					winner = id
					auth[b.key] = winner
				} else {
					break
				}
			}
			// winners of one type are registered only after the whole type is resolved
			if had {
				auth[b.key] = saved
			} else {
				delete(auth, b.key)
			}
			resolvedThisType[b.key] = winner
		}
		for k, id := range resolvedThisType {
			result[k] = id
			auth[k] = id
		}
	}
	for _, b := range conflicted {
		if isAuthType(b.key.Type) && specialEmpty(b.key) {
			continue
		}
		ids := order(b.ids)
		winner := ids[0]
		for i := len(ids) - 1; i > 0; i-- {
			if r.allowedBy(r.events[ids[i]], authList()) {
				winner = ids[i]
				break
			}
		}
		result[b.key] = winner
	}
	return result
}
