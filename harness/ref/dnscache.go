package ref

// Reference model of a bounded, expiring host -> addresses cache, used to
// replay the recorded order of a concurrent run's atomic sections (DESIGN §4
// C19a). It is written from the property text, not from the library:
//
//   - a lookup at instant now is a HIT iff an entry for the host exists and
//     now is strictly before its expiry; a hit returns that entry unchanged;
//   - a miss asks the resolver and on success stores host -> (answer, instant
//     of storing + lifetime); whether an expired entry is removed at once or
//     lingers unserved until overwritten is the implementation's business;
//   - the cache never holds more than Size entries; WHICH entries make room
//     is the implementation's choice, so the model follows the observed key
//     set, but entries may only disappear, never appear or change, outside a
//     recorded insert.

import (
	"fmt"
	"sort"
	"strings"
	"time"
)

type CacheEntry struct {
	Addrs   []string
	Expires time.Time
	Stored  time.Time
}

func (e CacheEntry) String() string {
	return fmt.Sprintf("{%s until %s}", strings.Join(e.Addrs, ","), e.Expires.UTC().Format("15:04:05.000"))
}

type DNSCacheModel struct {
	Size    int
	Life    time.Duration
	Entries map[string]CacheEntry
	pending []pendingInsert
	// Evictions / Vanished count entries that left the cache at an insert and
	// at other moments (evidence only).
	Evictions, Vanished int
	// EvictedNotEarliest counts evictions of an entry that did not have the
	// earliest expiry (not demanded by the property; evidence only).
	EvictedNotEarliest int
	InsertLost         int
}

type pendingInsert struct {
	host string
	e    CacheEntry
}

func NewDNSCacheModel(size int, life time.Duration) *DNSCacheModel {
	return &DNSCacheModel{Size: size, Life: life, Entries: map[string]CacheEntry{}}
}

// Begin is the first atomic section of a lookup at instant now.
func (m *DNSCacheModel) Begin(host string, now time.Time) (CacheEntry, bool) {
	if e, ok := m.Entries[host]; ok && now.Before(e.Expires) {
		return e, true
	}
	return CacheEntry{}, false
}

// Insert is the second atomic section of a missed lookup whose resolver call
// succeeded; it takes effect at the next Settle, which sees what the
// implementation evicted.
func (m *DNSCacheModel) Insert(host string, addrs []string, now time.Time) CacheEntry {
	e := CacheEntry{Addrs: append([]string(nil), addrs...), Expires: now.Add(m.Life), Stored: now}
	m.pending = append(m.pending, pendingInsert{host, e})
	return e
}

func sameAddrs(a, b []string) bool {
	if len(a) != len(b) {
		return false
	}
	for i := range a {
		if a[i] != b[i] {
			return false
		}
	}
	return true
}

// Settle reconciles the model with the observed cache content. It returns a
// description of the first inconsistency, tagged with a short class.
func (m *DNSCacheModel) Settle(observed map[string]CacheEntry) (class, msg string) {
	inserted := map[string]bool{}
	for _, p := range m.pending {
		m.Entries[p.host] = p.e
		inserted[p.host] = true
	}
	npend := len(m.pending)
	m.pending = nil
	keys := make([]string, 0, len(observed))
	for k := range observed {
		keys = append(keys, k)
	}
	sort.Strings(keys)
	if len(observed) > m.Size {
		return "over_size", fmt.Sprintf("cache holds %d entries (%s), configured size %d", len(observed), strings.Join(keys, ","), m.Size)
	}
	for _, k := range keys {
		o := observed[k]
		e, ok := m.Entries[k]
		if !ok {
			return "phantom_entry", fmt.Sprintf("cache holds an entry for %q %s that no completed resolver call stored (or that was removed)", k, o)
		}
		if !sameAddrs(o.Addrs, e.Addrs) {
			return "wrong_addresses", fmt.Sprintf("entry for %q holds %v, the resolver answer stored for it was %v", k, o.Addrs, e.Addrs)
		}
		if !o.Expires.Equal(e.Expires) {
			return "wrong_expiry", fmt.Sprintf("entry for %q expires %s, stored at %s with lifetime %v", k, o.Expires.UTC().Format("15:04:05.000"), e.Stored.UTC().Format("15:04:05.000"), m.Life)
		}
	}
	mk := make([]string, 0, len(m.Entries))
	for k := range m.Entries {
		mk = append(mk, k)
	}
	sort.Strings(mk)
	for _, k := range mk {
		if _, ok := observed[k]; ok {
			continue
		}
		if inserted[k] {
			// not demanded by the property: a cache may decline to keep an answer
			m.InsertLost++
		} else if npend > 0 {
			m.Evictions++
			// was it the earliest-expiring one among those present before?
			gone := m.Entries[k]
			for _, k2 := range mk {
				if k2 != k && !inserted[k2] && m.Entries[k2].Expires.Before(gone.Expires) {
					if _, still := observed[k2]; still {
						m.EvictedNotEarliest++
						break
					}
				}
			}
		} else {
			m.Vanished++
		}
		delete(m.Entries, k)
	}
	return "", ""
}

// Keys returns the model's hosts, sorted.
func (m *DNSCacheModel) Keys() []string {
	ks := make([]string, 0, len(m.Entries))
	for k := range m.Entries {
		ks = append(ks, k)
	}
	sort.Strings(ks)
	return ks
}
