package ref

import "sort"

// Redaction keep-lists, transcribed from the Matrix specification ("Redactions"
// section of each room version page). They share nothing with the repository's
// redactevent.go. The oracles use them as an UPPER bound on what may survive a
// redaction, and as the definition of which material is "redactable" (anything
// outside the list).
//
//	v1-v5   original list
//	v6-v7   m.room.aliases no longer keeps `aliases`
//	v8      m.room.join_rules additionally keeps `allow`
//	v9-v10  m.room.member additionally keeps `join_authorised_via_users_server`
//	v11-v12 top level drops `origin`, `membership`, `prev_state`;
//	        m.room.create keeps all content; m.room.redaction keeps `redacts`;
//	        m.room.power_levels additionally keeps `invite`;
//	        m.room.member additionally keeps `third_party_invite` -> `signed` only
//
// Unstable versions are given the most permissive list of the stable versions
// they may be based on, so that the table stays an upper bound whichever base
// an implementation chose.

// KeepList is the keep-list of one room version.
type KeepList struct {
	Top map[string]bool
	// Content maps an event type to its kept content keys. A kept key mapped
	// to a non-nil set keeps only those sub-keys of an object value.
	Content map[string]map[string]map[string]bool
	// AllContent lists event types whose whole content is kept.
	AllContent map[string]bool
}

func set(ks ...string) map[string]bool {
	m := make(map[string]bool, len(ks))
	for _, k := range ks {
		m[k] = true
	}
	return m
}

func keys(ks ...string) map[string]map[string]bool {
	m := make(map[string]map[string]bool, len(ks))
	for _, k := range ks {
		m[k] = nil
	}
	return m
}

var topV1 = []string{"event_id", "type", "room_id", "sender", "state_key", "content", "hashes", "signatures",
	"depth", "prev_events", "prev_state", "auth_events", "origin", "origin_server_ts", "membership"}

var topV11 = []string{"event_id", "type", "room_id", "sender", "state_key", "content", "hashes", "signatures",
	"depth", "prev_events", "auth_events", "origin_server_ts"}

var plV1 = []string{"ban", "events", "events_default", "kick", "redact", "state_default", "users", "users_default"}

func keepV1() *KeepList {
	return &KeepList{
		Top: set(topV1...),
		Content: map[string]map[string]map[string]bool{
			"m.room.member":             keys("membership"),
			"m.room.create":             keys("creator"),
			"m.room.join_rules":         keys("join_rule"),
			"m.room.power_levels":       keys(plV1...),
			"m.room.aliases":            keys("aliases"),
			"m.room.history_visibility": keys("history_visibility"),
		},
		AllContent: map[string]bool{},
	}
}

func keepV6() *KeepList {
	k := keepV1()
	delete(k.Content, "m.room.aliases")
	return k
}

func keepV8() *KeepList {
	k := keepV6()
	k.Content["m.room.join_rules"] = keys("join_rule", "allow")
	return k
}

func keepV9() *KeepList {
	k := keepV8()
	k.Content["m.room.member"] = keys("membership", "join_authorised_via_users_server")
	return k
}

func keepV11() *KeepList {
	k := keepV9()
	k.Top = set(topV11...)
	delete(k.Content, "m.room.create")
	k.AllContent["m.room.create"] = true
	k.Content["m.room.redaction"] = keys("redacts")
	k.Content["m.room.power_levels"] = keys(append(append([]string{}, plV1...), "invite")...)
	m := keys("membership", "join_authorised_via_users_server")
	m["third_party_invite"] = set("signed")
	k.Content["m.room.member"] = m
	return k
}

// union is the most permissive combination of two lists.
func union(a, b *KeepList) *KeepList {
	u := &KeepList{Top: map[string]bool{}, Content: map[string]map[string]map[string]bool{}, AllContent: map[string]bool{}}
	for _, l := range []*KeepList{a, b} {
		for k := range l.Top {
			u.Top[k] = true
		}
		for t := range l.AllContent {
			u.AllContent[t] = true
		}
	}
	for _, l := range []*KeepList{a, b} {
		for t, ks := range l.Content {
			if u.AllContent[t] {
				continue
			}
			if u.Content[t] == nil {
				u.Content[t] = map[string]map[string]bool{}
			}
			for k, sub := range ks {
				old, seen := u.Content[t][k]
				switch {
				case !seen:
					u.Content[t][k] = sub
				case old == nil || sub == nil:
					u.Content[t][k] = nil // kept whole in one of them
				default:
					m := map[string]bool{}
					for s := range old {
						m[s] = true
					}
					for s := range sub {
						m[s] = true
					}
					u.Content[t][k] = m
				}
			}
		}
	}
	for t := range u.AllContent {
		delete(u.Content, t)
	}
	return u
}

// RedactionKeepList returns the keep-list for a room version identifier. The
// second result is false for identifiers this table does not know; the list
// returned then is the union of every known list (still an upper bound).
func RedactionKeepList(version string) (*KeepList, bool) {
	switch version {
	case "1", "2", "3", "4", "5":
		return keepV1(), true
	case "6", "7":
		return keepV6(), true
	case "8":
		return keepV8(), true
	case "9", "10":
		return keepV9(), true
	case "11", "12":
		return keepV11(), true
	case "org.matrix.msc3667":
		// integer power levels, proposed on top of v7..v9
		return union(keepV6(), keepV9()), true
	case "org.matrix.msc3787":
		// knock_restricted, proposed on top of v9
		return keepV9(), true
	case "org.matrix.msc4014":
		// pseudo IDs, proposed on top of v10 / v11
		return union(keepV9(), keepV11()), true
	case "org.matrix.hydra.11":
		// MSC4289/4291/4297 on top of v11 (became v12)
		return keepV11(), true
	}
	return union(union(keepV1(), keepV9()), keepV11()), false
}

// TopKept reports whether a top-level key may survive redaction.
func (k *KeepList) TopKept(key string) bool { return k.Top[key] }

// ContentKept reports whether content key `key` of an event of type evType
// may survive redaction (possibly only in part, see ContentSub).
func (k *KeepList) ContentKept(evType, key string) bool {
	if k.AllContent[evType] {
		return true
	}
	_, ok := k.Content[evType][key]
	return ok
}

// ContentSub returns the sub-keys kept inside content key `key`, or nil when
// the whole value is kept (or the key is not kept at all).
func (k *KeepList) ContentSub(evType, key string) map[string]bool {
	if k.AllContent[evType] {
		return nil
	}
	return k.Content[evType][key]
}

// ContentKeys returns the sorted kept content keys of a type (nil, true when
// all content is kept).
func (k *KeepList) ContentKeys(evType string) ([]string, bool) {
	if k.AllContent[evType] {
		return nil, true
	}
	var out []string
	for key := range k.Content[evType] {
		out = append(out, key)
	}
	sort.Strings(out)
	return out, false
}

// Excess lists (sorted) every path of a parsed event object that lies outside
// the keep-list: top-level keys, content keys, and sub-keys of partially kept
// content keys. An empty result means the event is within the upper bound of
// a redacted event.
func (k *KeepList) Excess(event map[string]any) []string {
	var out []string
	for key := range event {
		if !k.Top[key] {
			out = append(out, key)
		}
	}
	evType, _ := event["type"].(string)
	if c, ok := event["content"].(map[string]any); ok {
		out = append(out, k.ExcessContent(evType, c)...)
	}
	sort.Strings(out)
	return out
}

// ExcessContent is Excess restricted to a content object.
func (k *KeepList) ExcessContent(evType string, content map[string]any) []string {
	var out []string
	if k.AllContent[evType] {
		return nil
	}
	for key, v := range content {
		sub, kept := k.Content[evType][key]
		if !kept {
			out = append(out, "content."+key)
			continue
		}
		if sub != nil {
			if o, ok := v.(map[string]any); ok {
				for sk := range o {
					if !sub[sk] {
						out = append(out, "content."+key+"."+sk)
					}
				}
			}
		}
	}
	sort.Strings(out)
	return out
}
