// Package world holds the seeded builders shared by the engines: servers with
// key histories, users, and the ground-truth ledger the oracles consult.
package world

import (
	"context"
	"crypto/ed25519"
	"encoding/json"
	"fmt"
	"time"

	gmsl "github.com/matrix-org/gomatrixserverlib"
	"github.com/matrix-org/gomatrixserverlib/spec"

	"verifharness/sim"
)

// Key is one generation of a server's signing key.
type Key struct {
	ID        gmsl.KeyID
	Priv      ed25519.PrivateKey
	Pub       ed25519.PublicKey
	From      time.Time // first published
	ExpiredAt time.Time // zero while current
}

func (k *Key) Current() bool { return k.ExpiredAt.IsZero() }

// Server is one simulated homeserver identity with its key history.
type Server struct {
	Name     spec.ServerName
	Keys     []*Key
	ValidFor time.Duration // valid_until_ts of a key response = response time + ValidFor
	// OmitValidUntil models a server whose key response carries no (a zero)
	// valid_until_ts: its current keys have no validity period at all.
	OmitValidUntil bool
	nextID         int
}

func newKey(t *sim.Tape, id gmsl.KeyID, now time.Time) *Key {
	priv := ed25519.NewKeyFromSeed(t.Bytes(32))
	return &Key{ID: id, Priv: priv, Pub: priv.Public().(ed25519.PublicKey), From: now}
}

func NewServer(t *sim.Tape, name string, now time.Time) *Server {
	s := &Server{Name: spec.ServerName(name), ValidFor: 24 * time.Hour}
	s.AddKey(t, now)
	return s
}

// AddKey publishes an additional current key (a server may have several).
func (s *Server) AddKey(t *sim.Tape, now time.Time) *Key {
	s.nextID++
	k := newKey(t, gmsl.KeyID(fmt.Sprintf("ed25519:k%d", s.nextID)), now)
	s.Keys = append(s.Keys, k)
	return k
}

// Rotate expires every current key at now and publishes a new one.
func (s *Server) Rotate(t *sim.Tape, now time.Time) *Key {
	for _, k := range s.Keys {
		if k.Current() {
			k.ExpiredAt = now
		}
	}
	return s.AddKey(t, now)
}

// Current returns the newest current key.
func (s *Server) Current() *Key {
	for i := len(s.Keys) - 1; i >= 0; i-- {
		if s.Keys[i].Current() {
			return s.Keys[i]
		}
	}
	return nil
}

func (s *Server) KeyByID(id gmsl.KeyID) *Key {
	for _, k := range s.Keys {
		if k.ID == id {
			return k
		}
	}
	return nil
}

// KeyResponse builds the server's signed /_matrix/key/v2/server response as
// of now: current keys under verify_keys (each signing the response), expired
// ones under old_verify_keys, valid_until_ts = now + ValidFor.
func (s *Server) KeyResponse(now time.Time) gmsl.ServerKeys {
	f := gmsl.ServerKeyFields{
		ServerName:    s.Name,
		VerifyKeys:    map[gmsl.KeyID]gmsl.VerifyKey{},
		OldVerifyKeys: map[gmsl.KeyID]gmsl.OldVerifyKey{},
		ValidUntilTS:  spec.AsTimestamp(now.Add(s.ValidFor)),
	}
	if s.OmitValidUntil {
		f.ValidUntilTS = 0
	}
	for _, k := range s.Keys {
		if k.From.After(now) {
			continue
		}
		if k.Current() || k.ExpiredAt.After(now) {
			f.VerifyKeys[k.ID] = gmsl.VerifyKey{Key: spec.Base64Bytes(k.Pub)}
		} else {
			f.OldVerifyKeys[k.ID] = gmsl.OldVerifyKey{VerifyKey: gmsl.VerifyKey{Key: spec.Base64Bytes(k.Pub)}, ExpiredTS: spec.AsTimestamp(k.ExpiredAt)}
		}
	}
	raw, err := json.Marshal(f)
	if err != nil {
		panic(err)
	}
	for _, k := range s.Keys {
		if _, ok := f.VerifyKeys[k.ID]; ok {
			raw, err = gmsl.SignJSON(string(s.Name), k.ID, k.Priv, raw)
			if err != nil {
				panic(err)
			}
		}
	}
	var sk gmsl.ServerKeys
	if err := json.Unmarshal(raw, &sk); err != nil {
		panic(err)
	}
	return sk
}

// Ledger is the set of servers of a world (ground truth about keys).
type Ledger struct {
	Servers map[spec.ServerName]*Server
	Order   []spec.ServerName
}

func NewLedger() *Ledger { return &Ledger{Servers: map[spec.ServerName]*Server{}} }

func (l *Ledger) Add(s *Server) *Server {
	l.Servers[s.Name] = s
	l.Order = append(l.Order, s.Name)
	return s
}

// Verifier answers VerifyJSONs from ground truth, with no fetching, caching or
// network: a request succeeds iff some ed25519 signature of the named server
// on the message verifies under the ledger key with that ID and that key was
// not expired at AtTS. Used by engines in which key fetching is not the
// subject. Calls are counted.
type Verifier struct {
	L     *Ledger
	Calls int
	// Fail, if set, makes the verifier itself error (a key-ring failure).
	Fail error
}

func (v *Verifier) VerifyJSONs(ctx context.Context, reqs []gmsl.VerifyJSONRequest) ([]gmsl.VerifyJSONResult, error) {
	v.Calls++
	if v.Fail != nil {
		return nil, v.Fail
	}
	out := make([]gmsl.VerifyJSONResult, len(reqs))
	for i, rq := range reqs {
		out[i].Error = v.verifyOne(rq)
	}
	return out, nil
}

func (v *Verifier) verifyOne(rq gmsl.VerifyJSONRequest) error {
	s := v.L.Servers[rq.ServerName]
	if s == nil {
		return fmt.Errorf("ledger: unknown server %q", rq.ServerName)
	}
	ids, err := gmsl.ListKeyIDs(string(rq.ServerName), rq.Message)
	if err != nil {
		return err
	}
	var last error = fmt.Errorf("ledger: no signature from %q", rq.ServerName)
	for _, id := range ids {
		k := s.KeyByID(id)
		if k == nil {
			last = fmt.Errorf("ledger: %q has no key %q", rq.ServerName, id)
			continue
		}
		if !k.Current() && rq.AtTS >= spec.AsTimestamp(k.ExpiredAt) {
			last = fmt.Errorf("ledger: key %q of %q expired", id, rq.ServerName)
			continue
		}
		if err := gmsl.VerifyJSON(string(rq.ServerName), id, k.Pub, rq.Message); err != nil {
			last = err
			continue
		}
		return nil
	}
	return last
}
