package world

import (
	"encoding/base64"
	"encoding/json"
	"fmt"
	"sort"
	"time"

	gmsl "github.com/matrix-org/gomatrixserverlib"
	"github.com/matrix-org/gomatrixserverlib/spec"

	"verifharness/sim"
)

// Versions returns every registered room version, sorted (the registry is a
// map; the order must not depend on it).
func Versions() []gmsl.RoomVersion {
	var vs []string
	for v := range gmsl.RoomVersions() {
		vs = append(vs, string(v))
	}
	sort.Strings(vs)
	out := make([]gmsl.RoomVersion, len(vs))
	for i, v := range vs {
		out[i] = gmsl.RoomVersion(v)
	}
	return out
}

// FakeEventID returns a syntactically valid event ID for the version's format.
func FakeEventID(t *sim.Tape, ver gmsl.IRoomVersion, domain spec.ServerName) string {
	switch ver.EventIDFormat() {
	case gmsl.EventIDFormatV1:
		return fmt.Sprintf("$%x:%s", t.Bytes(8), domain)
	case gmsl.EventIDFormatV2:
		return "$" + base64.RawStdEncoding.EncodeToString(t.Bytes(32))
	default:
		return "$" + base64.RawURLEncoding.EncodeToString(t.Bytes(32))
	}
}

// FakeRoomID returns a room ID acceptable to the version.
func FakeRoomID(t *sim.Tape, ver gmsl.IRoomVersion, domain spec.ServerName) string {
	if ver.DomainlessRoomIDs() {
		return "!" + base64.RawURLEncoding.EncodeToString(t.Bytes(32))
	}
	return fmt.Sprintf("!r%x:%s", t.Bytes(4), domain)
}

// Proto describes an event to build.
type Proto struct {
	RoomID   string
	Sender   string
	Type     string
	StateKey *string
	Content  any
	Prev     []string
	Auth     []string
	Depth    int64
	Redacts  string
	Unsigned any
	// AuthFrom, if set, selects the auth events with the real
	// EventBuilder.AddAuthEvents (Auth is then ignored).
	AuthFrom gmsl.AuthEventProvider
}

func Str(s string) *string { return &s }

// Build builds and signs an event with the real EventBuilder.
func Build(ver gmsl.IRoomVersion, p Proto, ts time.Time, origin spec.ServerName, key *Key) (gmsl.PDU, error) {
	eb := ver.NewEventBuilder()
	eb.RoomID = p.RoomID
	eb.SenderID = p.Sender
	eb.Type = p.Type
	eb.StateKey = p.StateKey
	eb.Depth = p.Depth
	eb.Redacts = p.Redacts
	prev, auth := p.Prev, p.Auth
	if prev == nil {
		prev = []string{}
	}
	if auth == nil {
		auth = []string{}
	}
	eb.PrevEvents = prev
	eb.AuthEvents = auth
	c := p.Content
	if c == nil {
		c = map[string]any{}
	}
	if raw, ok := c.(json.RawMessage); ok {
		eb.Content = spec.RawJSON(raw)
	} else if err := eb.SetContent(c); err != nil {
		return nil, err
	}
	if p.AuthFrom != nil {
		if err := eb.AddAuthEvents(p.AuthFrom); err != nil {
			return nil, err
		}
		if eb.AuthEvents == nil {
			eb.AuthEvents = []string{}
		}
	}
	if p.Unsigned != nil {
		if err := eb.SetUnsigned(p.Unsigned); err != nil {
			return nil, err
		}
	}
	return eb.Build(ts, origin, key.ID, key.Priv)
}
