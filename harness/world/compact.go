package world

import (
	"crypto/ed25519"
	"crypto/sha256"
	"encoding/binary"
	"fmt"
	"time"

	gmsl "github.com/matrix-org/gomatrixserverlib"
	"github.com/matrix-org/gomatrixserverlib/spec"

	"verifharness/sim"
)

// Compact key material: one tape value per key instead of sixteen. The 32-byte
// ed25519 seed is SHA-256(label || tape value), so keys are still a pure
// function of the tape, distinct per label, and a failing run's tape stays
// short enough for the shrinker to minimise within its execution budget.

func compactSeed(t *sim.Tape, label string) []byte {
	var v [8]byte
	binary.BigEndian.PutUint64(v[:], uint64(t.Intn(1<<31)))
	h := sha256.Sum256(append([]byte(label+"\x00"), v[:]...))
	return h[:]
}

// CompactBytes draws n pseudo-random bytes from one tape value.
func CompactBytes(t *sim.Tape, label string, n int) []byte {
	seed := compactSeed(t, label)
	var out []byte
	for i := 0; len(out) < n; i++ {
		h := sha256.Sum256(append(seed, byte(i)))
		out = append(out, h[:]...)
	}
	return out[:n]
}

// NewCompactKey draws one ed25519 key (one tape value).
func NewCompactKey(t *sim.Tape, label string) ed25519.PrivateKey {
	return ed25519.NewKeyFromSeed(compactSeed(t, label))
}

func newCompactKey(t *sim.Tape, label string, id gmsl.KeyID, now time.Time) *Key {
	priv := NewCompactKey(t, label)
	return &Key{ID: id, Priv: priv, Pub: priv.Public().(ed25519.PublicKey), From: now}
}

// NewCompactServer is NewServer with one tape value for the first key.
func NewCompactServer(t *sim.Tape, name string, now time.Time) *Server {
	s := &Server{Name: spec.ServerName(name), ValidFor: 24 * time.Hour}
	s.AddCompactKey(t, now)
	return s
}

// AddCompactKey is AddKey with one tape value.
func (s *Server) AddCompactKey(t *sim.Tape, now time.Time) *Key {
	s.nextID++
	id := gmsl.KeyID(fmt.Sprintf("ed25519:k%d", s.nextID))
	k := newCompactKey(t, string(s.Name)+"/"+string(id), id, now)
	s.Keys = append(s.Keys, k)
	return k
}
