// Command instr rewrites a scratch copy of the repository so that the sources
// of nondeterminism that have no seam go through package verifrt:
//
//   - range over a value of map type        -> range verifrt.Iter(m)
//   - (*go-set Set).Slice()                 -> verifrt.Order(x.Slice())
//   - (*net.Dialer).DialContext / .Dial     -> verifrt.DialContext / verifrt.Dial
//
// The rules are type-directed and syntactic, so a modified tree gets the same
// treatment as the pristine one. Usage: instr <repo-copy-dir>
package main

import (
	"bytes"
	"fmt"
	"go/ast"
	"go/format"
	"go/token"
	"go/types"
	"os"
	"strings"

	"golang.org/x/tools/go/ast/astutil"
	"golang.org/x/tools/go/packages"
)

const rtPath = "github.com/matrix-org/gomatrixserverlib/verifrt"

func main() {
	if len(os.Args) != 2 {
		fmt.Fprintln(os.Stderr, "usage: instr <dir>")
		os.Exit(2)
	}
	dir := os.Args[1]
	cfg := &packages.Config{
		Mode: packages.NeedName | packages.NeedFiles | packages.NeedSyntax | packages.NeedTypes | packages.NeedTypesInfo | packages.NeedImports | packages.NeedDeps,
		Dir:  dir,
		Env:  append(os.Environ(), "GOFLAGS=-mod=mod", "GOPROXY=off", "GOSUMDB=off"),
	}
	pkgs, err := packages.Load(cfg, "./...")
	if err != nil {
		fmt.Fprintln(os.Stderr, "load:", err)
		os.Exit(2)
	}
	bad := false
	nRange, nSlice, nDial, nLock := 0, 0, 0, 0
	for _, p := range pkgs {
		if strings.HasSuffix(p.PkgPath, "/verifrt") {
			continue
		}
		for _, e := range p.Errors {
			fmt.Fprintln(os.Stderr, "type error:", e)
			bad = true
		}
		for _, f := range p.Syntax {
			fn := p.Fset.Position(f.Package).Filename
			if strings.HasSuffix(fn, "_test.go") {
				continue
			}
			changed := false
			info := p.TypesInfo
			astutil.Apply(f, func(c *astutil.Cursor) bool {
				switch n := c.Node().(type) {
				case *ast.RangeStmt:
					tv, ok := info.Types[n.X]
					if !ok {
						return true
					}
					if _, isMap := tv.Type.Underlying().(*types.Map); isMap {
						n.X = &ast.CallExpr{Fun: &ast.SelectorExpr{X: ast.NewIdent("verifrt"), Sel: ast.NewIdent("Iter")}, Args: []ast.Expr{n.X}}
						changed = true
						nRange++
						fmt.Printf("range  %s\n", p.Fset.Position(n.Pos()))
					}
				case *ast.SelectorExpr:
					// method value d.DialContext / d.Dial (the call form is
					// handled below and does not descend here)
					sl, ok := info.Selections[n]
					if !ok || sl.Kind() != types.MethodVal {
						return true
					}
					recv := sl.Recv()
					isPtr := false
					if ptr, ok := recv.(*types.Pointer); ok {
						recv, isPtr = ptr.Elem(), true
					}
					named, ok := recv.(*types.Named)
					if !ok || named.Obj().Pkg() == nil || named.Obj().Pkg().Path() != "net" || named.Obj().Name() != "Dialer" {
						return true
					}
					if n.Sel.Name != "DialContext" && n.Sel.Name != "Dial" {
						return true
					}
					var recvExpr ast.Expr = n.X
					if !isPtr {
						recvExpr = &ast.UnaryExpr{Op: token.AND, X: recvExpr}
					}
					c.Replace(&ast.CallExpr{Fun: &ast.SelectorExpr{X: ast.NewIdent("verifrt"), Sel: ast.NewIdent(n.Sel.Name + "Func")}, Args: []ast.Expr{recvExpr}})
					changed = true
					nDial++
					fmt.Printf("dialfn %s\n", p.Fset.Position(n.Pos()))
					return false
				case *ast.CallExpr:
					sel, ok := n.Fun.(*ast.SelectorExpr)
					if !ok {
						return true
					}
					s, ok := info.Selections[sel]
					if !ok || s.Kind() != types.MethodVal {
						return true
					}
					recv := s.Recv()
					if ptr, ok := recv.(*types.Pointer); ok {
						recv = ptr.Elem()
					}
					named, ok := recv.(*types.Named)
					if !ok || named.Obj().Pkg() == nil {
						return true
					}
					pp := named.Obj().Pkg().Path()
					switch {
					case strings.Contains(pp, "hashicorp/go-set") && sel.Sel.Name == "Slice":
						c.Replace(&ast.CallExpr{Fun: &ast.SelectorExpr{X: ast.NewIdent("verifrt"), Sel: ast.NewIdent("Order")}, Args: []ast.Expr{n}})
						changed = true
						nSlice++
						fmt.Printf("slice  %s\n", p.Fset.Position(n.Pos()))
						return false
					case pp == "net" && named.Obj().Name() == "Dialer" && (sel.Sel.Name == "DialContext" || sel.Sel.Name == "Dial"):
						recvExpr := sel.X
						if _, isPtr := s.Recv().(*types.Pointer); !isPtr {
							recvExpr = &ast.UnaryExpr{Op: token.AND, X: recvExpr}
						}
						c.Replace(&ast.CallExpr{Fun: &ast.SelectorExpr{X: ast.NewIdent("verifrt"), Sel: ast.NewIdent(sel.Sel.Name)}, Args: append([]ast.Expr{recvExpr}, n.Args...)})
						changed = true
						nDial++
						fmt.Printf("dial   %s\n", p.Fset.Position(n.Pos()))
						return false
					}
				}
				return true
			}, nil)
			// lock boundaries of the shared caches in fclient become yield points
			if strings.HasSuffix(p.PkgPath, "/fclient") && !strings.HasSuffix(fn, "verif_overlay.go") {
				for _, d := range f.Decls {
					fd, ok := d.(*ast.FuncDecl)
					if !ok || fd.Body == nil {
						continue
					}
					if k := instrumentMutexes(p.Fset, info, fd); k > 0 {
						changed = true
						nLock += k
					}
				}
			}
			if !changed {
				continue
			}
			astutil.AddImport(p.Fset, f, rtPath)
			var buf bytes.Buffer
			if err := format.Node(&buf, p.Fset, f); err != nil {
				fmt.Fprintln(os.Stderr, "print", fn, err)
				os.Exit(2)
			}
			if err := os.WriteFile(fn, buf.Bytes(), 0o644); err != nil {
				fmt.Fprintln(os.Stderr, err)
				os.Exit(2)
			}
		}
	}
	fmt.Printf("instrumented: %d map ranges, %d set slices, %d dials, %d lock boundaries\n", nRange, nSlice, nDial, nLock)
	if bad {
		os.Exit(2)
	}
}

// mutexCall reports whether call is x.Lock / RLock / Unlock / RUnlock on a
// sync.Mutex or sync.RWMutex, and which.
func mutexCall(info *types.Info, call *ast.CallExpr) (string, bool) {
	sel, ok := call.Fun.(*ast.SelectorExpr)
	if !ok {
		return "", false
	}
	switch sel.Sel.Name {
	case "Lock", "RLock", "Unlock", "RUnlock":
	default:
		return "", false
	}
	s, ok := info.Selections[sel]
	if !ok || s.Kind() != types.MethodVal {
		return "", false
	}
	fn, ok := s.Obj().(*types.Func)
	if !ok || fn.Pkg() == nil || fn.Pkg().Path() != "sync" {
		return "", false
	}
	return sel.Sel.Name, true
}

func rtCall(name string, args ...ast.Expr) *ast.ExprStmt {
	return &ast.ExprStmt{X: &ast.CallExpr{Fun: &ast.SelectorExpr{X: ast.NewIdent("verifrt"), Sel: ast.NewIdent(name)}, Args: args}}
}

// instrumentMutexes turns the lock boundaries of one function into yield
// points:
//
//	x.Lock()          ->  verifrt.Yield(site); x.Lock(); verifrt.Locked()
//	x.Unlock()        ->  verifrt.Unlocked(); x.Unlock(); verifrt.Yield(site)
//	defer x.Unlock()  ->  defer func() { verifrt.Unlocked(); x.Unlock(); verifrt.Yield(site) }()
//
// verifrt.Yield does nothing while the calling goroutine holds an
// instrumented lock (nothing may park holding a sync.Mutex).
func instrumentMutexes(fset *token.FileSet, info *types.Info, fd *ast.FuncDecl) int {
	fname := fd.Name.Name
	if fd.Recv != nil && len(fd.Recv.List) == 1 {
		var b bytes.Buffer
		_ = format.Node(&b, fset, fd.Recv.List[0].Type)
		fname = "(" + b.String() + ")." + fname
	}
	n := 0
	site := func(pos token.Pos, what string) ast.Expr {
		p := fset.Position(pos)
		base := p.Filename[strings.LastIndex(p.Filename, "/")+1:]
		return &ast.BasicLit{Kind: token.STRING, Value: fmt.Sprintf("%q", fmt.Sprintf("%s:%d %s %s", base, p.Line, fname, what))}
	}
	astutil.Apply(fd.Body, func(c *astutil.Cursor) bool {
		switch st := c.Node().(type) {
		case *ast.ExprStmt:
			call, ok := st.X.(*ast.CallExpr)
			if !ok {
				return true
			}
			kind, ok := mutexCall(info, call)
			if !ok || c.Index() < 0 {
				return true
			}
			if kind == "Lock" || kind == "RLock" {
				c.InsertBefore(rtCall("Yield", site(st.Pos(), "before-"+strings.ToLower(kind))))
				c.InsertAfter(rtCall("Locked"))
			} else {
				c.InsertBefore(rtCall("Unlocked"))
				c.InsertAfter(rtCall("Yield", site(st.Pos(), "after-"+strings.ToLower(kind))))
			}
			n++
			fmt.Printf("lock   %s %s\n", fset.Position(st.Pos()), kind)
			return false
		case *ast.DeferStmt:
			kind, ok := mutexCall(info, st.Call)
			if !ok || (kind != "Unlock" && kind != "RUnlock") {
				return true
			}
			body := &ast.BlockStmt{List: []ast.Stmt{rtCall("Unlocked"), &ast.ExprStmt{X: st.Call}, rtCall("Yield", site(st.Pos(), "after-deferred-"+strings.ToLower(kind)))}}
			st.Call = &ast.CallExpr{Fun: &ast.FuncLit{Type: &ast.FuncType{Params: &ast.FieldList{}}, Body: body}}
			n++
			fmt.Printf("lock   %s deferred %s\n", fset.Position(st.Pos()), kind)
			return false
		}
		return true
	}, nil)
	return n
}
