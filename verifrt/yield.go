package verifrt

import (
	"runtime"
	"sync"
)

// Lock boundaries as yield points. The instrumenter surrounds the Lock /
// Unlock calls of the shared caches in fclient with calls into this file; the
// simulator installs YieldHook, which parks the calling goroutine until the
// seeded scheduler picks it. With no hook installed (shipped behaviour, the
// race audit) everything here is a no-op.

// YieldHook is called at a lock boundary that the calling goroutine reaches
// while holding no instrumented lock.
var YieldHook func(site string)

var (
	heldMu sync.Mutex
	held   = map[uint64]int{}
)

// GoID returns the current goroutine's id (parsed from its stack header).
func GoID() uint64 {
	var buf [64]byte
	n := runtime.Stack(buf[:], false)
	// "goroutine 123 ["
	var id uint64
	for _, c := range buf[len("goroutine "):n] {
		if c < '0' || c > '9' {
			break
		}
		id = id*10 + uint64(c-'0')
	}
	return id
}

func adj(d int) {
	g := GoID()
	heldMu.Lock()
	held[g] += d
	if held[g] <= 0 {
		delete(held, g)
	}
	heldMu.Unlock()
}

// Locked notes that the calling goroutine now holds one more instrumented lock.
func Locked() {
	if YieldHook != nil {
		adj(+1)
	}
}

// Unlocked notes that the calling goroutine is about to release one.
func Unlocked() {
	if YieldHook != nil {
		adj(-1)
	}
}

// Yield is a lock-boundary yield point.
func Yield(site string) {
	h := YieldHook
	if h == nil {
		return
	}
	g := GoID()
	heldMu.Lock()
	n := held[g]
	heldMu.Unlock()
	if n > 0 {
		return // never park holding a sync.Mutex
	}
	h(site)
}

// ResetYield forgets which goroutines hold locks (between simulated runs).
func ResetYield() {
	heldMu.Lock()
	held = map[uint64]int{}
	heldMu.Unlock()
}
