// Package verifrt is the runtime half of the verification seams. It is copied
// into a scratch copy of the repository by /verif/bin/verif and is never part
// of the shipped module. The instrumenter rewrites
//
//	for k, v := range m         ->  for k, v := range verifrt.Iter(m)      (m of map type)
//	s.Slice() (go-set)          ->  verifrt.Order(s.Slice())
//	d.DialContext(ctx, n, a)    ->  verifrt.DialContext(d, ctx, n, a)      (d a net.Dialer)
//	d.Dial(n, a)                ->  verifrt.Dial(d, n, a)
//
// so that map iteration order and dialling are decided by the simulator.
package verifrt

import (
	"context"
	"fmt"
	"iter"
	"net"
	"sort"
	"sync/atomic"
)

var (
	salt    atomic.Uint64
	counter atomic.Uint64
	native  atomic.Bool
	// Ranges counts instrumented iterations (evidence: the seam is live).
	Ranges atomic.Uint64
)

// SetSalt selects the map-order for the following iterations: salt 0 is the
// canonical sorted order, any other value a permutation derived from (salt,
// call counter). The call counter is reset.
func SetSalt(s uint64) { salt.Store(s); counter.Store(0) }

// SetNative makes Iter/Order pass-through (Go's own randomised order).
func SetNative(b bool) { native.Store(b) }

func keyString(k any) string {
	if s, ok := k.(string); ok {
		return s
	}
	return fmt.Sprintf("%T%+v", k, k)
}

func permute[T any](xs []T) {
	s := salt.Load()
	if s == 0 {
		return
	}
	c := counter.Add(1)
	st := s*0x9E3779B97F4A7C15 ^ c*0xD1B54A32D192ED03
	next := func() uint64 {
		st += 0x9E3779B97F4A7C15
		z := st
		z = (z ^ (z >> 30)) * 0xBF58476D1CE4E5B9
		z = (z ^ (z >> 27)) * 0x94D049BB133111EB
		return z ^ (z >> 31)
	}
	for i := len(xs) - 1; i > 0; i-- {
		j := int(next() % uint64(i+1))
		xs[i], xs[j] = xs[j], xs[i]
	}
}

// Keys returns the keys of m in the simulator-chosen order.
func Keys[M ~map[K]V, K comparable, V any](m M) []K {
	ks := make([]K, 0, len(m))
	for k := range m {
		ks = append(ks, k)
	}
	if native.Load() {
		return ks
	}
	Ranges.Add(1)
	sort.Slice(ks, func(i, j int) bool { return keyString(ks[i]) < keyString(ks[j]) })
	permute(ks)
	return ks
}

// Iter iterates m like the range statement does (an entry deleted before it is
// reached is not produced; entries added during iteration are not produced,
// which Go permits), in the simulator-chosen order.
func Iter[M ~map[K]V, K comparable, V any](m M) iter.Seq2[K, V] {
	return func(yield func(K, V) bool) {
		for _, k := range Keys(m) {
			v, ok := m[k]
			if !ok {
				continue
			}
			if !yield(k, v) {
				return
			}
		}
	}
}

// Order re-orders a slice whose order came from a hash set.
func Order[T any](xs []T) []T {
	if native.Load() {
		return xs
	}
	Ranges.Add(1)
	sort.Slice(xs, func(i, j int) bool { return keyString(xs[i]) < keyString(xs[j]) })
	permute(xs)
	return xs
}

// DialHook, when set, replaces the kernel: it receives the dialer (whose
// Control/ControlContext the hook must run, as the kernel would) and returns a
// simulated connection.
var DialHook func(d *net.Dialer, ctx context.Context, network, addr string) (net.Conn, error)

func DialContext(d *net.Dialer, ctx context.Context, network, addr string) (net.Conn, error) {
	if h := DialHook; h != nil {
		return h(d, ctx, network, addr)
	}
	return d.DialContext(ctx, network, addr)
}

func Dial(d *net.Dialer, network, addr string) (net.Conn, error) {
	return DialContext(d, context.Background(), network, addr)
}

// DialContextFunc / DialFunc stand in for the method values d.DialContext and
// d.Dial.
func DialContextFunc(d *net.Dialer) func(ctx context.Context, network, addr string) (net.Conn, error) {
	return func(ctx context.Context, network, addr string) (net.Conn, error) {
		return DialContext(d, ctx, network, addr)
	}
}

func DialFunc(d *net.Dialer) func(network, addr string) (net.Conn, error) {
	return func(network, addr string) (net.Conn, error) { return Dial(d, network, addr) }
}
