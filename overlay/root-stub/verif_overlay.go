//go:build verif

// Stand-in for overlay/root when that does not compile against the tree under
// test (the reusable auth checker it reaches for was renamed or restructured).
// VerifInternals tells the harness to skip what needs the real accessor.
package gomatrixserverlib

import "github.com/matrix-org/gomatrixserverlib/spec"

const VerifInternals = false

type VerifAllower struct {
	p AuthEventProvider
	q spec.UserIDForSender
}

func VerifNewAllower(provider AuthEventProvider, q spec.UserIDForSender, roomID spec.RoomID) *VerifAllower {
	return &VerifAllower{p: provider, q: q}
}

func (v *VerifAllower) Update(provider AuthEventProvider) { v.p = provider }
func (v *VerifAllower) Allowed(e PDU) error               { return Allowed(e, v.p, v.q) }
