//go:build verif

// Stand-ins for the in-package accessors of overlay/fclient, used when those
// do not compile against the tree under test (an internal field or function
// they reach for was renamed or restructured). Same exported surface, no
// reference to anything unexported; VerifInternals tells the harness that the
// workloads and invariants that need the real accessors have to be skipped.
package fclient

import (
	"context"
	"net"
	"time"
)

const VerifInternals = false

type VerifResolver interface {
	LookupIPAddr(context.Context, string) ([]net.IPAddr, error)
}

func (c *DNSCache) VerifSetResolver(r VerifResolver) {}

func (c *DNSCache) VerifLookup(ctx context.Context, name string) (addrs []net.IPAddr, expires time.Time, cached bool, ok bool) {
	return nil, time.Time{}, false, false
}

type VerifDNSEntry struct {
	Addrs   []net.IPAddr
	Expires time.Time
}

func (c *DNSCache) VerifEntries() map[string]VerifDNSEntry { return nil }
func (c *DNSCache) VerifSize() int                        { return 0 }
func (c *DNSCache) VerifDialer() *net.Dialer              { return nil }
func (fc *Client) VerifTransports() map[string]time.Time  { return nil }
func (fc *Client) VerifGetTransport(string) string        { return "" }
func (fc *Client) VerifFederationDialer() *net.Dialer     { return nil }
func (fc *Client) VerifCloseIdle()                        {}
func VerifTripperTimes() (lifetime, reapInterval time.Duration) {
	return 5 * time.Minute, time.Minute
}
