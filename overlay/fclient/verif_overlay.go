//go:build verif

// In-package accessors for the verification harness. Copied into a scratch
// copy of the repository by /verif/bin/verif; never part of the shipped tree.
package fclient

import (
	"context"
	"fmt"
	"net"
	"net/http"
	"time"
)

// VerifInternals: the real accessors are in place (overlay/fclient-stub says
// false when they do not fit the tree under test).
const VerifInternals = true

// VerifResolver is the (unexported) netResolver interface, exported.
type VerifResolver interface {
	LookupIPAddr(context.Context, string) ([]net.IPAddr, error)
}

func (c *DNSCache) VerifSetResolver(r VerifResolver) { c.resolver = r }

// VerifLookup calls the unexported lookup.
func (c *DNSCache) VerifLookup(ctx context.Context, name string) (addrs []net.IPAddr, expires time.Time, cached bool, ok bool) {
	e, cached := c.lookup(ctx, name)
	if e == nil {
		return nil, time.Time{}, cached, false
	}
	return e.addrs, e.expires, cached, true
}

type VerifDNSEntry struct {
	Addrs   []net.IPAddr
	Expires time.Time
}

// VerifEntries snapshots the cache under its mutex.
func (c *DNSCache) VerifEntries() map[string]VerifDNSEntry {
	c.mutex.Lock()
	defer c.mutex.Unlock()
	out := make(map[string]VerifDNSEntry, len(c.entries))
	for k, e := range c.entries {
		out[k] = VerifDNSEntry{Addrs: e.addrs, Expires: e.expires}
	}
	return out
}

func (c *DNSCache) VerifSize() int { return c.size }

// VerifDialer returns the dialer the cache connects with.
func (c *DNSCache) VerifDialer() *net.Dialer { return &c.dialer }

// VerifTransports reports the TLS server names for which the client's
// destinationTripper currently holds a transport (nil if the client does not
// use a destinationTripper).
func (fc *Client) VerifTransports() map[string]time.Time {
	dt, ok := fc.client.Transport.(*destinationTripper)
	if !ok {
		return nil
	}
	dt.transportsMutex.Lock()
	defer dt.transportsMutex.Unlock()
	out := map[string]time.Time{}
	for k, t := range dt.transports {
		// a transport that is visible before its last-used stamp is set
		// reports the zero time (the reaper would trip over it)
		out[k], _ = t.lastUsed.Load().(time.Time)
	}
	return out
}

// VerifGetTransport runs the tripper's get-or-create for a TLS server name and
// returns the identity of the transport it hands out ("" without a
// destinationTripper).
func (fc *Client) VerifGetTransport(tlsServerName string) string {
	dt, ok := fc.client.Transport.(*destinationTripper)
	if !ok {
		return ""
	}
	return fmt.Sprintf("%p", dt.getTransport(tlsServerName, dt.dialer))
}

// VerifFederationDialer returns the dialer the client's destinationTripper
// makes federation connections with (nil without a destinationTripper). Any
// other dialer the client dials through serves the well-known fetch.
func (fc *Client) VerifFederationDialer() *net.Dialer {
	dt, ok := fc.client.Transport.(*destinationTripper)
	if !ok {
		return nil
	}
	return dt.dialer
}

// VerifCloseIdle closes idle connections of every cached transport (teardown
// inside a synctest bubble).
func (fc *Client) VerifCloseIdle() {
	dt, ok := fc.client.Transport.(*destinationTripper)
	if !ok {
		if t, ok := fc.client.Transport.(*http.Transport); ok {
			t.CloseIdleConnections()
		}
		return
	}
	dt.transportsMutex.Lock()
	defer dt.transportsMutex.Unlock()
	for _, t := range dt.transports {
		t.CloseIdleConnections()
	}
}

// VerifTripperTimes reports how long the transport cache keeps an unused
// transport and how often its reaper looks (the oracle restates neither).
func VerifTripperTimes() (lifetime, reapInterval time.Duration) {
	return destinationTripperLifetime, destinationTripperReapInterval
}
