//go:build verif

// In-package accessors for the verification harness. Copied into a scratch
// copy of the repository by /verif/bin/verif; never part of the shipped tree.
package gomatrixserverlib

import "github.com/matrix-org/gomatrixserverlib/spec"

// VerifInternals: the real accessor is in place (overlay/root-stub says false
// when it does not fit the tree under test).
const VerifInternals = true

// VerifAllower exposes the unexported allowerContext so that one checker can
// be reused across several events the way state resolution does.
type VerifAllower struct{ a *allowerContext }

func VerifNewAllower(provider AuthEventProvider, q spec.UserIDForSender, roomID spec.RoomID) *VerifAllower {
	return &VerifAllower{a: newAllowerContext(provider, q, roomID)}
}

func (v *VerifAllower) Update(provider AuthEventProvider) { v.a.update(provider) }
func (v *VerifAllower) Allowed(e PDU) error               { return v.a.allowed(e) }
